#!/bin/bash
# seedverify.sh <worktree-with-seed> <seedA|seedB> [copy-to-dir]
# Confirms in a scratch worktree: demo passes on the unchanged tree; with the patch the suite passes
# (TestEnum_String aside) and the demo fails.
set -u
export GOFLAGS=-mod=mod GOPROXY=off GOSUMDB=off GOTOOLCHAIN=local
src=$1; seed=$2; copyto=${3:-}
V=/tmp/wt/V-$$
git -C /repo worktree add -q --detach $V HEAD || exit 2
trap 'git -C /repo worktree remove --force $V >/dev/null 2>&1' EXIT
cp -r $src/$seed $V/$seed
demo=$(ls $V/$seed/*.go $V/$seed/*/*.go 2>/dev/null | head -1)
tag=$(grep -h -m1 '^//go:build' $V/$seed/*.go $V/$seed/*/*.go 2>/dev/null | head -1 | sed 's|//go:build ||; s|[()!&|]| |g' | awk '{print $1}')
pkgdir=./$seed/
if [ -n "$copyto" ]; then cp $V/$seed/*_test.go $V/$copyto/zz_seed_demo_test.go; pkgdir=./$copyto/; fi
run_demo() { (cd $V && go test -vet=off -count=1 ${tag:+-tags $tag} ${RACE:-} $pkgdir 2>&1 | tail -4); }
echo "--- demo on unchanged tree (tag=${tag:-none}):"; run_demo | tail -2
(cd $V && git apply $seed/patch.diff) || { echo "PATCH DOES NOT APPLY"; exit 1; }
echo "--- suite with the change:"; (cd $V && go build ./... && go test -vet=off -count=1 ./... 2>&1 | grep -v "^ok\|no test files\|seedA\|seedB" | grep "^--- FAIL\|^FAIL\|panic" | grep -v "zz_seed" | head -6)
echo "--- demo with the change:"; run_demo | tail -3
