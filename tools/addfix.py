#!/usr/bin/env python3
"""Record a fix: commit of /repo -> mutants/revert-<sha>.patch, mutants/MAP.json, known_findings.json.
usage: addfix.py <sha> <props comma separated> <id> <check> <what>"""
import json, subprocess, sys
sha, props, fid, check, what = sys.argv[1:6]
sha = subprocess.check_output(["git", "-C", "/repo", "rev-parse", "--short=7", sha], text=True).strip()
props = props.split(",")
patch = subprocess.check_output(["git", "-C", "/repo", "diff", sha, sha + "^"], text=True)
name = "revert-%s.patch" % sha
open("/verif/mutants/" + name, "w").write(patch)
m = json.load(open("/verif/mutants/MAP.json"))
m[name] = props
json.dump(m, open("/verif/mutants/MAP.json", "w"), indent=1)
k = json.load(open("/verif/known_findings.json"))
k = [e for e in k if e["id"] != fid]
k.append({"property": props[0], "id": fid, "status": "fixed", "commit": sha, "check": check, "what": what,
          "line": "fixed: property=%s %s %s" % (props[0], sha, what)})
json.dump(k, open("/verif/known_findings.json", "w"), indent=1, ensure_ascii=False)
print("recorded", name, props, fid)
