#!/usr/bin/env python3
"""Regenerates /verif/MANIFEST.json from checks_config.py (kept in one place so it stays valid)."""
import json, os, sys
VERIF = os.path.dirname(os.path.dirname(os.path.abspath(__file__)))
sys.path.insert(0, VERIF)
from checks_config import PROPS, NOT_APPLICABLE  # noqa

checks = []
for pid in sorted(PROPS):
    c = PROPS[pid]
    checks.append(dict(
        property_id=pid,
        quick_cmd=f"./check {pid} --tier quick",
        thorough_cmd=f"./check {pid} --tier thorough",
        evidence_file=f"/verif/evidence/{pid}.json",
        replay_cmd_template=f"./check {pid} --replay {{path}}",
        engine="rapid-harness",
        level_claimed=dict(category=c["level"], text=c["level_text"], design_ref=c.get("design_ref", "DESIGN.md §5 " + pid)),
        level_note=c["level_note"],
        technique=c["technique"],
    ))
m = dict(
    version=1,
    setup_cmd="./setup.sh",
    hooks=dict(
        guard="verif",
        enable="go test -tags verif -overlay /verif/build/<ID>-<hash>/overlay.json (add-only files from /verif/hooks mapped to new paths inside the module; nothing is committed to /repo)",
        baseline_off_cmd="cd /repo && GOFLAGS=-mod=mod GOPROXY=off GOSUMDB=off GOTOOLCHAIN=local go test -json -vet=off -count=1 -timeout 25m ./...",
        source_commits=[],
        add_only=True,
    ),
    engines=[dict(name="rapid-harness", path="/verif/harness", serves_properties=sorted(PROPS),
                  kind_free_text="Go module: pgregory.net/rapid v1.3.0 properties, plain-loop enumerators and go native fuzz targets with the oracle inside; independent reference deciders in harness/ref; driver /verif/check shards, merges counters, writes evidence")],
    checks=checks,
    notes="All checks rebuild from $VERIF_REPO (default /repo) working tree. Exit 0 held / 1 VIOLATION / 2 inconclusive (infrastructure). known_findings.json lists recorded genuine defects and fix commits.",
    not_applicable=NOT_APPLICABLE,
)
with open(os.path.join(VERIF, "MANIFEST.json"), "w") as f:
    json.dump(m, f, indent=1)
print("MANIFEST.json:", len(checks), "checks,", len(NOT_APPLICABLE), "not applicable")
