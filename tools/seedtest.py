#!/usr/bin/env python3
"""seedtest.py <patch.diff> <ID> [<ID> ...]
Applies a seeded change to /repo, runs the listed checks (quick tier), and reverts the tree.
Prints per check: rc and the first VIOLATION lines. Never leaves /repo modified."""
import subprocess, sys, os
patch = os.path.abspath(sys.argv[1]); ids = sys.argv[2:]
tier = os.environ.get("SEED_TIER", "quick")
def sh(cmd, **kw): return subprocess.run(cmd, shell=True, stdout=subprocess.PIPE, stderr=subprocess.STDOUT, text=True, **kw)
st = sh("git -C /repo status --porcelain").stdout
if st.strip():
    print("refusing: /repo is dirty:\n" + st); sys.exit(2)
r = sh(f"git -C /repo apply {patch}")
if r.returncode != 0:
    print("patch does not apply:", r.stdout); sys.exit(2)
try:
    for i in ids:
        r = sh(f"cd /verif && ./check {i} --tier {tier}")
        lines = [l for l in r.stdout.splitlines() if not l.startswith("KNOWN-FINDING")]
        v = [l for l in lines if l.startswith("VIOLATION")]
        print(f"{i}: rc={r.returncode} violations={len(v)}")
        for l in lines[:6]:
            print("   " + l[:260])
finally:
    sh("git -C /repo checkout -- . && git -C /repo clean -fdq -- . ")
    print("reverted:", repr(sh("git -C /repo status --porcelain").stdout))
