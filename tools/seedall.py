#!/usr/bin/env python3
"""seedall.py [--only PREFIX]
Runs every stored seeded change (seeded/<Cxx>-<L>/patch.diff against check Cxx) and every revert
mutant of mutants/MAP.json (against its mapped checks), quick tier, one after the other on /repo
(apply, check, revert). Writes seeded/RESULTS.json and prints one line per change.
/repo must be clean; it is left clean."""
import json, os, re, subprocess, sys, time
V = os.path.dirname(os.path.dirname(os.path.abspath(__file__)))
REPO = os.path.abspath(os.environ.get("VERIF_REPO", "/repo"))  # a scratch copy of /verif with a scratch worktree may be used
only = sys.argv[2] if len(sys.argv) > 2 and sys.argv[1] == "--only" else ""
def sh(cmd): return subprocess.run(cmd, shell=True, stdout=subprocess.PIPE, stderr=subprocess.STDOUT, text=True)
if sh(f"git -C {REPO} status --porcelain").stdout.strip():
    print("refusing: /repo is dirty"); sys.exit(2)
jobs = []
for d in sorted(os.listdir(f"{V}/seeded")):
    m = re.match(r"(C\d\d)-[A-Z]$", d)
    if m and f"seeded/{d}".startswith(only):
        ids = [m.group(1)]
        try:
            # a seed whose breakage surfaces under other properties as well (or, after later fixes of
            # the library, only there) names them in meta.json
            ids = json.load(open(f"{V}/seeded/{d}/meta.json")).get("checks", ids)
        except Exception:
            pass
        jobs.append((f"seeded/{d}", f"{V}/seeded/{d}/patch.diff", ids))
    elif re.match(r"[RSG]\d\d-[A-Z]$", d) and f"seeded/{d}".startswith(only):
        # region-based seeds (round 4): the properties they break are listed in meta.json
        meta = json.load(open(f"{V}/seeded/{d}/meta.json"))
        jobs.append((f"seeded/{d}", f"{V}/seeded/{d}/patch.diff", meta["checks"]))
mp = json.load(open(f"{V}/mutants/MAP.json"))
for k in sorted(mp):
    if f"mutants/{k}".startswith(only):
        jobs.append((f"mutants/{k}", f"{V}/mutants/{k}", mp[k]))
res, missed = {}, []
for name, patch, ids in jobs:
    t0 = time.time()
    r = sh(f"git -C {REPO} apply {patch}")
    if r.returncode != 0:
        res[name] = {"applies": False}; missed.append(name); print(f"{name}: PATCH DOES NOT APPLY"); continue
    caught_by = []
    try:
        for i in ids:
            r = sh(f"cd {V} && ./check {i} --tier quick")
            if r.returncode == 1 and "VIOLATION property=" + i in r.stdout:
                caught_by.append(i)
            elif r.returncode not in (0, 1):
                caught_by.append(i + ":rc=%d" % r.returncode)
    finally:
        sh(f"git -C {REPO} checkout -- . && git -C {REPO} clean -fdq -- .")
    ok = any(":" not in c for c in caught_by)
    res[name] = {"applies": True, "checks": ids, "caught_by": caught_by, "caught": ok, "seconds": round(time.time() - t0, 1)}
    if not ok: missed.append(name)
    print(f"{name}: {'caught by ' + ','.join(caught_by) if ok else 'MISSED ' + str(caught_by)} ({res[name]['seconds']}s)", flush=True)
if not only:
    json.dump({"tree": sh(f"git -C {REPO} rev-parse --short HEAD").stdout.strip(), "results": res}, open(f"{V}/seeded/RESULTS.json", "w"), indent=1)
print(f"{len(jobs) - len(missed)}/{len(jobs)} caught; missed: {missed}")
assert not sh(f"git -C {REPO} status --porcelain").stdout.strip()
