#!/bin/bash
# seedintake6.sh <Cxx>   (round 6: /tmp/wt8/<Cxx>/seedA|seedB -> seeded/<Cxx>-G|H)
set -u
P=$1; W=/tmp/wt8
cd /verif; mkdir -p /tmp/wt /tmp/sv2
for pair in seedA:G seedB:H; do
  src=${pair%%:*}; L=${pair##*:}; dst=seeded/$P-$L
  [ -f $W/$P/$src/patch.diff ] || { echo "$P-$L: no patch"; continue; }
  log=/tmp/sv2/intake-$P-$L.log
  RACE=""; grep -qi "\-race" $W/$P/$src/README.md 2>/dev/null && RACE="-race"
  RACE=$RACE tools/seedverify.sh $W/$P $src > $log 2>&1
  okb=$(sed -n '/demo on unchanged/,/suite with/p' $log | grep -c '^ok')
  suite=$(sed -n '/suite with/,/demo with/p' $log | grep '^--- FAIL' | grep -v TestEnum_String | wc -l)
  faila=$(sed -n '/demo with the change/,$p' $log | grep -c '^FAIL\|^--- FAIL\|panic\|fatal\|DATA RACE')
  mkdir -p $dst; cp $W/$P/$src/patch.diff $dst/patch.diff; cp $W/$P/$src/README.md $dst/README.md 2>/dev/null
  for g in $W/$P/$src/*.go; do cp $g $dst/$(basename $g).txt; done
  res=$(tools/mut.sh $dst/patch.diff $P 2>&1 | cut -c1-200 | tr '\n' ' ')
  echo "$P-$L confirm: before-ok=$okb other-suite-failures=$suite after-fail=$faila | $res"
done
