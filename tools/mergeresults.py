#!/usr/bin/env python3
"""mergeresults.py <tree> <log>...: builds seeded/RESULTS.json from the logs of partial seedall runs
(seedall.py --only PREFIX prints one line per change and writes no file). The mapped checks of each
change are taken from meta.json / MAP.json as seedall does."""
import json, os, re, sys
V = os.path.dirname(os.path.dirname(os.path.abspath(__file__)))
tree, logs = sys.argv[1], sys.argv[2:]
mp = json.load(open(f"{V}/mutants/MAP.json"))
def checks(name):
    if name.startswith("mutants/"):
        return mp.get(name[len("mutants/"):])
    d = name[len("seeded/"):]
    ids = [d[:3]] if re.match(r"C\d\d-", d) else None
    try:
        ids = json.load(open(f"{V}/{name}/meta.json")).get("checks", ids)
    except Exception:
        pass
    return ids
res = {}
for log in logs:
    for line in open(log):
        m = re.match(r"((?:seeded|mutants)/\S+): (caught by (\S+)|MISSED (\[.*\])|PATCH DOES NOT APPLY)(?: \(([\d.]+)s\))?", line)
        if not m:
            continue
        name = m.group(1)
        if m.group(2).startswith("PATCH"):
            res[name] = {"applies": False}
        elif m.group(3):
            res[name] = {"applies": True, "checks": checks(name), "caught_by": m.group(3).split(","), "caught": True, "seconds": float(m.group(5) or 0)}
        else:
            res[name] = {"applies": True, "checks": checks(name), "caught_by": json.loads(m.group(4).replace("'", '"')), "caught": False, "seconds": float(m.group(5) or 0)}
json.dump({"tree": tree, "results": dict(sorted(res.items()))}, open(f"{V}/seeded/RESULTS.json", "w"), indent=1)
missed = [k for k, v in res.items() if not v.get("caught")]
print(f"{len(res) - len(missed)}/{len(res)} caught; missed: {missed}")
