#!/bin/bash
# mut.sh <patch> <check>...: applies the patch to a scratch worktree of /repo's HEAD (never to /repo),
# runs the checks against it (quick tier) and prints one line per check. The worktree is /tmp/mutwt.
V=$(cd "$(dirname "$0")/.." && pwd)
W=${MUTWT:-/tmp/mutwt}
p=$(realpath "$1"); shift
if [ ! -d $W ] || [ "$(git -C $W rev-parse HEAD)" != "$(git -C /repo rev-parse HEAD)" ]; then
  git -C /repo worktree remove --force $W 2>/dev/null; rm -rf $W; git -C /repo worktree add -q --detach $W HEAD || exit 2
fi
git -C $W checkout -q -- . ; git -C $W clean -fdq
git -C $W apply "$p" || { echo "PATCH DOES NOT APPLY: $p"; exit 2; }
for c in "$@"; do
  out=$(cd $V && VERIF_REPO=$W ./check $c --tier quick 2>&1); rc=$?
  echo "$(basename $p) $c rc=$rc $(echo "$out" | grep -c '^VIOLATION') violations | $(echo "$out" | grep -A1 '^VIOLATION' | head -2 | tail -1 | cut -c1-260)"
done
git -C $W checkout -q -- . ; git -C $W clean -fdq
