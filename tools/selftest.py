#!/usr/bin/env python3
"""Sensitivity self-test: applies each mutants/*.patch listed in mutants/MAP.json to /repo, runs the
mapped quick checks and expects a VIOLATION (exit 1) from each; reverts the tree after every patch."""
import json, subprocess, sys, os
V = os.path.dirname(os.path.dirname(os.path.abspath(__file__)))
m = json.load(open(os.path.join(V, "mutants", "MAP.json")))
only = sys.argv[1:]
def sh(c): return subprocess.run(c, shell=True, stdout=subprocess.PIPE, stderr=subprocess.STDOUT, text=True)
if sh("git -C /repo status --porcelain").stdout.strip():
    print("refusing: /repo is dirty"); sys.exit(2)
bad = 0
for patch, ids in m.items():
    if only and not any(o in patch for o in only):
        continue
    p = os.path.join(V, "mutants", patch)
    r = sh(f"git -C /repo apply {p}")
    if r.returncode != 0:
        print(f"{patch}: DOES NOT APPLY ({r.stdout.strip()[:120]})"); bad += 1; continue
    try:
        for i in ids:
            r = sh(f"cd {V} && ./check {i} --tier quick")
            caught = r.returncode == 1 and "VIOLATION property=" + i in r.stdout
            print(f"{patch} -> {i}: {'caught' if caught else 'MISSED rc=%d' % r.returncode}")
            if not caught:
                bad += 1
    finally:
        sh("git -C /repo checkout -- .")
print("missed/unusable:", bad)
sys.exit(1 if bad else 0)
