#!/bin/bash
# rebaseintake.sh <outdir> <tag>: takes rebased patches from <outdir> (flat names: path with / -> __) into /verif,
# keeping the previous version as patch.orig-<tag>.diff (seeds) / <name>.orig-<tag> (mutants); *.OBSOLETE files move a seed
# to seeded/obsolete/ with the reason. Every taken patch must apply to /repo HEAD.
out=$1; tag=$2; cd /verif
for f in $out/*; do
  b=$(basename $f)
  case $b in
    *.OBSOLETE)
      p=${b%.OBSOLETE}; rel=${p//__//}; d=$(dirname $rel)
      if [[ $rel == seeded/* ]]; then git mv $d seeded/obsolete/$(basename $d) && cp $f seeded/obsolete/$(basename $d)/OBSOLETE-$tag.txt && echo "obsolete: $d"; else echo "OBSOLETE MUTANT (handle by hand): $rel"; fi ;;
    *__demo_test.go.txt)
      rel=${b//__//}; d=$(dirname $rel); [ -f $d/demo_test.go.txt ] && cp $d/demo_test.go.txt $d/demo_test.orig-$tag.go.txt; cp $f $d/demo_test.go.txt; echo "demo: $d" ;;
    *)
      rel=${b//__//}
      if ! git -C /repo apply --check $f 2>/dev/null; then echo "DOES NOT APPLY: $b"; continue; fi
      if [[ $rel == seeded/* ]]; then cp $rel $(dirname $rel)/patch.orig-$tag.diff; else cp $rel $rel.orig-$tag; fi
      cp $f $rel; echo "taken: $rel" ;;
  esac
done
