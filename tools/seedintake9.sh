#!/bin/bash
# seedintake9.sh <Gnn>   (round 9: source-region seeds in /tmp/wt13/<Snn>/seedA|seedB, property named in README line 1)
set -u
R=$1; W=/tmp/wt13
cd /verif; mkdir -p /tmp/wt /tmp/sv2
for pair in seedA:A seedB:B; do
  src=${pair%%:*}; L=${pair##*:}; dst=seeded/$R-$L
  [ -f $W/$R/$src/patch.diff ] || { echo "$R-$L: no patch"; continue; }
  log=/tmp/sv2/intake-$R-$L.log
  RACE=""; grep -qi "go test -race\|-race" $W/$R/$src/README.md 2>/dev/null && RACE="-race"
  RACE=$RACE tools/seedverify.sh $W/$R $src > $log 2>&1
  okb=$(sed -n '/demo on unchanged/,/suite with/p' $log | grep -c '^ok')
  suite=$(sed -n '/suite with/,/demo with/p' $log | grep '^--- FAIL' | grep -v TestEnum_String | wc -l)
  faila=$(sed -n '/demo with the change/,$p' $log | grep -c '^FAIL\|^--- FAIL\|panic\|fatal\|DATA RACE')
  mkdir -p $dst; cp $W/$R/$src/patch.diff $dst/patch.diff; cp $W/$R/$src/README.md $dst/README.md 2>/dev/null
  for g in $W/$R/$src/*.go; do cp $g $dst/$(basename $g).txt; done
  props=$(head -3 $dst/README.md | grep -o 'C[0-9][0-9]' | sort -u | tr '\n' ' ')
  res=$(tools/mut.sh $dst/patch.diff $props 2>&1 | cut -c1-220 | tr '\n' ' ')
  echo "$R-$L props=[$props] confirm: before-ok=$okb other-suite-failures=$suite after-fail=$faila | $res"
done
