#!/bin/bash
# Runs every check of the given tier (default quick) on the current tree; prints one line each.
cd "$(dirname "$0")/.."
tier=${1:-quick}
fail=0
for p in $(python3 -c "import sys; sys.path.insert(0,'.'); from checks_config import PROPS; print(' '.join(sorted(PROPS)))"); do
  s=$(date +%s.%N)
  out=$(./check $p --tier $tier 2>&1); rc=$?
  e=$(date +%s.%N)
  echo "$p rc=$rc $(printf '%.1f' $(echo "$e - $s" | bc))s $(echo "$out" | grep -c KNOWN-FINDING) known | $(echo "$out" | grep '^property=' | cut -c1-140)"
  if [ $rc -ne 0 ]; then fail=1; echo "$out" | grep -v KNOWN-FINDING | head -5 | cut -c1-300; fi
done
exit $fail
