#!/bin/bash
# benignall.sh <dir-with-Bnn/benignX> : applies each property-preserving change to a scratch worktree and runs ALL checks
# (quick tier) against it; a VIOLATION here is a false alarm of the check. One line per (change, check) that is not silent.
W=${MUTWT:-/tmp/mutwt3}; V=$(cd "$(dirname "$0")/.." && pwd); src=$1; shift; only="$*"
export GOFLAGS=-mod=mod GOPROXY=off GOSUMDB=off GOTOOLCHAIN=local
if [ ! -d $W ] || [ "$(git -C $W rev-parse HEAD)" != "$(git -C /repo rev-parse HEAD)" ]; then
  git -C /repo worktree remove --force $W 2>/dev/null; rm -rf $W; git -C /repo worktree add -q --detach $W HEAD || exit 2
fi
for p in $src/*/*/patch.diff; do
  b=$(basename $(dirname $(dirname $p))); if [ -n "$only" ] && ! echo " $only " | grep -q " $b "; then continue; fi
  name=$(echo $p | sed "s#$src/##; s#/patch.diff##")
  git -C $W checkout -q -- . ; git -C $W clean -fdq
  git -C $W apply $p 2>/dev/null || { echo "$name: PATCH DOES NOT APPLY"; continue; }
  (cd $W && go build ./... 2>&1 | head -3 | grep -q . ) && { echo "$name: DOES NOT BUILD"; continue; }
  suite=$(cd $W && go test -vet=off -count=1 ./... 2>&1 | grep "^--- FAIL" | grep -v TestEnum_String | wc -l)
  alarms=""
  for c in $(cd $V && python3 -c "import sys; sys.path.insert(0,'.'); from checks_config import PROPS; print(' '.join(sorted(PROPS)))"); do
    out=$(cd $V && VERIF_REPO=$W ./check $c --tier quick 2>&1); rc=$?
    if [ $rc -ne 0 ]; then alarms="$alarms $c(rc=$rc)"; echo "  $name $c rc=$rc | $(echo "$out" | grep -A1 '^VIOLATION' | head -2 | tail -1 | cut -c1-300)"; fi
  done
  echo "$name: suite-failures=$suite alarms=[$alarms ]"
done
git -C $W checkout -q -- . ; git -C $W clean -fdq
