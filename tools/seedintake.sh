#!/bin/bash
# seedintake.sh <dir-with-worktrees> <Cxx> <letter-for-seedA> <letter-for-seedB>
# Confirms both seeds of one property in scratch worktrees, stores them under seeded/, and runs the
# property's quick check against each (apply to /repo, check, revert). Prints one summary line each.
set -u
W=$1; C=$2; LA=$3; LB=$4
cd /verif
for pair in seedA:$LA seedB:$LB; do
  src=${pair%%:*}; L=${pair##*:}; dst=seeded/$C-$L
  log=/tmp/sv2/intake-$C-$L.log
  tools/seedverify.sh $W/$C $src > $log 2>&1
  okb=$(sed -n '/demo on unchanged/,/suite with/p' $log | grep -c '^ok')
  suite=$(sed -n '/suite with/,/demo with/p' $log | grep '^--- FAIL' | grep -v TestEnum_String | wc -l)
  faila=$(sed -n '/demo with the change/,$p' $log | grep -c '^FAIL\|^--- FAIL\|panic\|fatal')
  mkdir -p $dst; cp $W/$C/$src/patch.diff $dst/patch.diff; cp $W/$C/$src/README.md $dst/README.md 2>/dev/null
  for g in $W/$C/$src/*.go; do cp $g $dst/$(basename $g).txt; done
  res=$(python3 tools/seedtest.py $dst/patch.diff $C 2>&1 | grep -v "^WARNING conda\|KNOWN-FINDING" | head -3 | tr '\n' ' ' | cut -c1-330)
  echo "$C-$L confirm: demo-before-ok=$okb other-suite-failures=$suite demo-after-fail=$faila | $res"
done
