# Per-property configuration of the driver (/verif/check).
# jobs: name, run (go test -run regex), shards (quick, thorough), checks = -rapid.checks (quick, thorough),
#       timeout seconds (quick, thorough), optional race / fuzz / fuzztime / tiers / env.

def job(name, run, shards, checks, timeout, **kw):
    d = dict(name=name, run=run, shards=shards, checks=checks, timeout=timeout)
    d.update(kw)
    return d


PROPS = {
    "C01": dict(
        pkg="c01", level="exploration",
        technique="model-based differential testing: rapid-generated abstract schemas printed to text, instance-then-mutate documents, independent reference shape decider",
        level_text=("Bounded exploration of schemas x documents x both option settings: Validate's verdict is compared with an independent "
                    "recursive shape decider written from the property statement over decoded values; plus metamorphic checks (property-order "
                    "permutation, option flip). Sampled, not exhaustive."),
        level_note="trusted: the reference shape decider (harness/ref/shape.go) and the schema printer; depth<=5, width<=5; `1.0`-style numerals against integer examples are not judged",
        rule=("schemas: abstract models of the rule-free fragment (objects/arrays/5 scalar kinds, depth<=4 quick / 5 thorough, optional / nullable / type any, "
              "keys incl. empty, escaped and non-ASCII) printed one node per line; documents: instance-then-mutate (0-3 of: flip kind, int<->float, inject null, "
              "drop/add/duplicate/reorder key, truncate/extend array, swap items), random JSON, the example itself, the instance without each single key of its objects; every document again on a schema object that has validated all documents of the case; both option settings. "
              "non-trivial = document root has the example's kind and (accepted with depth>=2, or rejected by a difference at depth>=1); "
              "distinct by hash(schema text, document text, option)"),
        assumptions=["reference shape decider is right", "schema printer emits what the model says (cross-checked by C16)"],
        jobs=[job("shape", "^TestShape$", (4, 16), (6000, 160000), (300, 3000))],
    ),
    "C06": dict(
        pkg="c06", level="exploration",
        packages={"c06h": dict(optional=True, hooks={"jschemainternal.go": "notations/jschema/verifhook/hook.go",
                                                     "enumscan.go": "rules/enum/verif_hook.go"})},
        technique="model-based testing: expected event stream computed from a generated JSON model with printer-recorded byte spans; round-trip (value rebuilt from events); differential between the three cloned scanners via overlay hooks",
        level_text=("Bounded exploration: for generated valid JSON texts (depth<=8, width<=8, all scalar forms, arbitrary blanks) the NextLexeme stream is compared "
                    "with the stream the model implies (nesting, spans inside input, literal/key/container spans exact), the value is rebuilt from events alone, "
                    "and through add-only overlay hooks the schema and enum scanners' streams are compared with the document scanner's; the same values embedded into schema syntax ('#' and '###' user comments, "
                    "blank lines, LF/CRLF/CR line ends) must give the model's stream at the printer-recorded offsets; a full read after a partial read followed by the first Len/Check must equal the fresh read. Sampled plus a small exhaustive tier."),
        level_note="trusted: reference JSON parser and printer (cross-checked against each other on every case); value-end/item-end spans are only required to lie inside the input and begin at their partner's begin",
        rule=("inputs: valid JSON texts printed from rapid-generated models (depth 0-8, width 0-8, exponents, -0, long digit strings, every escape kind, surrogate pairs, "
              "2-4 byte UTF-8 in keys and values, empty and nested-empty containers, duplicate keys, blanks drawn per token gap incl. none), plus every valid text that is a "
              "concatenation of <=6/7 symbols of a 13-symbol alphabet; hook half: texts legal in all three syntaxes (no exponents; enum: flat array of distinct scalars). "
              "non-trivial = top-level container and at least one of {escape, multi-byte rune, exponent, empty container, number as last byte}; distinct by text"),
        assumptions=["reference parser/printer agree with each other on every generated case (asserted)", "hooks are add-only files injected by -overlay"],
        jobs=[
            job("events", "^TestDocEvents", (4, 16), (8000, 200000), (300, 3000)),
            job("three-scanners", "^TestThreeScanners$", (4, 16), (6000, 200000), (300, 3000), pkg="c06h"),
            job("decorated-schema", "^TestDecoratedSchema$", (2, 8), (6000, 200000), (300, 3000), pkg="c06h"),
            job("fuzz", "", (0, 0), (0, 0), (0, 0), fuzz="FuzzLexemes", fuzztime=90, tiers=("thorough",)),
        ],
    ),
    "C05": dict(
        pkg="c05", level="exploration", exhaustive_claim=False,
        technique="differential testing against an independent RFC 8259 recogniser: bounded-exhaustive enumeration + rapid grammar/mutation generation + go native fuzzing",
        level_text=("Bounded exploration: Document.Check (both option settings) is compared with an independently written RFC 8259 "
                    "recogniser on every string up to 5/7 symbols of a 16-symbol byte-class alphabet (enumerated completely), on generated "
                    "valid texts with all truncations and byte mutations, and (thorough) under coverage-guided fuzzing. A language-equality "
                    "claim cannot be proved by testing; the enumerated sub-space is complete, the rest is sampled."),
        level_note="trusted: the reference recogniser (cross-checked against encoding/json.Valid on every input); no claim beyond the explored lengths/depths",
        rule=("inputs: (1) every string of <=5 (quick) / <=7 (thorough) symbols over the 16-symbol alphabet "
              "{ } [ ] : , \" \\ 0 1 - + . e SPACE true, and every string of <=5/6 letters over t r u e f a l s n SPACE , "
              "(enumerated, both option settings); (2) valid texts printed from a generated JSON model with random blanks, "
              "all their truncations, and 1-4 byte-level mutations (truncate/delete/duplicate/replace/insert from a hostile "
              "byte set/splice); (3) the repository's testdata/*.json; thorough adds go native coverage-guided fuzzing. "
              "Oracle: hand-written RFC 8259 recursive-descent recogniser (cross-checked against encoding/json.Valid on every "
              "input). non-trivial = accepted, or rejected after byte 0 / by the end-of-input rule; distinct = distinct "
              "(input bytes, option) pairs by 64-bit FNV hash"),
        assumptions=["the reference recogniser is right (it is cross-checked against encoding/json.Valid on every input)",
                     "texts whose only defect is invalid UTF-8 inside a string, and `1.x`-like numbers with trailing characters allowed, are not judged"],
        jobs=[
            job("exhaustive", "^TestExhaustive", (4, 16), (1, 1), (300, 3000)),
            job("generated", "^Test(GrammarMutation|Truncations|RepoCorpus)$", (2, 16), (1500, 40000), (300, 3000)),
            job("deep-nesting", "^TestDeepNesting$", (1, 2), (150, 3000), (300, 3000)),
            job("fuzz", "", (0, 0), (0, 0), (0, 0), fuzz="FuzzJSONCheck", fuzztime=120, tiers=("thorough",)),
        ],
    ),
}

PROPS["C19"] = dict(
    pkg="c19", level="exploration", exhaustive_claim=False,
    packages={"c19h": dict(optional=True, hooks={"jschemainternal.go": "notations/jschema/verifhook/hook.go",
                                                 "constraintsmap.go": "notations/jschema/verifhook/constraints.go"})},
    technique="model-based stateful testing against a reference insertion-ordered map (slice of pairs): bounded-exhaustive operation sequences, rapid random sequences, concurrent stress under the race detector",
    level_text=("All operation sequences up to length 4 (quick) / 6 (thorough) over a 16-op vocabulary are enumerated completely on the two public maps and (via an overlay hook) "
                "the internal constraint map, with the full observable state compared against a reference model after every prefix; random sequences up to 200 ops; "
                "concurrent plans under -race. Exhaustive for the bounded vocabulary, sampled beyond."),
    level_note="trusted: the 60-line reference model (omap.Model); the race detector for the concurrency clause (explores only schedules that happen)",
    rule=("histories: every sequence of 1..4/6 ops from {Set(3 keys x 2 values), Update x3, Delete x3, Filter x2 predicates, Map x2 functions (one failing)}; after each prefix: Len, Has/Get/GetValue for "
          "all keys and an absent key, Each/EachSafe traces, Each early stop, Find x2, MarshalJSON (every returned slice is kept and re-compared after later steps), and the callback call-log of Filter/Map/Update; random sequences <=200 ops over 8 keys; "
          "concurrent: 2-8 goroutines x <=30 ops under -race. non-trivial = contains a Delete of an absent key, a Filter rejecting a non-last entry, or a Set after a Delete of the same key "
          "(classified for all sequences of length<=4 and every 16th longer one); distinct by (map type, sequence)"),
    assumptions=["reference model is right", "callbacks never re-enter the map (the API holds its lock during callbacks)"],
    jobs=[
        job("exhaustive", "^TestExhaustive$", (4, 16), (1, 1), (600, 3000)),
        job("random", "^TestRandomSequences$", (1, 8), (4000, 40000), (600, 3000)),
        job("exhaustive-constraints", "^TestExhaustiveConstraints$", (2, 16), (1, 1), (600, 3000), pkg="c19h"),
        job("random-constraints", "^TestRandomConstraints$", (1, 4), (3000, 30000), (600, 3000), pkg="c19h"),
        job("concurrent", "^TestConcurrent$", (1, 8), (300, 3000), (600, 3000), race=True, race_attributed=True),
        job("linearizable", "^TestLinearizable$", (1, 8), (250, 3000), (600, 3000)),
    ],
)
PROPS["C10"] = dict(
    pkg="c10", level="exploration", exhaustive_claim=False,
    packages={"c10h": dict(optional=True, hooks={"rootinternal.go": "verifhook/hook.go"})},
    technique="differential testing against exact rational arithmetic (math/big) with an independently written numeral parser: bounded-exhaustive numeral pairs + rapid-generated equal/adjacent spellings, at API level (Validate) and unit level (overlay hook)",
    level_text=("Every RFC 8259 numeral up to 4 (quick) / 5 (thorough) characters over -0159.eE+ is paired with every other as rule parameter x document for min/max/exclusive/enum/const, longer "
                "numerals (<=5/7) against pivots, the integer example and precision; random numerals up to 60 digits and |exponent|<=400 generated around each other (same value in another "
                "spelling, neighbours in the last digit, sign flips). Oracle: big.Rat comparison and the normalised expansion. Through an overlay hook Number.Cmp/String/"
                "LengthOfFractionalPart are compared directly. Exhaustive for the bounded alphabet, sampled beyond."),
    level_note="trusted: ref.ParseDecimal + math/big; `1.0`-style numerals against integer examples and integer-vs-float equality in enum/const are not judged (statement unclear)",
    rule=("pairs (rule parameter M without exponent, document numeral N): all numerals <=3/4 chars x all, all <=5/7 chars x 25 pivots x {min,max,exclusiveMinimum,exclusiveMaximum,enum,const}, integer "
          "example, additionalProperties: integer, precision 1-3; random: mantissa <=60 digits, |exp|<=400, N derived from M by exponent shift / zero padding / e0 / sign of zero / last-digit neighbour / sign flip / fresh digits of the same integer length; parameters at word-size and power-of-ten boundaries; document numerals with exponents beyond +-100000 around 2^32, 2^63, 2^64, 2^65, 2^128 and 10^20 (false accepts only: the library's deliberate exponent limit makes it reject them all, which is a recorded finding). "
          "non-trivial = M and N spelled differently and equal or within 1 of each other (or sign-mirrored); for integer/precision: N has a point or exponent; distinct by (rule, M, N)"),
    assumptions=["reference decimal parser is right (it is checked against the RFC grammar recogniser on every token)"],
    jobs=[
        job("exhaustive", "^TestExhaustivePairs$", (4, 16), (1, 1), (600, 3000)),
        job("random", "^TestRandomPairs$", (2, 16), (3000, 40000), (600, 3000)),
        job("huge-exponents", "^TestHugeExponents$", (1, 4), (1500, 20000), (600, 3000)),
        job("unit-exhaustive", "^TestExhaustiveUnit$", (2, 16), (1, 1), (600, 3000), pkg="c10h"),
        job("unit-random", "^TestRandomUnit$", (2, 8), (10000, 100000), (600, 3000), pkg="c10h"),
    ],
)
PROPS["C02"] = dict(
    pkg="c02", level="exploration",
    technique="model-based differential testing: rapid-generated rule sets constructed around the example, boundary probes (on / one step inside / one step outside), independent clause-by-clause reference evaluator (math/big, regexp, two-sided format recognisers)",
    level_text=("Bounded exploration of (rule set, probe) pairs on one scalar node (at the root, inside an array, inside an object): Validate is compared with a reference evaluator written from the rule "
                "definitions. Probes are generated on, just inside and just outside every bound; enum/const near-misses; regex matches and single-edit non-matches from the grammar tree; two-sided "
                "format corpora. Sampled."),
    level_note="trusted: reference evaluator harness/ref/scalar.go; formats judged only inside the uncontroversial positive/negative classes; byte-vs-rune length disagreements and 1.0-style numerals not judged",
    rule=("rule sets: min/max (+exclusive flags true/false/absent, listed before or after the bound), precision (+decimal), minLength/maxLength, regex from a small RE2 grammar (anchored or not), "
          "enum over mixed kinds incl. pairs differing only in kind, const true/false, type names incl. date/datetime/email/uri/uuid, nullable true/false; numbers up to 25 digits; "
          "probes: bound, bound +- 1 unit in the last place, bound +- 10^-k, exponent spellings, lengths b-1/b/b+1 through escapes, format positives/negatives, null and one value of every kind. "
          "non-trivial = probe within one step of a bound, enum/const near-miss or re-spelling, format-class sample, regex single edit / unanchored prefix, or null under nullable with another rule; "
          "distinct by (schema text, probe text)"),
    assumptions=["reference evaluator is right", "rule sets rejected by Check are discarded and counted (rate reported in labels)"],
    jobs=[job("scalar", "^TestScalarRules$", (4, 16), (6000, 240000), (600, 3000))],
)
PROPS["C03"] = dict(
    pkg="c03", level="exploration",
    technique="model-based differential testing: rapid-generated type graphs (<=6 user types + key types) printed to schema text, instance-then-mutate documents, independent denotational reference (set union / merged properties)",
    level_text=("Bounded exploration of type graphs x documents: Validate's verdict is compared with a denotational reference in which a type list is the union of its members (plus null if nullable), "
                "allOf is the transitive merge of property requirements, additionalProperties decides unnamed keys and a key shortcut admits the keys its string type accepts. Graphs that Check rejects "
                "are discarded and counted. Sampled."),
    level_note="trusted: harness/ref/compose.go + scalar.go; keys matching two shortcuts, rule-less key types, float kind with integer value under additionalProperties and `array`/`object` kind names in or-lists are not judged",
    rule=("graphs: 1-6 user types (scalar types with ranges/lengths/regex/mixed enums; objects with literal keys, allOf chains, additionalProperties in every mode, one key-shortcut entry, optional self-recursion; arrays; union types (a reference or list, possibly nullable), literal roots with an or rule, alias key types; array-heavy graphs with item-count rules), "
          "value positions @T, @A|@B[|@C], {type: \"@T\"}, {or: [type names, kind names, inline rule sets]}, nullable/optional; root under both key-optionality settings; documents: instances drawn per alternative "
          "+ 0-2 structural mutations, and random JSON. non-trivial = the reference evaluation passed through a position with >=2 alternatives, an allOf-inherited key, an additionalProperties decision, "
          "a key-shortcut match or a type-rule reference; distinct by (spec, document)"),
    assumptions=["reference semantics is right", "graphs rejected by Check are outside the domain (counted under labels)"],
    jobs=[job("composition", "^TestComposition$", (4, 16), (8000, 75000), (600, 3000)),
          job("allOf-order", "^TestAllOfOrder$", (1, 4), (1500, 20000), (600, 3000)),
          job("shadowed-inner-type", "^TestInnerTypeDoesNotRebindRoot$", (1, 2), (400, 6000), (600, 3000)),
          job("truth-tables", "^TestAlternativeTables$", (1, 4), (1500, 40000), (600, 3000))],
)
PROPS["C04"] = dict(
    pkg="c04", level="exploration",
    technique="metamorphic/relational testing between two entry points: Check vs Validate-of-own-example on generated ruled schemas, plus single-rule corruptions with printer-recorded value offsets",
    level_text=("Bounded exploration: (a) for generated plain-JSON schemas with arbitrary rule combinations, whenever Check succeeds the example rendered as bare JSON must validate against the same schema; "
                "(b) for each accepted schema one ruled node's example is replaced by a value violating exactly that rule (bound, precision, length, pattern, enum, format, item count, declared type) and Check "
                "must fail reporting the offset of that value as recorded by the schema printer; (c) one type object added to two roots (differential against roots built from fresh objects; a violating example "
                "in the shared type, or one that only root 2's registry makes violating, must be rejected by the second Check as well). Sampled."),
    level_note="trusted: the schema printer's offsets and the corruption constructors (each corruption is built from the rule parameter, not from the library)",
    rule=("schemas: trees (depth<=3) of objects/arrays whose scalar nodes carry the C02 rule sets and whose arrays may carry minItems/maxItems, objects additionalProperties; inline and multi-line annotations. "
          "non-trivial: (a) Check succeeded and a rule sits at depth>=1; (b) every corruption. distinct by schema text"),
    assumptions=["a corrupted value violates the targeted rule (constructed from the rule parameter with exact arithmetic / regexp)"],
    jobs=[job("check-vs-example", "^TestCheckVsExample$", (4, 16), (8000, 300000), (600, 3000)),
          job("type-rule-reference", "^TestTypeRuleReference$", (2, 8), (6000, 300000), (600, 3000)),
          job("shared-type-object", "^TestSharedTypeObject$", (2, 8), (4000, 300000), (600, 3000)),
          job("container-example-under-or", "^TestContainerExampleUnderOr$", (1, 4), (2000, 40000), (600, 3000)),
          job("scalar-example-under-or", "^TestScalarExampleUnderOr$", (1, 4), (2000, 40000), (600, 3000))],
)
PROPS["C08"] = dict(
    pkg="c08", level="exploration", exhaustive_claim=False,
    technique="bounded-exhaustive enumeration of rule subsets x node kinds x all permutations with a metamorphic oracle (order independence) and a clause-by-clause reference table; rapid-sampled larger sets",
    level_text=("Every subset of size <=2 (quick) / <=3 (thorough) of a 40-atom rule vocabulary is written on each of 10 node kinds, at the root and as an object property, in every order: the verdict must not "
                "depend on the order, and where the statement has a clause it must equal a reference table with one block per clause. In the quick tier every 3-subset of atoms of one family (numeric / string / array / object rules together with the generic type, const, nullable, optional, or, enum atoms) is also enumerated on the kinds of that family. Sets of 3-5 rules are sampled with all permutations."),
    level_note="trusted: harness/ref/applicable.go (combinations without a clause are only checked for order independence and counted as excluded)",
    rule=("rule atoms: min/max (in range, equal to the example, disordered), exclusive flags true/false, precision, minLength/maxLength(+disordered), regex, minItems/maxItems(+disordered), additionalProperties, "
          "allOf (of a type with properties / of an empty object type), enum, or, type (kind name / any / @reference / decimal / date), optional true+false, nullable true+false (two atoms = duplicate), const true/false, an unknown name; node kinds: object, empty object, array, "
          "empty array, string, integer, float, boolean, null, type shortcut. non-trivial = >=2 rules (>=2 orders executed) or a single rule judged by the table; distinct by (kind, position, rule set)"),
    assumptions=["example values satisfy the value rules except where an atom is deliberately disordered, so a rejection is about applicability/consistency"],
    jobs=[job("exhaustive", "^TestExhaustive", (4, 16), (1, 1), (900, 3000)),
          job("random", "^TestRandomLargerSets$", (4, 16), (1200, 50000), (900, 3000)),
          job("late-type", "^TestLateAddType$", (1, 2), (600, 6000), (600, 3000))],
)
PROPS["C09"] = dict(
    pkg="c09", level="exploration",
    technique="model-based testing over generated directed type graphs: least-fix-point inhabitation analysis and reference-name extraction on the abstract model as oracles; termination watched with a write-ahead case file",
    level_text=("Bounded exploration of type graphs (2-6 types, every reference form, forward/backward/self references, undefined names): Check must report 1302 naming a missing type iff one is missing, "
                "UsedUserTypes must equal the names in the root text, graphs whose every type is inhabited must be accepted, graphs whose root is uninhabited must be rejected with a recursion error, and on "
                "accepted graphs Check/Validate/Example must return. Sampled."),
    level_note="trusted: harness/ref/inhabit.go; graphs whose only uninhabited types sit behind optional/array edges are not judged; self-reference through a {type: \"@T\"} rule is not generated",
    rule=("graphs: 2-6 named types (object, scalar leaf, or pure reference / alternative list that may name itself) with 1-3 properties each (optional true / false written out); reference forms: required / optional property, @A|@B[|@C], array item, nested object, {type: \"@leaf\"}, allOf parent (on a type root or on an object below it), "
          "additionalProperties type, key shortcut (string type or an alias of it, also one listing itself); ~17% of graphs reference an undefined name; roots: single reference, alternative list, object of references; both key-optionality settings. "
          "non-trivial = judged and (the graph has a reference cycle or a missing name) and >=2 types; distinct by the printed spec"),
    assumptions=["a wall-clock budget of 20 s per call is only used to turn a hang into a recorded case; hitting it is reported with the case (never seen on the pinned tree)"],
    jobs=[job("graphs", "^TestTypeGraphs$", (4, 16), (6000, 200000), (900, 3000)),
          job("layered", "^TestLayeredGraphs$", (1, 4), (120, 3000), (900, 3000)),
          job("one-name-two-tables", "^TestOneNameTwoTables$", (1, 2), (300, 6000), (600, 3000)),
          job("inherited-cycles", "^TestInheritedCycles$", (1, 2), (400, 8000), (600, 3000)),
          job("example-growth", "^TestExampleGrowth$", (1, 2), (24, 400), (600, 3000))],
)
PROPS["C16"] = dict(
    pkg="c16", level="exploration",
    technique="model-based testing: the expected AST projection is computed from the generator's abstract schema and compared field by field with GetAST over many printed spellings",
    level_text=("Bounded exploration: for generated schemas (ruled plain-JSON trees, rule-free shapes, type graphs with references / or / allOf / key shortcuts) printed in varying styles (LF/CRLF/CR, inline "
                "or multi-line annotations, quoted names, trailing comma, user comments), GetAST is compared with the projection the statement lists, computed from the model alone: key and shortcut flag, "
                "token kind, literal value, schema type by enum > or > type > precision > kind, rules as written (names, order, values, nested enum/or/allOf items), notes, generated vs manual marks, no inherited properties."),
    level_note="trusted: harness/ref/ast.go and the printer; fields the statement does not mention are not compared",
    rule=("schemas from three generator families x printer styles; non-trivial = >=3 nodes and at least one of {>=2 rules on a node, enum/or/allOf, type shortcut, key shortcut, note}; distinct by printed spec"),
    assumptions=["the printer emits what the model says (the same printer feeds C01-C04, whose verdict oracles would expose a disagreement)"],
    jobs=[job("ast", "^TestAST$", (4, 16), (6000, 400000), (600, 3000)),
          job("notes-on-shared-lines", "^TestNotesOnSharedLines$", (1, 2), (300, 4000), (600, 3000))],
)
PROPS["C13"] = dict(
    pkg="c13", level="exploration",
    technique="metamorphic testing: one abstract schema printed in a canonical and a re-spelled style (1-5 meaning-preserving rewrites) must give equal Check verdicts, ASTs (comments aside) and validation verdicts; documents re-spelled by blanks, property order and escape sequences",
    level_text=("Bounded exploration of (schema, rewrite composition) pairs over three generator families (including schemas Check rejects): LF/CRLF/CR, indentation, # and ### user comments, inline vs multi-line "
                "(also one-rule-per-line) annotations, quoted rule names, trailing comma, blank lines, rule order. Relation between runs: same Check verdict, same AST modulo comments (rule order normalised when "
                "permuted), same verdict on a shared batch of documents; and for documents, the same verdict under re-spelling. Sampled."),
    level_note="trusted: that each printer style knob is meaning-preserving (they were validated against the pinned tree: all combinations are accepted identically there); duplicate-key documents are not reordered",
    rule=("schema pairs: model x 1-5 rewrites drawn from 16 kinds (incl. annotation notes, several properties per line and one-line containers, note-only annotations on the line after their value, bare // annotations, inline and multi-line annotations side by side, notes on enum items); documents: the example, instances and structural mutants (6-7 per schema). non-trivial = >=2 rewrite kinds and the schema has an annotation; "
          "document pairs: blanks / property order / per-rune escape spelling (raw, \\uXXXX both cases, short escapes, surrogate pairs); non-trivial = some token changed. distinct by (canonical, respelled)"),
    assumptions=["printer styles are meaning-preserving by the language definition (new-line conventions, comments and annotation forms are listed in the statement)"],
    jobs=[job("schema", "^TestSchemaRespelling$", (4, 16), (4000, 150000), (600, 3000)),
          job("document", "^TestDocumentRespelling$", (2, 8), (6000, 250000), (600, 3000)),
          job("probes", "^TestProbeRespelling$", (2, 8), (4000, 250000), (600, 3000)),
          job("misplaced-notes", "^TestMisplacedNotesAcrossLayouts$", (1, 4), (1500, 40000), (600, 3000))],
)
PROPS["C15"] = dict(
    pkg="c15", level="exploration",
    technique="round-trip / validity-predicate testing: Example() of every generated schema that Check accepts must be well-formed JSON (encoding/json + own recogniser), must validate against the same schema, and for plain-JSON models must equal the printer's compact rendering",
    level_text=("Bounded exploration over four schema families (ruled plain-JSON trees, rule-free shapes with keys needing escapes, type graphs with references/or/allOf/key shortcuts/enums, and recursion "
                "graphs with the optional self-reference first, in the middle and last among the properties; reference topologies incl. pure alias types), plus type objects shared between two roots that define "
                "one referenced type differently (differential against a root built from fresh objects). Sampled."),
    level_note="trusted: encoding/json.Valid and the reference recogniser; the printer's compact example rendering",
    rule=("schemas on which Check succeeds; non-trivial = uses a user type, or, key shortcut, enum, allOf, recursion cut-off, or a key whose spelling needs escaping; distinct by printed spec"),
    assumptions=["schemas that Check rejects are discarded and counted"],
    jobs=[job("example", "^TestExample$", (4, 16), (6000, 250000), (600, 3000)),
          job("shared-type-objects", "^TestExampleSharedTypes$", (2, 8), (3000, 200000), (600, 3000))],
)
PROPS["C18"] = dict(
    pkg="c18", level="exploration",
    technique="differential testing between two spellings (named enum rule vs inline list; regex type vs inline regex rule) plus model-based checks of Values/GetAST/Pattern/Len/Example against the generator's own item list and grammar tree",
    level_text=("Bounded exploration: generated enum value lists (all scalar kinds, duplicates, escape re-spellings, inline / block / own-line comments, LF/CRLF layouts) are checked for duplicate detection, "
                "source-order listing with kinds and attached comments, and validation equivalence with the inline list on a probe batch; generated RE2 patterns are checked for Pattern/Len/Example and "
                "equivalence of the added regex type with an inline {regex} rule on matches and single-edit mutants. Sampled."),
    level_note="trusted: Go regexp as RE2 reference (same engine as the library: the point is plumbing - delimiters, quoting, search vs full match); numerically equal numbers in different spellings inside one enum list are not generated",
    rule=("enum lists of 0-8 items from an 18-item pool incl. pairs differing only in kind, strings containing // , ] and quotes; after the closing bracket nothing / blanks / line break / a comment with or without a line break; Len before Check on a third of the rules; non-trivial = >=2 kinds or a comment; regex patterns from the printable-ASCII grammar with "
          "escaped slashes/backslashes, blanks (space, \\s, [ ]), anchors, tails after the closing slash; non-trivial = has a metacharacter; distinct by text"),
    assumptions=["duplicates are judged on (kind, decoded text)"],
    jobs=[job("enum", "^TestNamedEnum$", (4, 16), (4000, 240000), (600, 3000)),
          job("regex", "^TestRegexType$", (4, 16), (3000, 160000), (600, 3000))],
)
PROPS["C14"] = dict(
    pkg="c14", level="exploration",
    technique="prefix-relation property testing: accepted texts S x separators x directive-like tails; Len must equal len(S), the prefix must pass Check with the same AST; lexically incomplete S + tail must make Len fail",
    level_text=("Bounded exploration over generated accepted schemas (several styles, incl. ones ending in annotations and type shortcuts), JSON documents (trailing characters allowed) and enum rule texts, "
                "each followed by a separator (none after a closing bracket or quote, blanks, LF/CRLF runs) and a foreign tail; plus the negative half (S cut inside its top-level container; top-level scalars cut at every offset, at the end of the input or before a tail: a reported length must end a complete value by the independent JSON "
                "recogniser); JSON documents are also measured after NextLexeme has walked them. Sampled."),
    level_note="trusted: the generators produce accepted S (schemas are checked first); scalars directly followed by a non-extending byte are outside the stated domain (only no-panic is asserted there)",
    rule=("cases (kind, S, separator, tail); non-trivial = tail non-empty (or a cut S); distinct by the tuple"),
    assumptions=["tails never start with / or # (which continue a schema) nor with | after a type shortcut"],
    jobs=[job("len", "^TestLen", (4, 16), (6000, 500000), (600, 3000))],
)
PROPS["C17"] = dict(
    pkg="c17", level="exploration", exhaustive_claim=False,
    technique="bounded-exhaustive enumeration of (file, position) pairs against a reference line/column renderer; generated documents with one planted violation or one byte edit at a printer-known offset",
    level_text=("(b) every file content of <=6 (quick) / <=7 (thorough) bytes over {a, space, tab, LF, CR} x every position is rendered and compared with a reference written from the statement (1-based line for "
                "LF/CR/CRLF files, left-trimmed line text, 200-byte cut, caret column, never panics), plus random longer files; (a) parsing errors of byte-edited JSON documents must sit on the first byte that "
                "cannot continue the text (last byte at premature end), validation errors of documents with one planted violation (wrong kind, unknown key, missing required key, item under an empty example array) "
                "must sit on the offending value / key / enclosing object."),
    level_note="trusted: harness/ref/render.go, the reference JSON parser's error offset, the document printer's spans; files mixing newline conventions, all-blank lines and positions on line breaks / inside trimmed blanks have no defined text/caret (only line number and no-panic are asserted)",
    rule=("render: (content, position) pairs incl. raw line lengths 197-204 and error values rendered elsewhere first and then re-pointed, non-trivial = the file has >=2 lines or leading blanks; parse: one-byte edits/truncations of generated JSON, non-trivial = depth>=1; "
          "validation: rule-free schemas x instances x one planted violation, non-trivial = planted at depth>=1; distinct by the inputs"),
    assumptions=["the planted violation is the only deviation (re-checked with the reference shape decider; documents with duplicate keys are skipped)"],
    jobs=[job("render-exhaustive", "^TestRenderExhaustive$", (1, 1), (1, 1), (900, 3000)),
          job("generated", "^Test(RenderRandom|ParsePositions|ParsePositionsOfTheOtherScanners|ValidationPositions|UnknownKeyUnderAlternatives|UnfinishedCommentOpener)$", (4, 16), (6000, 400000), (900, 3000))],
)
PROPS["C07"] = dict(
    pkg="c07", level="exploration", exhaustive_claim=False,
    technique="robustness property testing with a validity predicate on every return value: grammar-aware and byte-level mutation and every truncation of generated valid inputs in every role through every public entry point; native fuzz targets; finite enumeration of error codes x arities and of error construction sites (go/ast)",
    level_text=("For mutated / truncated byte strings used as schema, added type, enum rule, regex type and document, every public method is called in API-legal order: none may panic or hang, every "
                "non-nil error must be a ParsingError or ValidationError whose position lies inside the source named by Filename(), and Error()/String()/Line()/SourceSubString()/kit.ConvertError must not panic. "
                "The static-table clause is decided by enumerating every ErrorCode x 0..5 arguments and every errors.Format / bare-code construction site of the current tree (a finite syntactic domain, "
                "listed rather than generated - see DESIGN section 5 C07)."),
    level_note="trusted: the harness's recover wrappers; a 60 s per-session watchdog only turns a hang into a recorded case; bare codes are judged at panic/return/New*Error sites only (others are not classified)",
    rule=("sessions: a generated valid case (type graphs, ruled trees, reference graphs, repository testdata schemas; optional enum rule and regex type) with one role mutated (grammar-aware token edit or 1-3 byte edits "
          "from a hostile set) or truncated at every offset; legal inputs extreme in one dimension (nesting depth <=150, <=300 properties, <=120 alternatives/enum items, one token <=3.5 KB, reference chains <=80, full trees); non-trivial = the schema text has more than one token or an error object was rendered; distinct by the role tuple"),
    assumptions=["API-legal call order (rules before load, types before compile)"],
    jobs=[job("mutations", "^TestMutatedInputs$", (4, 16), (4000, 60000), (900, 3000)),
          job("truncations", "^TestTruncations$", (4, 16), (120, 4000), (900, 3000)),
          job("extremes", "^TestLegalExtremes$", (2, 8), (150, 6000), (900, 3000)),
          job("table", "^TestErrorTable$", (1, 1), (1, 1), (300, 600)),
          job("fuzz", "", (0, 0), (0, 0), (0, 0), fuzz="FuzzSchemaAPI", fuzztime=120, tiers=("thorough",))],
)
PROPS["C11"] = dict(
    pkg="c11", level="exploration",
    packages={"c11m": dict(optional=True, overlay_cmd="go run ./cmd/maporder -repo {repo} -out {bdir}/maporder -hook {verif}/hooks/maporder.go")},
    technique="stateful model-based testing (rapid state machine over a pool of objects; model = what a freshly built object returns; retained values snapshotted and re-compared after every step) + deterministic forced map-iteration orders via a source rewriter and build overlay",
    level_text=("Histories: sequences of up to 12 (quick) / 40 (thorough) public operations over a pool of 3-5 schemas / documents / enum rules / regex types (valid and invalid), on several live objects per spec, "
                "interleaved with operations on unrelated fresh objects; every result (verdict, code, position, AST, example bytes, used-type list, lexemes) must equal what a fresh object returns, and every "
                "returned slice / AST must stay unchanged afterwards. Map orders: the current tree is rewritten so that each of its range-over-map sites iterates in a forced order (ascending, descending, "
                "rotate 1, rotate 2); all results of a case must be equal across the four orders."),
    level_note="trusted: the rewriter is semantics-preserving for a legal order (it re-checks key presence per iteration); forced orders are a strict subset of all permutations for maps with >3 entries; regex Example() is pseudo-random by design and only compared for success",
    rule=("histories: actions create / create-sharing (a new root given the type objects of an existing one) / op / touch-other; specs incl. roots inheriting (allOf) from types that refer to further types; non-trivial = some (spec, op) repeated and ops on different specs interleaved; map orders: generated specs plus a family biased to the range sites "
          "(several types, or alternatives, missing required keys, overlapping key shortcuts, allOf from two parents) and a literal-kind family (additionalProperties of each kind x literals in every spelling); non-trivial = a rewritten site iterated a map with >=2 entries (counted by the hook); "
          "distinct by the step list / spec"),
    assumptions=["pointer-derived names of anonymous types do not appear in the compared results of accepted inputs (they do in the message of error 1302 for a missing anonymous type, which no accepted input produces)"],
    jobs=[job("histories", "^TestHistories$", (4, 16), (2000, 30000), (900, 3000)),
          job("fresh-objects", "^TestFreshObjectsAgree$", (1, 4), (24, 400), (900, 3000)),
          job("map-orders", "^TestMapOrders$", (4, 16), (800, 30000), (900, 3000), pkg="c11m")],
)
PROPS["C12"] = dict(
    pkg="c12", level="exploration", replay_race=True,
    technique="randomised concurrent plans under the Go race detector with a sequential oracle: plans are drawn by rapid before any goroutine starts, every call's canonical result is compared with the single-threaded result, race reports are attributed to the plan that produced them",
    level_text=("Exploration of the interleavings that the Go scheduler, 2..32 goroutines, GOMAXPROCS 2/4/16 and injected yields produce: goroutines run random mixes of Check / Validate (own document) / Len / "
                "Example / GetAST / UsedUserTypes against 1-3 shared schemas (pre-compiled or racing on first use) and against private schemas, in half of the plans built from the same user-type objects. "
                "Built with -race: any data race report fails the plan; every result must equal the sequential result. The harness does not own the scheduler - this is exploration amplified by "
                "happens-before race detection, nothing more."),
    level_note="trusted: Go race detector (reports only real races); 'compiled exactly once' is observed through equal results, not counted; since 71a7e05 plans also share type objects that use allOf (twin roots that define the parent differently included)",
    rule=("plans: G in {2,4,8,16,32} goroutines x 5-15/40 calls; non-trivial = >=2 goroutines with a shared first use or a shared Example call; distinct by plan"),
    assumptions=["a failed plan is replayed 20 times by --replay; a race report is conclusive by itself"],
    jobs=[job("plans", "^TestConcurrentSharing$", (4, 16), (150, 3000), (1200, 3000), race=True, race_attributed=True)],
)


# Round 5 (DESIGN §10.7): what the generators gained after the per-property defect hunts
_R5 = {
    "C01": "; Document objects that were read / measured / checked / validated before the judged Validate; empty containers written with a blank inside, a property on the line of the preceding array's closing bracket",
    "C02": "; date-times with a digit missing, comma fractions, out-of-range offsets, leap seconds; addresses with display names, comments, groups and control blanks",
    "C03": "; key types with format / const / nullable rules, an escaped quote at the edge of the example, no rule at all; object rule sets with additionalProperties inside or; second check: allOf lists of 2-3 parents in 4 orders x additionalProperties none/true/false/any/integer/string on parents and child x 8 documents",
    "C04": "; empty containers ([] {} [ ] { }) under an or of 2-3 alternatives from a 26-item pool (kind names, rule sets with and without type, item counts, rules for literals)",
    "C06": "; reads interleaved with 1-5 Len / Check calls on one Document; empty # comments",
    "C07": "; regex classes without printable ASCII and zero-width assertions, blank documents, type shortcuts next to an or of kind names, layered graphs of or types (8-36 layers, 60 s budget); the error value itself (not a wrapped one) must be the library error and its Message() non-empty",
    "C08": "; or rule sets with an empty exclusive interval, a rule foreign to the declared kind, bounds of 2^64; minLength / minItems / precision of 2^64; second check: AddType after the first use (check, ast, example, validate, len) is refused or takes effect",
    "C09": "; layered acyclic graphs of 30-44 levels x 2 types whose number of paths is 2^levels (alternatives, or rules, key shortcuts, optional / required properties, array items; flat or with every type knowing every type): Check, Validate and Example return; types created with KeysAreOptionalByDefault, or members written as rule sets with a second rule, key-type aliases naming a missing type",
    "C11": "; schemas with several defective rule sets in one or rule, built afresh 2000 times by 8 goroutines (the defect reported must be the same whatever addresses the objects get); error messages compared; regex example bytes; one Document object validated repeatedly; schemas with regex types; types wired to each other and types known only through other types",
    "C12": "; in half of the plans the sequential oracle is computed after the concurrent run (first uses of process-wide state are raced to); roots that inherit from shared plain types; specs with regex types and with types wired to each other; private schemas add the type objects of the shared one; operations on the shared type objects themselves (Check of a type, Example of a regex type)",
    "C13": "; 22 rewrite kinds now (empty # comments, blank in empty containers, property after array, blank or tab between a bare rule name and its colon, ### block ### inside inline rule objects, notes on lines of their own); document re-spelling also over type graphs",
    "C14": "; negatives: blank-only JSON texts, type shortcuts cut off at the end of input; foreign text of several lines containing / and #; empty comments after an enum",
    "C15": "; key types as in C03; the bytes returned by Example() are overwritten (spare capacity included) before the schema is used again",
    "C16": "; notes on lines where no value starts (nobody's), one-name allOf lists, additionalProperties written as \"false\" / \"true\" / null, blank in empty containers, property after array",
    "C17": "; indentation of 150-260 blanks (trim first, then truncate); additionalProperties: false written out under the unknown-key class",
    "C18": "; empty comments and comments before the opening bracket; duplicates by value (1.5 / 1.50, 0 / -0); curated patterns with assertions and non-ASCII classes",
}
for _k, _v in _R5.items():
    PROPS[_k]["rule"] += _v

# Rounds 8-11 (DESIGN §10.10-§10.13): what the generators and oracles gained
_R8 = {
    "C02": "; uri: fragments, user info with percent escapes, characters no URI holds, a second # or @ (definite classes of the reference); uuid digit positions filled with control characters and punctuation",
    "C03": "; nullable on object rule sets; a property spelled like a key shortcut; types known only through the tables of other types; types created with KeysAreOptionalByDefault, optional: false written out; keys that need escapes",
    "C04": "; scalar examples under an or none of whose alternatives admits them (rule sets without type whose rule cannot apply to the example's kind)",
    "C05": "; texts nested 50-65537 levels deep, built by the check (valid, or cut by their last closers)",
    "C07": "; six more NextLexeme calls after the end of the text or an error",
    "C08": "; type names written with escapes; or with the bare name any; rule sets of inert rules; a rule set that is wrong while another alternative admits the example",
    "C09": "; object rule sets naming a type through additionalProperties / {type, nullable} also on empty container examples; nullable on references; a second key shortcut; one name bound to two types in two tables",
    "C10": "; exponents padded with up to 40 zeros; 0e1 spellings everywhere (the finding was repaired)",
    "C11": "; expectations computed before the history in a process state with emptied pools; schema texts that end or begin in the middle of something; a validated Document read afterwards; regex objects with file names and seeds (an error names its own file)",
    "C13": "; comments between key, colon and value; a multi-line annotation closing on the next line with the sibling behind it; empty block comments between tokens; notes after every closing brace; 28 rewrite kinds",
    "C14": "; trailing user comments on the schema; an inline annotation cut by a comment (negative); texts of known length measured after every schema Len; tails beginning with a slash (recorded finding)",
    "C15": "; 95-160 references to a type whose minItems array holds non-literal items; reference topologies drawn more often",
    "C16": "; blanks after enum item notes and notes on lines between the items; item notes of enums inside or rule sets; block comments in and behind inline rule objects; comments around key colons",
    "C17": "; error values moved to another file with SetFile; messages containing percent signs; the caret column behind non-ASCII text is not judged",
    "C18": "; the empty pattern //; results of Values() overwritten by the caller; rule texts without a list or with a lone slash behind it; a rule added after the schema was looked at",
    "C19": "; maps built by NewRuleASTNodes from shared arguments while the other map keeps changing; read-only walks left by a panic of their callback; small concurrent plans whose final state must be the outcome of some interleaving on the model",
}
for _k, _v in _R8.items():
    PROPS[_k]["rule"] += _v

# Round 12 (DESIGN §10.14)
_R12 = {
    "C02": "; uri judged by the RFC 3986 grammar: control characters in the fragment, percent signs without two hex digits, a second colon in the host, brackets outside an IP literal (definite refusals), percent-encoded characters in a host (definite yes)",
    "C03": "; truth tables: every alternative of an or rule with the probes it admits, the position must accept exactly their union (array rule sets with item counts, types of several JSON kinds named on an example of another kind, key types with an alternative for every string)",
    "C06": "; bytes appended to every token value the reader hands out and to its views (unquoted, without brackets, trimmed): the text must not change",
    "C07": "; every error that names its own file must pass kit.ConvertError unchanged; AddType with a taken, unprefixed, empty and list-shaped name",
    "C08": "; rule sets without a type whose rules belong to two different kinds (refused)",
    "C09": "; the same graph with allOf and with the parent's properties written out gets the same verdict (types wired or not); ladders and DAGs with back edges through terminating alternatives (30-44 levels); mutual arrays with minItems 0 or asking for an item that has a terminating alternative; cyclic ladders of 30-44 levels whose alternatives fail at the cut-off (Check, Example, Validate under 20 s guards); every type object knowing exactly the types its text names",
    "C13": "; block comments over a line break between siblings; annotations behind the opening bracket of empty containers; a block comment between the slashes and the rule object; an empty second annotation; two notes in a row between enum items; block comments opened behind an inline annotation and closed on the next line; 33 rewrite kinds",
    "C14": "; enum texts of comments or blanks only (negative)",
    "C15": "; key shortcuts whose string type refers to other types; arrays whose minItems rule does not reach the item left out at the recursion cut-off",
    "C16": "; an empty second annotation keeps the note; lonely multi-line notes with a second note behind the closer; type: null as a null token; block comments over line breaks and in front of rule objects",
    "C17": "; a key that none of 2-3 alternative object types knows is reported at the key; two hashes that open no comment are reported at the byte behind them",
    "C18": "; patterns whose inner assertions need a line feed or a word character, two kinds of them in one pattern, a non-word character that is no printable ASCII one",
}
for _k, _v in _R12.items():
    PROPS[_k]["rule"] += _v

_UNBUILT = "check under construction in this session (see DESIGN.md section 5 for the planned design)"
NOT_APPLICABLE = [dict(property_id="C%02d" % i, reason=_UNBUILT) for i in range(1, 20) if "C%02d" % i not in PROPS]
