#!/bin/sh
# Offline setup: warm the Go build cache for the harness (everything comes from disk).
set -e
cd "$(dirname "$0")/harness"
export GOFLAGS=-mod=mod GOPROXY=off GOSUMDB=off GOTOOLCHAIN=local
go build ./... 
go vet ./ref ./gen ./run >/dev/null 2>&1 || true
go test -count=1 ./ref ./gen 2>&1 | tail -5
