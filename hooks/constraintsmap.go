//go:build verif

package verifhook

import (
	"encoding/json"
	"fmt"

	jschema "github.com/jsightapi/jsight-schema-go-library"
	ijson "github.com/jsightapi/jsight-schema-go-library/internal/json"
	"github.com/jsightapi/jsight-schema-go-library/notations/jschema/internal/schema"
	"github.com/jsightapi/jsight-schema-go-library/notations/jschema/internal/schema/constraint"
)

// CMap drives the internal (generated) schema.Constraints ordered map with int keys and string
// payloads. Add-only verification hook, injected with `go build -overlay`.
type CMap struct{ m *schema.Constraints }

func NewCMap() CMap { return CMap{m: &schema.Constraints{}} }

// Payload is a minimal constraint.Constraint carrying a string.
type Payload struct {
	T constraint.Type `json:"-"`
	S string
}

func (p Payload) Type() constraint.Type                { return p.T }
func (Payload) IsJsonTypeCompatible(ijson.Type) bool   { return true }
func (p Payload) String() string                       { return p.S }
func (p Payload) ASTNode() jschema.RuleASTNode         { return jschema.RuleASTNode{Value: p.S} }

func val(c constraint.Constraint) string {
	if c == nil {
		return ""
	}
	return c.(Payload).S
}

func (a CMap) Set(k int, v string) { a.m.Set(constraint.Type(k), Payload{constraint.Type(k), v}) }
func (a CMap) Update(k int, fn func(string) string) {
	a.m.Update(constraint.Type(k), func(c constraint.Constraint) constraint.Constraint {
		return Payload{constraint.Type(k), fn(val(c))}
	})
}
func (a CMap) GetValue(k int) string { return val(a.m.GetValue(constraint.Type(k))) }
func (a CMap) Get(k int) (string, bool) {
	c, ok := a.m.Get(constraint.Type(k))
	return val(c), ok
}
func (a CMap) Has(k int) bool { return a.m.Has(constraint.Type(k)) }
func (a CMap) Len() int       { return a.m.Len() }
func (a CMap) Delete(k int)   { a.m.Delete(constraint.Type(k)) }
func (a CMap) Filter(fn func(int, string) bool) {
	a.m.Filter(func(k constraint.Type, c constraint.Constraint) bool { return fn(int(k), val(c)) })
}
func (a CMap) Find(fn func(int, string) bool) (int, string, bool) {
	it, ok := a.m.Find(func(k constraint.Type, c constraint.Constraint) bool { return fn(int(k), val(c)) })
	return int(it.Key), val(it.Value), ok
}
func (a CMap) Each(fn func(int, string) error) error {
	return a.m.Each(func(k constraint.Type, c constraint.Constraint) error { return fn(int(k), val(c)) })
}
func (a CMap) EachSafe(fn func(int, string)) {
	a.m.EachSafe(func(k constraint.Type, c constraint.Constraint) { fn(int(k), val(c)) })
}
func (a CMap) Map(fn func(int, string) (string, error)) error {
	return a.m.Map(func(k constraint.Type, c constraint.Constraint) (constraint.Constraint, error) {
		nv, err := fn(int(k), val(c))
		return Payload{k, nv}, err
	})
}
func (a CMap) MarshalJSON() ([]byte, error) { return a.m.MarshalJSON() }
func (a CMap) KeyJSON(k int) string {
	b, err := json.Marshal(constraint.Type(k))
	if err != nil {
		return fmt.Sprint(err)
	}
	if len(b) == 0 || b[0] != '"' {
		// a member name of a JSON object is a string: a key that marshals to a number is quoted, the
		// way encoding/json renders the keys of a map[int]V
		b, _ = json.Marshal(string(b))
	}
	return string(b)
}
func (a CMap) ValJSON(v string) string {
	b, _ := json.Marshal(Payload{S: v})
	return string(b)
}
