//go:build verif

// Package verifhook is an add-only verification hook: it is injected with `go build -overlay`
// as notations/jschema/verifhook/hook.go (the file does not exist in the repository) so that
// the harness can drive packages under notations/jschema/internal.
package verifhook

import (
	"fmt"

	"github.com/jsightapi/jsight-schema-go-library/fs"
	"github.com/jsightapi/jsight-schema-go-library/notations/jschema/internal/scanner"
)

type Event struct {
	Type  string
	Begin int
	End   int
}

// SchemaEvents returns the event stream of the schema scanner for content.
func SchemaEvents(content []byte) (evs []Event, err error) {
	defer func() {
		if r := recover(); r != nil {
			if e, ok := r.(error); ok {
				err = e
				return
			}
			err = fmt.Errorf("panic: %v", r)
		}
	}()
	s := scanner.New(fs.NewFile("schema", content))
	for {
		lex, ok := s.Next()
		if !ok {
			return evs, nil
		}
		evs = append(evs, Event{Type: lex.Type().String(), Begin: int(lex.Begin()), End: int(lex.End())})
	}
}
