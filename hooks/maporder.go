//go:build verif

// Package verifmaporder is an add-only verification hook (injected with `go build -overlay`;
// the directory does not exist in the repository). The C11 harness rewrites every
// `for k := range <map>` of the library into `for _, k := range verifmaporder.Keys(<map>)`.
// Keys returns the map's keys in a total order chosen by Mode; every such order is one the Go
// runtime is allowed to produce.
package verifmaporder

import (
	"fmt"
	"sort"
	"sync/atomic"
)

// Mode: 0 ascending, 1 descending, 2 rotate by one, 3 rotate by two (of the ascending order).
var Mode int32

// MultiEntry counts Keys calls on maps with at least two entries (the rewritten sites that can
// actually observe an order).
var MultiEntry int64

func Keys[K comparable, V any](m map[K]V) []K {
	keys := make([]K, 0, len(m))
	for k := range m {
		keys = append(keys, k)
	}
	sort.Slice(keys, func(i, j int) bool { return fmt.Sprint(keys[i]) < fmt.Sprint(keys[j]) })
	n := len(keys)
	if n < 2 {
		return keys
	}
	atomic.AddInt64(&MultiEntry, 1)
	switch atomic.LoadInt32(&Mode) {
	case 1:
		for i, j := 0, n-1; i < j; i, j = i+1, j-1 {
			keys[i], keys[j] = keys[j], keys[i]
		}
	case 2, 3:
		r := int(atomic.LoadInt32(&Mode)-1) % n
		keys = append(keys[r:], keys[:r]...)
	}
	return keys
}
