//go:build verif

// Package verifhook (module root) is an add-only verification hook injected with
// `go build -overlay` as verifhook/hook.go; it re-exports internal/json for the unit-level
// differential against math/big. The file does not exist in the repository.
package verifhook

import (
	"fmt"

	ijson "github.com/jsightapi/jsight-schema-go-library/internal/json"
)

type Num struct{ n *ijson.Number }

func NewNumber(tok string) (n Num, err error) {
	defer func() {
		if r := recover(); r != nil {
			err = fmt.Errorf("panic: %v", r)
		}
	}()
	// (ParseNumber is what the library reads DOCUMENT numerals with since ef2e152; NewNumber, which
	// its own tests pin to refuse 0e1, is left to the rule values, where no exponent is written)
	x, e := ijson.ParseNumber([]byte(tok))
	if e != nil {
		return Num{}, e
	}
	return Num{x}, nil
}

func (a Num) Cmp(b Num) int                     { return a.n.Cmp(b.n) }
func (a Num) String() string                    { return a.n.String() }
func (a Num) LengthOfFractionalPart() uint      { return a.n.LengthOfFractionalPart() }
func (a Num) Equal(b Num) bool                  { return a.n.Equal(b.n) }
func (a Num) GreaterThan(b Num) bool            { return a.n.GreaterThan(b.n) }
func (a Num) GreaterThanOrEqual(b Num) bool     { return a.n.GreaterThanOrEqual(b.n) }
func (a Num) LessThan(b Num) bool               { return a.n.LessThan(b.n) }
func (a Num) LessThanOrEqual(b Num) bool        { return a.n.LessThanOrEqual(b.n) }

// LiteralType returns the guessed JSON type name of a scalar token ("integer", "float", ...).
func LiteralType(tok string) (s string, err error) {
	defer func() {
		if r := recover(); r != nil {
			err = fmt.Errorf("panic: %v", r)
		}
	}()
	return ijson.Guess([]byte(tok)).LiteralJsonType().String(), nil
}
