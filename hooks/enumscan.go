//go:build verif

package enum

import (
	stdErrors "errors"
	"fmt"

	"github.com/jsightapi/jsight-schema-go-library/fs"
)

// VerifEvent is part of an add-only verification hook (injected with `go build -overlay` as
// rules/enum/verif_hook.go; the file does not exist in the repository).
type VerifEvent struct {
	Type  string
	Begin int
	End   int
}

// VerifEvents returns the event stream of the enum-rule scanner for content.
func VerifEvents(content []byte) (evs []VerifEvent, err error) {
	defer func() {
		if r := recover(); r != nil {
			if e, ok := r.(error); ok {
				err = e
				return
			}
			err = fmt.Errorf("panic: %v", r)
		}
	}()
	s := newScanner(fs.NewFile("enum", content))
	for {
		lex, e := s.Next()
		if stdErrors.Is(e, errEOS) {
			return evs, nil
		}
		if e != nil {
			return evs, e
		}
		evs = append(evs, VerifEvent{Type: lex.Type().String(), Begin: int(lex.Begin()), End: int(lex.End())})
	}
}
