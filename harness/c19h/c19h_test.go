// Package c19h runs the C19 engine on the internal constraint map through the overlay hook.
package c19h

import (
	"fmt"
	"testing"

	"pgregory.net/rapid"

	"github.com/jsightapi/jsight-schema-go-library/notations/jschema/verifhook"

	"verif/omap"
	"verif/run"
)

func TestMain(m *testing.M) { run.Main(m, "C19") }

func init() {
	omap.Factories["Constraints"] = func() omap.Map { return verifhook.NewCMap() }
}

func TestExhaustiveConstraints(t *testing.T) {
	run.SkipIfReplaying(t)
	defer run.Done(t, omap.Chk)
	maxLen := run.Scale(4, 6)
	n := omap.Exhaustive(t, "Constraints", maxLen, run.Shard(), run.Shards())
	run.LabelN("exhaustive-sequences-constraints", n)
	run.Exhaustive(omap.Chk+"/Constraints", fmt.Sprintf("all sequences of 1..%d ops from the 16-op vocabulary on schema.Constraints", maxLen))
}

func TestRandomConstraints(t *testing.T) {
	run.SkipIfReplaying(t)
	defer run.Done(t, omap.Chk)
	rapid.Check(t, func(t *rapid.T) {
		n := rapid.IntRange(1, 200).Draw(t, "len")
		ops := make([]omap.Op, 0, n)
		for i := 0; i < n; i++ {
			ops = append(ops, omap.RandomOp(t))
		}
		c := omap.Case{Type: "Constraints", Ops: ops}
		omap.RunCase(t, c, true)
		run.Eval(omap.Chk, omap.Nontrivial(ops), "Constraints", fmt.Sprint(ops))
		run.Label("random-sequence-constraints")
	})
}

func TestReplay(t *testing.T) { run.TestReplay(t) }
