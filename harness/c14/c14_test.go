package c14

import (
	"encoding/json"
	"fmt"
	"strings"
	"testing"

	"pgregory.net/rapid"

	jschema "github.com/jsightapi/jsight-schema-go-library"
	libjson "github.com/jsightapi/jsight-schema-go-library/formats/json"
	js "github.com/jsightapi/jsight-schema-go-library/notations/jschema"
	libregex "github.com/jsightapi/jsight-schema-go-library/notations/regex"
	"github.com/jsightapi/jsight-schema-go-library/rules/enum"

	"verif/gen"
	"verif/lib"
	"verif/ref"
	"verif/run"
)

func TestMain(m *testing.M) { gen.Avoided = run.Avoided; run.Main(m, "C14") }

const chk = "len-prefix"

type Case struct {
	Kind string `json:"kind"` // schema | json | enum
	S    string `json:"s"`
	Sep  string `json:"separator"`
	Tail string `json:"tail"`
	Cut  bool   `json:"s_is_cut_short"` // negative half: S is lexically incomplete
	// ReadFirst (json only): number of NextLexeme calls made on the Document before Len is first
	// asked (a document that has been walked, e.g. by Schema.Validate, still has the same length)
	ReadFirst int `json:"next_lexeme_calls_before_len,omitempty"`
	// CheckFirst: Check() is called on the object before Len() (its verdict is not used here)
	CheckFirst bool `json:"check_before_len,omitempty"`
}

func init() {
	run.RegisterReplay(chk, func(t run.TB, raw json.RawMessage) {
		var c Case
		if err := json.Unmarshal(raw, &c); err != nil {
			t.Fatalf("bad case: %v", err)
		}
		check(t, c)
	})
}

type lenner interface {
	Len() (uint, error)
	Check() error
}

func mk(kind, text string) lenner {
	switch kind {
	case "schema":
		s := js.New("s", text)
		if strings.HasPrefix(text, "@") {
			s.AddType("@a", js.New("@a", "1"))
			s.AddType("@b", js.New("@b", `"s"`))
		}
		return s
	case "json":
		return libjson.New("d", text, libjson.AllowTrailingNonSpaceCharacters()).(lenner)
	case "regex":
		return libregex.New("@r", text)
	}
	return enum.New("@e", text)
}

func callLen(o lenner) (l uint, err error, p any) {
	defer func() {
		if r := recover(); r != nil {
			p = r
		}
	}()
	l, err = o.Len()
	return
}

func endsWithBracketOrQuote(s string) bool {
	return strings.HasSuffix(s, "}") || strings.HasSuffix(s, "]") || strings.HasSuffix(s, `"`)
}

func check(t run.TB, c Case) {
	text := c.S + c.Sep + c.Tail
	obj := mk(c.Kind, text)
	if d, ok := obj.(jschema.Document); ok && c.ReadFirst > 0 {
		func() {
			defer func() { _ = recover() }()
			for i := 0; i < c.ReadFirst; i++ {
				if _, err := d.NextLexeme(); err != nil {
					break
				}
			}
		}()
	}
	if c.CheckFirst {
		func() {
			defer func() { _ = recover() }()
			_ = obj.Check()
		}()
	}
	l, err, p := callLen(obj)
	if p != nil {
		run.Fail(t, chk, c, "Len panicked on %q: %v", text, p)
	}
	if c.Kind == "schema" {
		// whatever this measurement left behind (scanners are re-used) must not meet the next one:
		// a few short texts whose length is known are measured right after it
		for _, pr := range [][2]string{{"42", "2"}, {"0", "1"}, {"2022\n", "4"}, {"\"a\"", "3"}, {"true", "4"}, {"{}", "2"}, {"@a", "2"}, {"-7", "2"}} {
			pl, perr, pp := callLen(mk("schema", pr[0]))
			if pp != nil || perr != nil || fmt.Sprint(pl) != pr[1] {
				run.Fail(t, chk, c, "after Len(%q): Len(%q)=%d err=%v panic=%v, the text is %s bytes long (trailing blanks aside)", text, pr[0], pl, perr, pp, pr[1])
			}
		}
	}
	if c.Cut {
		if err == nil {
			run.Fail(t, chk, c, "the text %q does not begin with a lexically complete %s, but Len returns %d without error", text, c.Kind, l)
		}
		return
	}
	if err != nil {
		if (c.Kind == "schema" || c.Kind == "enum") && loneSlashTail(c) && run.MatchKnown("C14-foreign-text-beginning-with-a-slash") {
			return
		}
		run.Fail(t, chk, c, "Len(%q) fails: %v", text, err)
	}
	if int(l) != len(c.S) {
		if c.Kind == "schema" && c.Sep == "" && (strings.HasSuffix(c.S, "}") || strings.HasSuffix(c.S, "]")) && int(l) == len(strings.TrimRight(c.S[:len(c.S)-1], " \t\r\n")) &&
			run.MatchKnown("C14-schema-len-foreign-byte-after-bracket") {
			return
		}
		run.Fail(t, chk, c, "Len(%q)=%d, the embedded %s %q is %d bytes long", text, l, c.Kind, c.S, len(c.S))
	}
	if int(l) > len(text) {
		run.Fail(t, chk, c, "Len exceeds the text")
	}
	prefix := text[:l]
	var perr error
	func() {
		defer func() {
			if r := recover(); r != nil {
				perr = fmt.Errorf("panic: %v", r)
			}
		}()
		perr = mk(c.Kind, prefix).Check()
	}()
	if perr != nil {
		run.Fail(t, chk, c, "the prefix of length Len() %q is not accepted by Check: %v", prefix, perr)
	}
	if c.Kind == "schema" {
		a, ra := lib.AST(mk("schema", prefix).(*js.Schema))
		b, rb := lib.AST(mk("schema", c.S).(*js.Schema))
		if ra.OK && rb.OK {
			if d := ref.DiffAST(lib.ProjectAST(a), lib.ProjectAST(b), "root"); d != "" {
				run.Fail(t, chk, c, "prefix and S have different meaning: %s", d)
			}
		}
	}
}

// loneSlashTail: the matcher of the recorded finding - the foreign text begins with a slash that
// opens no annotation (neither // nor /*).
func loneSlashTail(c Case) bool {
	return strings.HasPrefix(c.Tail, "/") && !strings.HasPrefix(c.Tail, "//") && !strings.HasPrefix(c.Tail, "/*") && strings.Trim(c.Sep, " \t\r\n") == ""
}

var tails = []string{"/", "/cats", "/ x","GET /x", "TYPE @a", "200", "Body", "}", ",", "x", ":", "]", "Request", "@next", "\"q\"", "0", "true",
	// foreign text of several lines, with the characters that start comments and annotations
	"x\ny", "GET /x\n  200", "x/y", "x#c\nz", "x\r\n\r\ny", "Body // c\n{}", "x # c"}
var safeTails = []string{"GET /x", "TYPE @a", "200", "Body", "x", "Request", "0", "true"}

func endsWithAnnotationOrComment(s string) bool {
	last := s
	if i := strings.LastIndexAny(s, "\r\n"); i >= 0 {
		last = s[i+1:]
	}
	return strings.Contains(last, "//") || strings.Contains(last, "#") || strings.HasSuffix(strings.TrimRight(s, " \t"), "*/") && false
}

func TestLen(t *testing.T) {
	run.SkipIfReplaying(t)
	defer run.Done(t, chk)
	rapid.Check(t, func(t *rapid.T) {
		var c Case
		var rootContainer bool
		var rootBegin, rootEnd int
		switch rapid.IntRange(0, 4).Draw(t, "kind") {
		case 4:
			c.Kind = "regex"
			re := gen.GenRegex(t, rapid.IntRange(1, 2).Draw(t, "redepth"), "re")
			pat := strings.ReplaceAll(re.Pattern(), "/", `\/`)
			if rapid.IntRange(0, 2).Draw(t, "endBackslash") == 0 {
				pat += `\\` // a pattern ending in an escaped backslash: the next slash still closes it
			}
			if rapid.Bool().Draw(t, "anchor") {
				pat = "^" + pat
			}
			c.S = "/" + pat + "/"
		case 0, 1:
			c.Kind = "schema"
			var m *ref.SNode
			if rapid.Bool().Draw(t, "fam") {
				m = gen.RuledTree(t, rapid.IntRange(0, 2).Draw(t, "depth"), false, "m")
			} else {
				m = gen.ShapeSchema(t, gen.ShapeOpts{Depth: 2, Width: 3}, "m")
			}
			if rapid.IntRange(0, 5).Draw(t, "shortcutRoot") == 0 {
				m = &ref.SNode{Kind: ref.SRef, Names: []string{"@a"}}
				if rapid.Bool().Draw(t, "two") {
					m.Names = append(m.Names, "@b")
				}
			}
			st := gen.DefaultStyle()
			st.MultiLine = rapid.IntRange(0, 3).Draw(t, "multi") == 0
			st.NL = rapid.SampledFrom([]string{"\n", "\n", "\r\n"}).Draw(t, "nl")
			c.S = string(gen.PrintSchema(m, st))
			rootContainer = (m.Kind == ref.SObj || m.Kind == ref.SArr) && m.End > m.Begin+1
			rootBegin, rootEnd = m.Begin, m.End
			if rapid.IntRange(0, 3).Draw(t, "trailingUserComment") == 0 && !endsWithAnnotationOrComment(c.S) {
				// a user comment after the last value belongs to the schema text (its end is the end of S,
				// whether a line break or the end of the input closes it)
				c.S += rapid.SampledFrom([]string{" # c", " #", st.NL + "# end", " ### b ###", " ###" + st.NL + "c" + st.NL + "###", "# c"}).Draw(t, "userComment")
				run.Label("schema:trailing-user-comment")
			}
			if m.Kind != ref.SRef {
				if r := lib.Check(js.New("s", c.S)); !r.OK {
					return // S must be an accepted schema
				}
			}
			if rapid.IntRange(0, 19).Draw(t, "brokenAnnotation") == 0 && m.Kind == ref.SLit && len(m.Rules) == 0 && m.Note == "" {
				// negative: an inline annotation whose rule object is cut by a user comment - the line
				// ends inside the rule object, nothing lexically complete stands there
				nc := Case{Kind: "schema", S: m.Tok + rapid.SampledFrom([]string{" // {min: 0 # c", " // {min: 0, # c", " // {# min: 0}", " // {enum: [1, # c"}).Draw(t, "brokenAnn"),
					Sep: "\n", Tail: rapid.SampledFrom([]string{"}", "}\nGET /x", "2]}", "GET /x"}).Draw(t, "brokenTail"), Cut: true}
				check(t, nc)
				run.Eval(chk, true, nc.Kind, nc.S, nc.Tail, "cut")
				run.Label("negative:schema:annotation-cut-by-a-comment")
				return
			}
		case 2:
			c.Kind = "json"
			v := gen.Value(t, gen.DocOpts{Depth: 3, Width: 3, Exp: true, StrLen: 4}, "v")
			c.S = strings.TrimRight(string(gen.Print(v, gen.RapidBlanks(t, "ws"))), " \t\r\n")
			lead := len(c.S) - len(strings.TrimLeft(c.S, " \t\r\n"))
			rootContainer = (v.Kind == ref.KObject || v.Kind == ref.KArray) && v.End > v.Begin+1
			rootBegin, rootEnd = v.Begin, v.End
			_ = lead
		default:
			c.Kind = "enum"
			n := rapid.IntRange(0, 5).Draw(t, "n")
			var toks []string
			for i := 0; i < n; i++ {
				toks = append(toks, fmt.Sprintf("%d", i*3+1))
				if i%2 == 1 {
					toks[i] = fmt.Sprintf(`"v%d"`, i)
				}
			}
			sep := rapid.SampledFrom([]string{", ", ",", ",\n  "}).Draw(t, "isep")
			lead := rapid.SampledFrom([]string{"", "", " ", "\n", "\t ", " \r\n"}).Draw(t, "enumLead")
			c.S = lead + "[" + strings.Join(toks, sep) + "]"
			if rapid.IntRange(0, 3).Draw(t, "cmt") == 0 {
				// (also an empty comment: the line break right after "//" ends it)
				c.S += rapid.SampledFrom([]string{" // trailing comment", " //", "//", " /**/", " /* c */"}).Draw(t, "cmtText")
			}
			rootContainer = n > 0
			rootBegin, rootEnd = strings.Index(c.S, "["), strings.LastIndex(c.S, "]")
		}
		// negative half: a shortcut cut off at the end of the input, a text of blanks only
		if neg := rapid.IntRange(0, 39).Draw(t, "negativeScalar"); neg < 3 {
			nc := Case{Kind: "schema", S: rapid.SampledFrom([]string{"@", "@a |", "@a|", "@a | @", "@a |\t", " @a | @b |"}).Draw(t, "cutShortcut"), Cut: true}
			if neg == 1 {
				nc = Case{Kind: "json", S: rapid.SampledFrom([]string{"", " ", "\n", " \r\n\t", "\t\t"}).Draw(t, "blankText"), Cut: true}
			}
			if neg == 2 {
				// an enum rule text that holds comments (or blanks) only: no value list begins
				nc = Case{Kind: "enum", S: rapid.SampledFrom([]string{"// [1, 2]", "/* [1, 2] */", " /* a */ // b", "// a\n// b\n\n", "/* left open", "//", "/**/", " ", "\n", "// c\n"}).Draw(t, "commentsOnly"), Cut: true}
			}
			check(t, nc)
			run.Eval(chk, true, nc.Kind, nc.S, "cut")
			run.Label("negative:" + nc.Kind + ":no-value")
			return
		}
		if rootContainer && rapid.IntRange(0, 4).Draw(t, "negative") == 0 {
			cut := rapid.IntRange(rootBegin+1, rootEnd).Draw(t, "cut")
			nc := Case{Kind: c.Kind, S: c.S[:cut], Sep: rapid.SampledFrom([]string{"", " ", "\n"}).Draw(t, "nsep"), Tail: rapid.SampledFrom(safeTails).Draw(t, "ntail"), Cut: true}
			// a cut right after a complete JSON scalar inside a string is still inside the container
			check(t, nc)
			run.Eval(chk, true, nc.Kind, nc.S, nc.Sep, nc.Tail, "cut")
			run.Label("negative:" + nc.Kind)
			return
		}
		seps := []string{" ", "  ", "\t", "\n", "\r\n", "\n\n", " \n ", "\n\t"}
		if endsWithBracketOrQuote(c.S) || c.Kind == "regex" {
			seps = append(seps, "", "")
		}
		c.Sep = rapid.SampledFrom(seps).Draw(t, "sep")
		if endsWithAnnotationOrComment(c.S) && !strings.ContainsAny(c.Sep, "\r\n") {
			c.Sep = "\n"
		}
		c.Tail = rapid.SampledFrom(tails).Draw(t, "tail")
		if c.Kind == "schema" && strings.HasSuffix(c.S, "@a") || strings.HasSuffix(c.S, "@b") {
			if strings.HasPrefix(c.Tail, "|") {
				c.Tail = "x"
			}
		}
		if rapid.IntRange(0, 9).Draw(t, "emptyTail") == 0 {
			c.Tail, c.Sep = "", rapid.SampledFrom([]string{"", " ", "\n"}).Draw(t, "onlySep")
		}
		check(t, c)
		run.Eval(chk, c.Tail != "", c.Kind, c.S, c.Sep, c.Tail)
		run.Label("positive:" + c.Kind)
		if c.Kind == "json" || c.Kind == "enum" || c.Kind == "regex" {
			c3 := c
			c3.CheckFirst = true
			check(t, c3)
			run.Eval(chk, false)
			run.Label(c.Kind + ":len-after-check")
		}
		if c.Kind == "json" {
			c2 := c
			c2.ReadFirst = rapid.SampledFrom([]int{1, 2, 5, 1000000}).Draw(t, "readFirst")
			check(t, c2)
			run.Eval(chk, false)
			run.Label("json:len-after-reading")
		}
		if c.Sep == "" && c.Tail != "" {
			run.Label("foreign-byte-directly-after-closer")
		}
		run.Sample(chk, c)
	})
}

// Scalars directly followed by a byte that cannot extend them are outside the stated domain:
// only "no panic, Len <= len(text)" is asserted.
func TestLenScalarDirectlyFollowed(t *testing.T) {
	run.SkipIfReplaying(t)
	defer run.Done(t, chk)
	for _, kind := range []string{"schema", "json"} {
		for _, s := range []string{"1", "-0.5", "true", "null", "false", "12"} {
			for _, tail := range []string{"x", ",", "}", ":", "]"} {
				l, _, p := callLen(mk(kind, s+tail))
				c := Case{Kind: kind, S: s, Tail: tail}
				if p != nil || int(l) > len(s+tail) {
					run.Fail(t, chk, c, "Len(%q)=%d panic=%v", s+tail, l, p)
				}
				run.Eval(chk, false)
			}
		}
	}
}

// Top-level scalars cut short: whatever Len reports without an error must be the end of a
// lexically complete value (judged by the independent JSON recogniser), and a text that does not
// begin with a complete value at all must give an error.
type CutCase struct {
	Kind string `json:"kind"` // json | schema
	Text string `json:"text"`
}

const chkCut = "len-of-cut-scalar"

func init() {
	run.RegisterReplay(chkCut, func(t run.TB, raw json.RawMessage) {
		var c CutCase
		if err := json.Unmarshal(raw, &c); err != nil {
			t.Fatalf("bad case: %v", err)
		}
		checkCut(t, c)
	})
}

func checkCut(t run.TB, c CutCase) (errored bool) {
	l, err, p := callLen(mk(c.Kind, c.Text))
	if p != nil {
		run.Fail(t, chkCut, c, "Len panicked on %q: %v", c.Text, p)
	}
	_, _, ok, disputed := ref.Prefix([]byte(c.Text))
	if err != nil {
		return true
	}
	if int(l) > len(c.Text) {
		run.Fail(t, chkCut, c, "Len(%q)=%d exceeds the text", c.Text, l)
	}
	if !ref.Valid([]byte(c.Text[:l])) {
		run.Fail(t, chkCut, c, "Len(%q)=%d without error, but %q is not a lexically complete value", c.Text, l, c.Text[:l])
	}
	if !ok && !disputed {
		run.Fail(t, chkCut, c, "the text %q does not begin with a lexically complete value, but Len returns %d without error", c.Text, l)
	}
	return false
}

func TestLenCutScalar(t *testing.T) {
	run.SkipIfReplaying(t)
	defer run.Done(t, chkCut)
	rapid.Check(t, func(t *rapid.T) {
		kind := rapid.SampledFrom([]string{"json", "json", "schema"}).Draw(t, "kind")
		var tok string
		switch rapid.IntRange(0, 5).Draw(t, "scalar") {
		case 0, 1, 2:
			tok = gen.NumberTok(t, kind == "json", "num")
			if kind == "json" && rapid.IntRange(0, 2).Draw(t, "fracExp") == 0 {
				// fraction and exponent together
				tok = gen.NumberTok(t, false, "num2")
				if !strings.Contains(tok, ".") {
					tok += ".5"
				}
				tok += rapid.SampledFrom([]string{"e1", "E+2", "e-3", "E10"}).Draw(t, "exp")
			}
		case 3:
			tok, _ = gen.StringTok(t, 4, "str")
		default:
			tok = rapid.SampledFrom([]string{"true", "false", "null"}).Draw(t, "lit")
		}
		lead := rapid.SampledFrom([]string{"", "", " ", "\n", "\t "}).Draw(t, "lead")
		for cut := 1; cut <= len(tok); cut++ {
			rest := ""
			if rapid.IntRange(0, 2).Draw(t, "withTail") == 0 {
				rest = rapid.SampledFrom([]string{" ", "\n", "\r\n", "  "}).Draw(t, "sep") + rapid.SampledFrom(safeTails).Draw(t, "tail")
			}
			c := CutCase{Kind: kind, Text: lead + tok[:cut] + rest}
			errored := checkCut(t, c)
			run.Eval(chkCut, cut < len(tok), c.Kind, c.Text)
			if errored {
				run.Label("cut:" + kind + ":error")
			} else {
				run.Label("cut:" + kind + ":length")
			}
			if rest == "" {
				run.Label("cut:at-end-of-input")
			}
		}
		run.Sample(chkCut, CutCase{Kind: kind, Text: lead + tok})
	})
}

func TestReplay(t *testing.T) { run.TestReplay(t) }
