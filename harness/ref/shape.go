package ref

// Shape is the reference decider for C01 (rule-free fragment: optional, nullable, type "any").
// It is written from the property statement over decoded values; it shares nothing with the
// library's lexeme stream / leaf set / required-key bookkeeping.
//
// Result: ok = the document has the example's shape. unspecified != "" = the verdict hinges on
// a zone the statement leaves open (DESIGN §4); callers skip the comparison and count it.
type ShapeResult struct {
	OK          bool
	Unspecified string
	// Depth at which the first difference was located (0 = root); -1 when OK.
	DiffDepth int
}

type shaper struct {
	keysOptional bool
	unspecified  string
	diffDepth    int
}

func Shape(n *SNode, doc *Value, keysOptionalByDefault bool) ShapeResult {
	s := &shaper{keysOptional: keysOptionalByDefault, diffDepth: -1}
	ok := s.match(n, doc, 0)
	r := ShapeResult{OK: ok, Unspecified: s.unspecified, DiffDepth: s.diffDepth}
	if ok {
		r.DiffDepth = -1
	}
	return r
}

func (s *shaper) diff(depth int) bool {
	if s.diffDepth < 0 {
		s.diffDepth = depth
	}
	return false
}

// NumberIsInteger classifies a document numeral; disputed reports the `d.000` spelling.
func NumberIsInteger(tok string) (isInt bool, disputed bool) {
	d, ok := ParseDecimal(tok)
	if !ok {
		return false, false
	}
	if DisputedIntegerSpelling(tok) {
		return false, true
	}
	return d.IsInteger(), false
}

// ExampleIsInteger classifies an example numeral of the schema (no exponent allowed there):
// a numeral written with a '.' is a float example (README: 7.0, 12.0 are float examples).
func ExampleIsInteger(tok string) bool {
	for i := 0; i < len(tok); i++ {
		if tok[i] == '.' {
			return false
		}
	}
	return true
}

func (s *shaper) match(n *SNode, doc *Value, depth int) bool {
	if n.IsAny() {
		return true
	}
	if doc.Kind == KNull {
		if n.Kind == SLit && n.Lit == KNull {
			return true
		}
		if v, ok := n.BoolRule("nullable"); ok && v {
			return true
		}
		return s.diff(depth)
	}
	switch n.Kind {
	case SLit:
		switch n.Lit {
		case KNull:
			return s.diff(depth) // doc is not null here
		case KTrue, KFalse:
			if doc.Kind == KTrue || doc.Kind == KFalse {
				return true
			}
			return s.diff(depth)
		case KString:
			if doc.Kind == KString {
				return true
			}
			return s.diff(depth)
		case KNumber:
			if doc.Kind != KNumber {
				return s.diff(depth)
			}
			if !ExampleIsInteger(n.Tok) {
				return true // float example: integer or float document
			}
			isInt, disputed := NumberIsInteger(doc.Tok)
			if disputed {
				s.unspecified = "d.000-numeral-against-integer-example"
				return true
			}
			if isInt {
				return true
			}
			return s.diff(depth)
		}
		return s.diff(depth)
	case SArr:
		if doc.Kind != KArray {
			return s.diff(depth)
		}
		if len(n.Items) == 0 {
			if len(doc.Items) == 0 {
				return true
			}
			return s.diff(depth)
		}
		ok := true
		for i, it := range doc.Items {
			j := i
			if j >= len(n.Items) {
				j = len(n.Items) - 1
			}
			if !s.match(n.Items[j], it, depth+1) {
				ok = false
			}
		}
		return ok
	case SObj:
		if doc.Kind != KObject {
			return s.diff(depth)
		}
		ok := true
		seen := map[string]bool{}
		for _, m := range doc.Members {
			var p *SProp
			for i := range n.Props {
				if !n.Props[i].Shortcut && n.Props[i].Key == m.Key {
					p = &n.Props[i]
					break
				}
			}
			if p == nil {
				s.diff(depth)
				ok = false
				continue
			}
			seen[m.Key] = true
			if !s.match(p.Val, m.Val, depth+1) {
				ok = false
			}
		}
		for i := range n.Props {
			p := &n.Props[i]
			if s.required(p.Val) && !seen[p.Key] {
				s.diff(depth)
				ok = false
			}
		}
		return ok
	}
	return s.diff(depth)
}

func (s *shaper) required(v *SNode) bool {
	opt, present := v.BoolRule("optional")
	if present {
		return !opt
	}
	return !s.keysOptional
}
