// Package ref holds the reference deciders. Nothing in this package imports the library
// under test; every function is written from RFC 8259 or from the property statements.
package ref

import (
	"strconv"
	"unicode/utf16"
	"unicode/utf8"
)

type Kind int

const (
	KObject Kind = iota
	KArray
	KString
	KNumber
	KTrue
	KFalse
	KNull
)

func (k Kind) String() string {
	return [...]string{"object", "array", "string", "number", "true", "false", "null"}[k]
}

// Value is a parsed JSON value with the byte span [Begin, End] (End inclusive) of its token(s).
type Value struct {
	Kind    Kind
	Tok     string // raw source token for scalars
	Str     string // decoded string (KString)
	Members []Member
	Items   []*Value
	Begin   int
	End     int
}

type Member struct {
	KeyTok   string // quoted
	Key      string // decoded
	KeyBegin int
	KeyEnd   int
	Val      *Value
}

// SyntaxError: Offset is the index of the first byte that cannot continue the text, or
// len(input)-1 with EOF=true when the input ended before the text was complete.
type SyntaxError struct {
	Offset int
	EOF    bool
	Empty  bool // input has no non-blank byte at all
	What   string
}

func (e *SyntaxError) Error() string { return e.What + " at " + strconv.Itoa(e.Offset) }

type parser struct {
	b []byte
	i int
	// numberCut is set when the last number parsed ended right before a byte from ".eE+-"
	// that failed to extend it (only meaningful for prefix mode).
	depth int
}

func isWS(c byte) bool { return c == ' ' || c == '\t' || c == '\n' || c == '\r' }

func (p *parser) ws() {
	for p.i < len(p.b) && isWS(p.b[p.i]) {
		p.i++
	}
}

func (p *parser) fail(what string) *SyntaxError {
	if p.i >= len(p.b) {
		off := len(p.b) - 1
		if off < 0 {
			off = 0
		}
		return &SyntaxError{Offset: off, EOF: true, What: what + " (end of input)"}
	}
	return &SyntaxError{Offset: p.i, What: what}
}

// MaxDepth bounds recursion of the reference parser (the generators stay far below).
const MaxDepth = 10000

func (p *parser) value() (*Value, *SyntaxError) {
	if p.i >= len(p.b) {
		return nil, p.fail("value expected")
	}
	p.depth++
	defer func() { p.depth-- }()
	if p.depth > MaxDepth {
		return nil, &SyntaxError{Offset: p.i, What: "too deep for the reference"}
	}
	c := p.b[p.i]
	switch {
	case c == '{':
		return p.object()
	case c == '[':
		return p.array()
	case c == '"':
		b := p.i
		s, err := p.str()
		if err != nil {
			return nil, err
		}
		return &Value{Kind: KString, Tok: string(p.b[b:p.i]), Str: s, Begin: b, End: p.i - 1}, nil
	case c == '-' || (c >= '0' && c <= '9'):
		return p.number()
	case c == 't':
		return p.word("true", KTrue)
	case c == 'f':
		return p.word("false", KFalse)
	case c == 'n':
		return p.word("null", KNull)
	}
	return nil, p.fail("value expected")
}

func (p *parser) word(w string, k Kind) (*Value, *SyntaxError) {
	b := p.i
	for j := 0; j < len(w); j++ {
		if p.i >= len(p.b) || p.b[p.i] != w[j] {
			return nil, p.fail("in literal " + w)
		}
		p.i++
	}
	return &Value{Kind: k, Tok: w, Begin: b, End: p.i - 1}, nil
}

func isDigit(c byte) bool { return c >= '0' && c <= '9' }

func (p *parser) number() (*Value, *SyntaxError) {
	b := p.i
	if p.b[p.i] == '-' {
		p.i++
		if p.i >= len(p.b) || !isDigit(p.b[p.i]) {
			return nil, p.fail("digit expected after -")
		}
	}
	if p.b[p.i] == '0' {
		p.i++
	} else {
		for p.i < len(p.b) && isDigit(p.b[p.i]) {
			p.i++
		}
	}
	if p.i < len(p.b) && p.b[p.i] == '.' {
		p.i++
		if p.i >= len(p.b) || !isDigit(p.b[p.i]) {
			return nil, p.fail("digit expected after .")
		}
		for p.i < len(p.b) && isDigit(p.b[p.i]) {
			p.i++
		}
	}
	if p.i < len(p.b) && (p.b[p.i] == 'e' || p.b[p.i] == 'E') {
		p.i++
		if p.i < len(p.b) && (p.b[p.i] == '+' || p.b[p.i] == '-') {
			p.i++
		}
		if p.i >= len(p.b) || !isDigit(p.b[p.i]) {
			return nil, p.fail("digit expected in exponent")
		}
		for p.i < len(p.b) && isDigit(p.b[p.i]) {
			p.i++
		}
	}
	return &Value{Kind: KNumber, Tok: string(p.b[b:p.i]), Begin: b, End: p.i - 1}, nil
}

func isHex(c byte) bool {
	return isDigit(c) || (c >= 'a' && c <= 'f') || (c >= 'A' && c <= 'F')
}

// str parses a string token starting at the opening quote and returns the decoded value.
// Unpaired surrogates decode to U+FFFD (as encoding/json does); raw bytes are copied.
func (p *parser) str() (string, *SyntaxError) {
	p.i++ // opening quote
	var out []byte
	for {
		if p.i >= len(p.b) {
			return "", p.fail("unterminated string")
		}
		c := p.b[p.i]
		switch {
		case c == '"':
			p.i++
			return string(out), nil
		case c < 0x20:
			return "", p.fail("control byte in string")
		case c == '\\':
			p.i++
			if p.i >= len(p.b) {
				return "", p.fail("escape")
			}
			e := p.b[p.i]
			switch e {
			case '"', '\\', '/':
				out = append(out, e)
				p.i++
			case 'b':
				out = append(out, '\b')
				p.i++
			case 'f':
				out = append(out, '\f')
				p.i++
			case 'n':
				out = append(out, '\n')
				p.i++
			case 'r':
				out = append(out, '\r')
				p.i++
			case 't':
				out = append(out, '\t')
				p.i++
			case 'u':
				p.i++
				r, err := p.hex4()
				if err != nil {
					return "", err
				}
				if utf16.IsSurrogate(r) {
					// try to pair with a following \uXXXX
					if p.i+5 < len(p.b) && p.b[p.i] == '\\' && p.b[p.i+1] == 'u' &&
						isHex(p.b[p.i+2]) && isHex(p.b[p.i+3]) && isHex(p.b[p.i+4]) && isHex(p.b[p.i+5]) {
						v, _ := strconv.ParseUint(string(p.b[p.i+2:p.i+6]), 16, 32)
						if d := utf16.DecodeRune(r, rune(v)); d != utf8.RuneError {
							p.i += 6
							out = utf8.AppendRune(out, d)
							break
						}
					}
					r = utf8.RuneError
				}
				out = utf8.AppendRune(out, r)
			default:
				return "", p.fail("bad escape")
			}
		default:
			out = append(out, c)
			p.i++
		}
	}
}

func (p *parser) hex4() (rune, *SyntaxError) {
	var v rune
	for j := 0; j < 4; j++ {
		if p.i >= len(p.b) || !isHex(p.b[p.i]) {
			return 0, p.fail("hex digit expected")
		}
		c := p.b[p.i]
		var d rune
		switch {
		case isDigit(c):
			d = rune(c - '0')
		case c >= 'a':
			d = rune(c-'a') + 10
		default:
			d = rune(c-'A') + 10
		}
		v = v<<4 | d
		p.i++
	}
	return v, nil
}

func (p *parser) array() (*Value, *SyntaxError) {
	v := &Value{Kind: KArray, Begin: p.i}
	p.i++
	p.ws()
	if p.i < len(p.b) && p.b[p.i] == ']' {
		v.End = p.i
		p.i++
		return v, nil
	}
	for {
		p.ws()
		it, err := p.value()
		if err != nil {
			return nil, err
		}
		v.Items = append(v.Items, it)
		p.ws()
		if p.i >= len(p.b) {
			return nil, p.fail("] or , expected")
		}
		if p.b[p.i] == ',' {
			p.i++
			continue
		}
		if p.b[p.i] == ']' {
			v.End = p.i
			p.i++
			return v, nil
		}
		return nil, p.fail("] or , expected")
	}
}

func (p *parser) object() (*Value, *SyntaxError) {
	v := &Value{Kind: KObject, Begin: p.i}
	p.i++
	p.ws()
	if p.i < len(p.b) && p.b[p.i] == '}' {
		v.End = p.i
		p.i++
		return v, nil
	}
	for {
		p.ws()
		if p.i >= len(p.b) || p.b[p.i] != '"' {
			return nil, p.fail("key expected")
		}
		kb := p.i
		k, err := p.str()
		if err != nil {
			return nil, err
		}
		m := Member{KeyTok: string(p.b[kb:p.i]), Key: k, KeyBegin: kb, KeyEnd: p.i - 1}
		p.ws()
		if p.i >= len(p.b) || p.b[p.i] != ':' {
			return nil, p.fail(": expected")
		}
		p.i++
		p.ws()
		val, err := p.value()
		if err != nil {
			return nil, err
		}
		m.Val = val
		v.Members = append(v.Members, m)
		p.ws()
		if p.i >= len(p.b) {
			return nil, p.fail("} or , expected")
		}
		if p.b[p.i] == ',' {
			p.i++
			continue
		}
		if p.b[p.i] == '}' {
			v.End = p.i
			p.i++
			return v, nil
		}
		return nil, p.fail("} or , expected")
	}
}

// Parse decides whether b is exactly one JSON text (RFC 8259 §2: ws value ws).
func Parse(b []byte) (*Value, *SyntaxError) {
	p := &parser{b: b}
	p.ws()
	if p.i >= len(b) {
		e := p.fail("empty")
		e.Empty = true
		return nil, e
	}
	v, err := p.value()
	if err != nil {
		return nil, err
	}
	p.ws()
	if p.i < len(b) {
		return nil, &SyntaxError{Offset: p.i, What: "trailing byte after the value"}
	}
	return v, nil
}

func Valid(b []byte) bool {
	_, err := Parse(b)
	return err == nil
}

// Prefix decides the AllowTrailingNonSpaceCharacters clause: the text begins (after blanks)
// with one complete JSON value, numbers and literals taken maximally. end is the offset just
// past the value. disputed is true when acceptance hinges on a number that is directly
// followed by one of `.eE` (and possibly a sign) that does not extend it ("1.x", "1ex", "1e+"):
// the statement does not say whether `1` or the failed longer numeral is "the value".
func Prefix(b []byte) (v *Value, end int, ok bool, disputed bool) {
	p := &parser{b: b}
	p.ws()
	if p.i >= len(b) {
		return nil, 0, false, false
	}
	val, err := p.value()
	if err == nil {
		return val, p.i, true, false
	}
	// Was the failure a number cut short at top level? Re-scan the longest valid numeral.
	q := &parser{b: b}
	q.ws()
	if q.i < len(b) && (b[q.i] == '-' || isDigit(b[q.i])) {
		j := q.i
		if b[j] == '-' {
			j++
		}
		if j < len(b) && isDigit(b[j]) {
			// there is a valid integer part, so the failure came from `.`/`e` handling
			return nil, 0, false, true
		}
	}
	return nil, 0, false, false
}
