package ref

import "strings"

// Abstract schema model. Generators build values of these types, the printer (package gen)
// turns them into schema text and records byte spans, the reference deciders interpret them.

type SKind int

const (
	SObj SKind = iota
	SArr
	SLit
	SRef // type shortcut in value position: @A or @A | @B
)

type SNode struct {
	Kind  SKind
	Lit   Kind   // for SLit: KString, KNumber, KTrue, KFalse, KNull
	Tok   string // source token of the literal example
	Str   string // decoded string example
	Props []SProp
	Items []*SNode
	Names []string // SRef: type names incl. '@'
	Rules []SRule
	Note  string // annotation note text ("" = none)
	// NoteDetached: the printer wrote the note on a line on which no value starts, so it belongs to
	// no node (set by gen.PrintSchema)
	NoteDetached bool

	// filled by the printer
	Begin    int // offset of the first byte of the example value
	End      int // offset of its last byte
	AnnBegin int // offset of the annotation opener, -1 when none
}

type SProp struct {
	Key      string // decoded key, or "@name" for a key shortcut
	KeyTok   string // quoted token (or the bare @name)
	Shortcut bool
	Val      *SNode
	KeyBegin int
	KeyEnd   int
}

type RuleValKind int

const (
	RVScalar  RuleValKind = iota // Tok holds the JSON scalar token (true, 5, "any", ...)
	RVEnum                       // inline list
	RVEnumRef                    // @E
	RVOr                         // list of or items
	RVAllOf                      // one name ("@a") or a list
)

type SRule struct {
	Name      string
	Quoted    bool // name written in quotes
	ValKind   RuleValKind
	Tok       string
	Enum      []EnumItem
	EnumRef   string
	Or        []OrItem
	AllOf     []string
	AllOfList bool // written as a list even when it has one member

	Begin int // offset of the rule name (filled by the printer)
}

type EnumItem struct {
	Kind    Kind
	Tok     string
	Str     string // decoded when Kind == KString
	Comment string
}

// OrItem is one member of an `or` rule: either a type name string ("@T" or "string") or an
// inline rule set {type: "integer", min: 0}.
type OrItem struct {
	Name  string  // "@T" / "integer" ... (written as a JSON string)
	Rules []SRule // inline rule set when Name == ""
}

func (n *SNode) Rule(name string) *SRule {
	for i := range n.Rules {
		if n.Rules[i].Name == name {
			return &n.Rules[i]
		}
	}
	return nil
}

// BoolRule returns the value of a boolean rule and whether it is present.
func (n *SNode) BoolRule(name string) (val, present bool) {
	r := n.Rule(name)
	if r == nil || r.ValKind != RVScalar {
		return false, false
	}
	return r.Tok == "true", true
}

// TypeName returns the unquoted value of the type rule, "" when absent.
func (n *SNode) TypeName() string {
	r := n.Rule("type")
	if r == nil || r.ValKind != RVScalar {
		return ""
	}
	return strings.Trim(r.Tok, `"`)
}

func (n *SNode) IsAny() bool { return n.TypeName() == "any" }

// Walk visits n and all descendants in source order.
func (n *SNode) Walk(f func(*SNode)) {
	f(n)
	for i := range n.Props {
		n.Props[i].Val.Walk(f)
	}
	for _, it := range n.Items {
		it.Walk(f)
	}
}

func (n *SNode) CountNodes() int {
	c := 0
	n.Walk(func(*SNode) { c++ })
	return c
}

func (n *SNode) Depth() int {
	d := 0
	for i := range n.Props {
		if x := n.Props[i].Val.Depth() + 1; x > d {
			d = x
		}
	}
	for _, it := range n.Items {
		if x := it.Depth() + 1; x > d {
			d = x
		}
	}
	return d
}
