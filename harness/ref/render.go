package ref

// Reference for C17(b): line number, line text and caret column of a position in a file,
// written from the statement.

type Rendered struct {
	Mixed       bool   // the file mixes newline conventions: only "no panic" is asserted
	Line        int    // 1-based
	Text        string // the line, left-trimmed (spaces/tabs); not cut
	TextDefined bool   // false for an all-blank line
	Caret       int    // number of columns before the caret
	CaretOK     bool   // false when the position is on a line break or inside the trimmed blanks
	// LineStart, LineEnd: the raw line is b[LineStart:LineEnd] (without its line break)
	LineStart, LineEnd int
}

// convention: 0 none/LF, 1 CR, 2 CRLF, -1 mixed
func convention(b []byte) int {
	lf, cr, crlf := 0, 0, 0
	for i, c := range b {
		switch c {
		case '\n':
			if i > 0 && b[i-1] == '\r' {
				crlf++
			} else {
				lf++
			}
		case '\r':
			if !(i+1 < len(b) && b[i+1] == '\n') {
				cr++
			}
		}
	}
	kinds := 0
	for _, n := range []int{lf, cr, crlf} {
		if n > 0 {
			kinds++
		}
	}
	switch {
	case kinds > 1:
		return -1
	case cr > 0:
		return 1
	case crlf > 0:
		return 2
	}
	return 0
}

func Render(b []byte, pos int) Rendered {
	conv := convention(b)
	if conv < 0 {
		return Rendered{Mixed: true}
	}
	isBreakByte := func(i int) bool { return b[i] == '\n' || b[i] == '\r' }
	// breakEnd(i): i is the first byte of a line break; returns the index after it
	breakLen := 1
	if conv == 2 {
		breakLen = 2
	}
	line, start := 1, 0
	i := 0
	for i < len(b) {
		if isBreakByte(i) {
			end := i + breakLen
			if pos < end {
				break // the position is before the end of this line's break
			}
			line++
			start = end
			i = end
			continue
		}
		i++
	}
	// line end
	e := start
	for e < len(b) && !isBreakByte(e) {
		e++
	}
	r := Rendered{Line: line, LineStart: start, LineEnd: e}
	lead := start
	for lead < e && (b[lead] == ' ' || b[lead] == '\t') {
		lead++
	}
	r.Text = string(b[lead:e])
	r.TextDefined = lead < e
	if pos >= lead && pos < e {
		r.Caret, r.CaretOK = pos-lead, true
	}
	return r
}
