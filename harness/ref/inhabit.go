package ref

import (
	"sort"
	"strings"
)

// Reference analysis for C09: which types of a graph have a finite inhabitant (least
// fix-point), which names the root text references, which referenced names are missing.

// RefNames lists the @names a schema text references in type positions, in source order,
// without duplicates (enum rule names are not types).
func RefNames(n *SNode) []string {
	var out []string
	seen := map[string]bool{}
	add := func(s string) {
		if strings.HasPrefix(s, "@") && !seen[s] {
			seen[s] = true
			out = append(out, s)
		}
	}
	var rec func(n *SNode)
	rec = func(n *SNode) {
		for _, nm := range n.Names {
			add(nm)
		}
		for _, r := range n.Rules {
			switch r.Name {
			case "type", "additionalProperties":
				add(strings.Trim(r.Tok, `"`))
			case "allOf":
				for _, a := range r.AllOf {
					add(a)
				}
			case "or":
				for _, it := range r.Or {
					add(it.Name)
					for _, rr := range it.Rules {
						if rr.Name == "type" || rr.Name == "additionalProperties" {
							add(strings.Trim(rr.Tok, `"`))
						}
					}
				}
			}
		}
		for i := range n.Props {
			if n.Props[i].Shortcut {
				add(n.Props[i].Key)
			}
			rec(n.Props[i].Val)
		}
		for _, it := range n.Items {
			rec(it)
		}
	}
	rec(n)
	return out
}

// Missing returns the referenced-but-undefined names of the whole graph, sorted.
func (g *Graph) Missing() []string {
	m := map[string]bool{}
	for _, nm := range RefNames(g.Root) {
		if g.Types[nm] == nil {
			m[nm] = true
		}
	}
	for _, t := range g.Types {
		for _, nm := range RefNames(t) {
			if g.Types[nm] == nil {
				m[nm] = true
			}
		}
	}
	var out []string
	for k := range m {
		out = append(out, k)
	}
	sort.Strings(out)
	return out
}

// Inhabited computes the least fix-point: literal ok, array ok, object iff all non-optional
// properties and all allOf parents are, single reference iff its target is, alternative list
// iff some member is. Missing types count as inhabited leaves (they are reported separately).
func (g *Graph) Inhabited() (types map[string]bool, root bool) {
	types = map[string]bool{}
	var node func(n *SNode, keysOpt bool) bool
	tOK := func(name string) bool {
		if g.Types[name] == nil {
			return true
		}
		return types[name]
	}
	node = func(n *SNode, keysOpt bool) bool {
		if n.Kind == SRef {
			for _, nm := range n.Names {
				if tOK(nm) {
					return true
				}
			}
			return false
		}
		if t := n.TypeName(); strings.HasPrefix(t, "@") {
			return tOK(t)
		}
		if or := n.Rule("or"); or != nil {
			for _, it := range or.Or {
				if !strings.HasPrefix(it.Name, "@") || tOK(it.Name) {
					return true
				}
			}
			return false
		}
		switch n.Kind {
		case SObj:
			if r := n.Rule("allOf"); r != nil {
				for _, a := range r.AllOf {
					if !tOK(a) {
						return false
					}
				}
			}
			for i := range n.Props {
				p := &n.Props[i]
				req := !keysOpt
				if v, ok := p.Val.BoolRule("optional"); ok {
					req = !v
				}
				if req && !node(p.Val, keysOpt) {
					return false
				}
			}
			return true
		}
		return true // literal, array
	}
	for changed := true; changed; {
		changed = false
		for name, t := range g.Types {
			if !types[name] && node(t, g.OptTypes[name]) {
				types[name] = true
				changed = true
			}
		}
	}
	return types, node(g.Root, g.KeysOptional)
}

// RequiredRefs lists the type names a node requires directly (through non-optional properties
// and nested objects, single references and alternative lists).
func RequiredRefs(n *SNode, keysOpt bool) []string {
	var out []string
	var rec func(n *SNode)
	rec = func(n *SNode) {
		if n.Kind == SRef {
			out = append(out, n.Names...)
			return
		}
		if t := n.TypeName(); strings.HasPrefix(t, "@") {
			out = append(out, t)
			return
		}
		if n.Kind == SObj {
			if r := n.Rule("allOf"); r != nil {
				out = append(out, r.AllOf...)
			}
			for i := range n.Props {
				req := !keysOpt
				if v, ok := n.Props[i].Val.BoolRule("optional"); ok {
					req = !v
				}
				if req {
					rec(n.Props[i].Val)
				}
			}
		}
	}
	rec(n)
	return out
}
