package ref

import (
	"fmt"
	"regexp"
	"strconv"
	"strings"
	"unicode/utf8"
)

// Reference decider for C02: a scalar example carrying rules against a scalar document value.
// Written clause by clause from the property statement.

type Tri int

const (
	No Tri = iota
	Yes
	Unknown
)

type ScalarVerdict struct {
	Accept      bool
	Unspecified string // non-empty: the statement does not settle this case
	Why         string // the clause that decided
}

func acc(why string) ScalarVerdict { return ScalarVerdict{Accept: true, Why: why} }
func rej(why string) ScalarVerdict { return ScalarVerdict{Accept: false, Why: why} }
func unspec(why string) ScalarVerdict {
	return ScalarVerdict{Unspecified: why, Why: why}
}

// activeBool: rule present with value true (false-valued nullable/const/exclusive* are inert).
func activeBool(n *SNode, name string) bool {
	v, ok := n.BoolRule(name)
	return ok && v
}

// SchemaNumberIsInteger: the example's numeric class after the type rule.
func SchemaNumberIsInteger(n *SNode) bool {
	switch n.TypeName() {
	case "float", "decimal":
		return false
	case "integer":
		return true
	}
	if n.Rule("precision") != nil {
		return false
	}
	return ExampleIsInteger(n.Tok)
}

func Scalar(n *SNode, probe *Value) ScalarVerdict {
	if probe.Kind == KObject || probe.Kind == KArray {
		return rej("container against a scalar example")
	}
	if n.IsAny() {
		return acc("type any")
	}
	// "A null admitted by nullable:true is accepted whatever other rules are present"
	if probe.Kind == KNull && activeBool(n, "nullable") {
		return acc("nullable:true admits null")
	}
	enum := n.Rule("enum")
	if enum == nil {
		// admissible kind
		switch n.Lit {
		case KString:
			if probe.Kind != KString {
				return rej("kind: string expected")
			}
		case KTrue, KFalse:
			if probe.Kind != KTrue && probe.Kind != KFalse {
				return rej("kind: boolean expected")
			}
		case KNull:
			if probe.Kind != KNull {
				return rej("kind: null expected")
			}
		case KNumber:
			if probe.Kind != KNumber {
				return rej("kind: number expected")
			}
			if SchemaNumberIsInteger(n) {
				isInt, disputed := NumberIsInteger(probe.Tok)
				if disputed {
					return unspec("d.000-numeral-against-integer-example")
				}
				if !isInt {
					return rej("kind: integer expected")
				}
			}
		}
	}
	for i := range n.Rules {
		r := &n.Rules[i]
		switch r.Name {
		case "min", "max":
			if probe.Kind != KNumber {
				continue // unreachable without enum; with enum Check forbids min/max
			}
			m, ok1 := ParseDecimal(r.Tok)
			p, ok2 := ParseDecimal(probe.Tok)
			if !ok1 || !ok2 {
				return unspec("unparsable numeral")
			}
			c := p.Cmp(m)
			if r.Name == "min" {
				if activeBool(n, "exclusiveMinimum") {
					if c <= 0 {
						return rej("min (exclusive)")
					}
				} else if c < 0 {
					return rej("min")
				}
			} else {
				if activeBool(n, "exclusiveMaximum") {
					if c >= 0 {
						return rej("max (exclusive)")
					}
				} else if c > 0 {
					return rej("max")
				}
			}
		case "precision":
			if probe.Kind != KNumber {
				continue
			}
			p, _ := ParseDecimal(probe.Tok)
			pr, _ := strconv.ParseInt(r.Tok, 10, 64)
			if p.FractionDigits() > pr {
				return rej("precision")
			}
		case "minLength", "maxLength":
			if probe.Kind != KString {
				continue
			}
			bound, _ := strconv.Atoi(r.Tok)
			lb, lr := len(probe.Str), utf8.RuneCountInString(probe.Str)
			var vb, vr bool
			if r.Name == "minLength" {
				vb, vr = lb >= bound, lr >= bound
			} else {
				vb, vr = lb <= bound, lr <= bound
			}
			if vb != vr {
				return unspec("string-length-bytes-vs-runes")
			}
			if !vb {
				return rej(r.Name)
			}
		case "regex":
			if probe.Kind != KString {
				continue
			}
			v, err := Parse([]byte(r.Tok))
			if err != nil || v.Kind != KString {
				return unspec("regex rule value is not a JSON string")
			}
			re, cerr := regexp.Compile(v.Str)
			if cerr != nil {
				return unspec("regex does not compile")
			}
			if !utf8.ValidString(probe.Str) {
				return unspec("regex on invalid UTF-8")
			}
			if !re.MatchString(probe.Str) {
				return rej("regex")
			}
		case "enum":
			member, u := EnumMember(r.Enum, probe)
			if u != "" {
				return unspec(u)
			}
			if !member {
				return rej("enum")
			}
		case "const":
			if r.Tok != "true" {
				continue
			}
			ex := &Value{Kind: n.Lit, Tok: n.Tok, Str: n.Str}
			eq, u := ScalarEqual(ex, probe, false)
			if u != "" {
				return unspec(u)
			}
			if !eq {
				return rej("const")
			}
		case "type":
			if probe.Kind != KString {
				continue
			}
			var t Tri
			switch n.TypeName() {
			case "date":
				t = FormatDate(probe.Str)
			case "datetime":
				t = FormatDateTime(probe.Str)
			case "email":
				t = FormatEmail(probe.Str)
			case "uri":
				t = FormatURI(probe.Str)
			case "uuid":
				t = FormatUUID(probe.Str)
			default:
				continue
			}
			if t == Unknown {
				return unspec("format:" + n.TypeName() + ":outside-the-judged-classes")
			}
			if t == No {
				return rej("format " + n.TypeName())
			}
		}
	}
	return acc("all rules satisfied")
}

// ScalarEqual: equality of two scalar values. kindSensitive distinguishes integer from float
// numerals (enum membership); when the classes differ but the values agree the case is
// unspecified ("type-sensitive membership" vs "normalised expansion").
func ScalarEqual(a, b *Value, kindSensitive bool) (bool, string) {
	ka, kb := a.Kind, b.Kind
	if ka == KFalse || ka == KTrue {
		return ka == kb, ""
	}
	if ka != kb {
		return false, ""
	}
	switch ka {
	case KNull:
		return true, ""
	case KString:
		return a.Str == b.Str, ""
	case KNumber:
		da, ok1 := ParseDecimal(a.Tok)
		db, ok2 := ParseDecimal(b.Tok)
		if !ok1 || !ok2 {
			return false, "unparsable numeral"
		}
		if da.Cmp(db) != 0 {
			return false, ""
		}
		if kindSensitive {
			ia, d1 := NumberIsInteger(a.Tok)
			ib, d2 := NumberIsInteger(b.Tok)
			if d1 || d2 || ia != ib {
				return false, "equal-numbers-of-different-numeric-class"
			}
		}
		return true, ""
	}
	return false, ""
}

func EnumMember(items []EnumItem, probe *Value) (bool, string) {
	unsp := ""
	for _, it := range items {
		eq, u := ScalarEqual(&Value{Kind: it.Kind, Tok: it.Tok, Str: it.Str}, probe, true)
		if eq {
			return true, ""
		}
		if u != "" {
			unsp = u
		}
	}
	return false, unsp
}

// ---------------------------------------------------------------------------------------
// formats: two-sided, deliberately partial deciders (DESIGN §4 "Formats")

var reDate = regexp.MustCompile(`^(\d{4})-(\d{2})-(\d{2})$`)

func daysIn(y, m int) int {
	switch m {
	case 4, 6, 9, 11:
		return 30
	case 2:
		if y%4 == 0 && (y%100 != 0 || y%400 == 0) {
			return 29
		}
		return 28
	}
	return 31
}

func FormatDate(s string) Tri {
	m := reDate.FindStringSubmatch(s)
	if m == nil {
		return No
	}
	y, _ := strconv.Atoi(m[1])
	mo, _ := strconv.Atoi(m[2])
	d, _ := strconv.Atoi(m[3])
	if mo < 1 || mo > 12 || d < 1 || d > daysIn(y, mo) {
		return No
	}
	return Yes
}

var reDT = regexp.MustCompile(`^(\d{4}-\d{2}-\d{2})([Tt ])(\d{2}):(\d{2}):(\d{2})(\.\d+)?([Zz]|[+-](\d{2}):(\d{2}))$`)

// FormatDateTime: the date-time production of RFC 3339 section 5.6 with its field ranges. Not
// judged: a blank instead of "T" (the RFC lets applications use it "for readability"), and second
// 60 (a leap second is valid only at the end of some months).
func FormatDateTime(s string) Tri {
	m := reDT.FindStringSubmatch(s)
	if m == nil {
		return No // not of the form date "T" time [fraction of 1+ digits] offset
	}
	if m[2] == " " {
		return Unknown
	}
	if FormatDate(m[1]) != Yes {
		return No
	}
	h, _ := strconv.Atoi(m[3])
	mi, _ := strconv.Atoi(m[4])
	sec, _ := strconv.Atoi(m[5])
	if h > 23 || mi > 59 || sec > 60 {
		return No
	}
	if m[8] != "" {
		oh, _ := strconv.Atoi(m[8])
		om, _ := strconv.Atoi(m[9])
		if oh > 23 || om > 59 {
			return No
		}
	}
	if sec == 60 {
		return Unknown
	}
	return Yes
}

var reEmailYes = regexp.MustCompile(`^[A-Za-z0-9_+-]+(\.[A-Za-z0-9_+-]+)*@[A-Za-z0-9]+(-[A-Za-z0-9]+)*(\.[A-Za-z0-9]+(-[A-Za-z0-9]+)*)+$`)

func FormatEmail(s string) Tri {
	if reEmailYes.MatchString(s) {
		return Yes
	}
	if s == "" || !strings.Contains(s, "@") || strings.HasPrefix(s, "@") || strings.HasSuffix(s, "@") ||
		strings.HasPrefix(s, " ") || strings.HasSuffix(s, " ") || strings.HasPrefix(s, "<") || strings.HasSuffix(s, ">") {
		return No
	}
	// The format means one bare address (the library's own tests pin "Name <a@b.c>" and "a@b.c " as invalid).
	// Without a quoted local part or a domain literal, blanks and the mailbox punctuation of RFC 5322
	// (angle brackets, comments, group syntax, lists) cannot be part of it.
	if !strings.ContainsAny(s, "\"[") && strings.ContainsAny(s, " \t\r\n<>(),;:") {
		return No
	}
	return Unknown
}

var reURIYes = regexp.MustCompile(`^[a-z][a-z0-9]*://(([A-Za-z0-9._~-]|%[0-9A-Fa-f]{2})+(:([A-Za-z0-9._~-]|%[0-9A-Fa-f]{2})*)?@)?([A-Za-z0-9]|%[0-9A-Fa-f]{2})+([.-]([A-Za-z0-9]|%[0-9A-Fa-f]{2})+)*(:\d{1,4})?(/[A-Za-z0-9._~-]*)*(\?[A-Za-z0-9=&._~-]*)?(#[A-Za-z0-9._~-]*)?$`)

var reURIAuthority = regexp.MustCompile(`^[a-z][a-z0-9]*://([^/?#]*)`)
var reURIPortOnly = regexp.MustCompile(`^(:[0-9]*)?$`)

func FormatURI(s string) Tri {
	if reURIYes.MatchString(s) {
		return Yes
	}
	if s == "" || !strings.Contains(s, ":") || strings.HasPrefix(s, "/") || strings.HasSuffix(s, "://") {
		return No // empty, no scheme, relative reference, scheme without host
	}
	if strings.ContainsAny(s, " \"<>\\^`{|}") || strings.Count(s, "#") > 1 {
		return No // characters RFC 3986 allows nowhere in a URI; '#' only starts the fragment
	}
	for i := 0; i < len(s); i++ {
		if s[i] < 0x20 || s[i] == 0x7f {
			return No // control characters stand nowhere in a URI, the fragment included
		}
		if s[i] == '%' && !(i+2 <= len(s)-1 && isHex(s[i+1]) && isHex(s[i+2])) {
			return No // a percent sign is always followed by two hex digits, in the query as anywhere else
		}
	}
	if m := reURIAuthority.FindStringSubmatch(s); m != nil {
		// scheme://authority...: an authority that is only user info and/or a port names no host
		auth := m[1]
		if strings.ContainsAny(s[len(m[0]):], "[]") {
			return No // square brackets only enclose an IP literal in the host
		}
		if h := auth[strings.LastIndexByte(auth, '@')+1:]; !strings.HasPrefix(h, "[") && strings.Count(h, ":") > 1 {
			return No // a registered name holds no colon: one colon at most, in front of the port
		}
		if strings.Count(auth, "@") > 1 {
			return No // '@' ends the user info, inside it has to be percent-encoded
		}
		if i := strings.LastIndexByte(auth, '@'); i >= 0 {
			auth = auth[i+1:]
		}
		if reURIPortOnly.MatchString(auth) {
			return No
		}
	}
	return Unknown
}

var reUUIDYes = regexp.MustCompile(`^[0-9a-fA-F]{8}-[0-9a-fA-F]{4}-[0-9a-fA-F]{4}-[0-9a-fA-F]{4}-[0-9a-fA-F]{12}$`)

func FormatUUID(s string) Tri {
	if reUUIDYes.MatchString(s) {
		return Yes
	}
	switch len(s) {
	case 32, 38, 45:
		return Unknown // plain-hex, brace and URN forms: not judged
	case 36:
		return No // right length, wrong digit or dash position
	}
	return No // wrong length
}

func (v ScalarVerdict) String() string {
	if v.Unspecified != "" {
		return "unspecified(" + v.Unspecified + ")"
	}
	return fmt.Sprintf("accept=%v (%s)", v.Accept, v.Why)
}
