package ref

import (
	"encoding/json"
	"strings"
)

// Reference table for C08, one clause of the statement per block. Returns judged=false when
// the statement has no clause for the combination (only order-independence is asserted there).

type NodeKind string

const (
	NKObject      NodeKind = "object"
	NKEmptyObject NodeKind = "empty-object"
	NKArray       NodeKind = "array"
	NKEmptyArray  NodeKind = "empty-array"
	NKString      NodeKind = "string"
	NKInteger     NodeKind = "integer"
	NKFloat       NodeKind = "float"
	NKBoolean     NodeKind = "boolean"
	NKNull        NodeKind = "null"
	NKRef         NodeKind = "type-shortcut"
)

type RuleAtom struct {
	Name string // rule name as written
	Tok  string // value token (scalars) – lists are described by Variant
	// Variant distinguishes parameter choices: "", "eq" (bound equal to the example),
	// "disordered" (pair out of order), "true"/"false" for flags.
	Variant string
}

func has(rules []RuleAtom, name string) *RuleAtom {
	for i := range rules {
		if rules[i].Name == name {
			return &rules[i]
		}
	}
	return nil
}

var knownRules = map[string]bool{"type": true, "optional": true, "nullable": true, "const": true, "min": true, "max": true,
	"exclusiveMinimum": true, "exclusiveMaximum": true, "precision": true, "minLength": true, "maxLength": true, "regex": true,
	"minItems": true, "maxItems": true, "additionalProperties": true, "allOf": true, "enum": true, "or": true}

func Applicable(kind NodeKind, isProp bool, rules []RuleAtom) (accept, judged bool, why string) {
	// every rule is known, appears once
	seen := map[string]bool{}
	for _, r := range rules {
		if !knownRules[r.Name] {
			return false, true, "unknown rule " + r.Name
		}
		if seen[r.Name] {
			return false, true, "duplicate rule " + r.Name
		}
		seen[r.Name] = true
	}
	isNumber := kind == NKInteger || kind == NKFloat
	isArray := kind == NKArray || kind == NKEmptyArray
	isObject := kind == NKObject || kind == NKEmptyObject
	typ := ""
	if t := has(rules, "type"); t != nil {
		typ = strings.Trim(t.Tok, `"`)
		var dec string
		if json.Unmarshal([]byte(t.Tok), &dec) == nil {
			typ = dec // the name may be written with escape sequences
		}
	}
	typeRef := strings.HasPrefix(typ, "@")
	isFormat := typ == "email" || typ == "uri" || typ == "uuid" || typ == "date" || typ == "datetime"

	// optional only on object properties
	if has(rules, "optional") != nil && !isProp {
		return false, true, "optional outside an object property"
	}
	// kind applicability
	for _, r := range rules {
		switch r.Name {
		case "min", "max", "exclusiveMinimum", "exclusiveMaximum", "precision":
			if !isNumber {
				return false, true, r.Name + " on a non-number"
			}
		case "minLength", "maxLength", "regex":
			if kind != NKString {
				return false, true, r.Name + " on a non-string"
			}
		case "minItems", "maxItems":
			if !isArray {
				return false, true, r.Name + " on a non-array"
			}
		case "additionalProperties", "allOf":
			if !isObject {
				return false, true, r.Name + " on a non-object"
			}
		}
	}
	// zones the statement does not speak about
	if c := has(rules, "const"); c != nil {
		if isObject || isArray || kind == NKRef {
			return false, false, "const on a container / shortcut: no clause"
		}
		if c.Variant == "true" && (has(rules, "enum") != nil || has(rules, "or") != nil || typ == "any" || typeRef) {
			return false, false, "const next to enum/or/any/type reference: no clause"
		}
	}
	if kind == NKRef {
		// a type shortcut is a type reference: only optional / nullable may accompany it
		for _, r := range rules {
			switch r.Name {
			case "optional", "nullable", "const":
			case "type", "or", "enum":
				return false, false, "type/or/enum rule on a type shortcut: no clause"
			default:
				return false, true, "foreign rule next to a type reference: " + r.Name
			}
		}
		return true, true, "type shortcut with optional/nullable only"
	}
	foreign := func(allowed ...string) string {
		for _, r := range rules {
			ok := r.Name == "optional" || r.Name == "nullable" || r.Name == "const"
			for _, a := range allowed {
				if r.Name == a {
					ok = true
				}
			}
			if !ok {
				return r.Name
			}
		}
		return ""
	}
	if has(rules, "enum") != nil {
		if isObject || isArray {
			return false, false, "enum on a container: no clause"
		}
		if typ != "" && typ != "enum" {
			return false, false, "enum with a type other than enum: no clause"
		}
		if f := foreign("enum", "type"); f != "" {
			return false, true, "foreign rule next to enum: " + f
		}
		return true, true, "enum with optional/nullable/const/type enum"
	}
	if o := has(rules, "or"); o != nil {
		if isObject || isArray {
			return false, false, "or on a container: no clause"
		}
		if o.Variant == "disordered-set" {
			return false, true, "paired bounds out of order inside an or rule set"
		}
		if o.Variant == "ref-optional-set" {
			return false, true, "optional inside an or rule set"
		}
		if o.Variant == "format-with-length-set" {
			return false, true, "format type next to a length rule inside an or rule set"
		}
		switch o.Variant {
		case "exclusive-empty-set":
			return false, true, "min == max with an exclusive flag inside an or rule set"
		case "foreign-kind-set", "foreign-rule-same-kind-set", "foreign-rule-same-kind-admitted-set":
			return false, true, "a rule that does not apply to the kind an or rule set declares"
		case "huge-length-set":
			return false, true, "minLength above maxLength inside an or rule set (a bound of 2^64)"
		}
		if o.Variant == "two-kinds-typeless-set" {
			return false, true, "an or rule set without a type whose rules belong to two different kinds"
		}
		if o.Variant == "ordered-set" {
			return false, false, "or rule set without a type: no clause on its kind"
		}
		if typ != "" {
			return false, false, "or with a type rule: no clause"
		}
		if f := foreign("or"); f != "" {
			return false, true, "foreign rule next to or: " + f
		}
		return true, true, "or with optional/nullable"
	}
	if typ == "any" {
		if f := foreign("type"); f != "" {
			return false, true, "foreign rule next to any: " + f
		}
		if kind == NKObject || kind == NKArray {
			return false, false, "any on a non-empty container: no clause"
		}
		return true, true, "any with optional/nullable"
	}
	if typeRef {
		if isObject || isArray {
			return false, false, "type reference on a container: no clause"
		}
		if f := foreign("type"); f != "" {
			return false, true, "foreign rule next to a type reference: " + f
		}
		return true, true, "type reference with optional/nullable"
	}
	if typ == "enum" || typ == "mixed" {
		return false, false, "type enum/mixed without its rule: no clause"
	}
	// format types exclude length / regex
	if isFormat {
		if kind != NKString {
			return false, false, "format type on a non-string (declared type vs example is C04)"
		}
		for _, n := range []string{"minLength", "maxLength", "regex"} {
			if has(rules, n) != nil {
				return false, true, "format type with " + n
			}
		}
	}
	// precision only with decimal
	if has(rules, "precision") != nil {
		if typ != "" && typ != "decimal" {
			return false, true, "precision with type " + typ
		}
		if kind == NKInteger {
			return false, false, "precision on an integer example: no clause"
		}
	} else if typ == "decimal" {
		return false, false, "decimal without precision: no clause"
	}
	// exclusive flags need their bound
	if has(rules, "exclusiveMinimum") != nil && has(rules, "min") == nil {
		return false, true, "exclusiveMinimum without min"
	}
	if has(rules, "exclusiveMaximum") != nil && has(rules, "max") == nil {
		return false, true, "exclusiveMaximum without max"
	}
	// pair ordering
	mn, mx := has(rules, "min"), has(rules, "max")
	if mn != nil && mx != nil {
		if mn.Variant == "disordered" || mx.Variant == "disordered" {
			return false, true, "min > max"
		}
		excl := false
		if e := has(rules, "exclusiveMinimum"); e != nil && e.Variant == "true" {
			excl = true
		}
		if e := has(rules, "exclusiveMaximum"); e != nil && e.Variant == "true" {
			excl = true
		}
		if mn.Variant == "eq" && mx.Variant == "eq" && excl {
			return false, true, "min == max with an exclusive flag"
		}
	}
	// bounds of 2^64 and more: longer than every string / array (the example violates them), and a
	// precision of that size is no precision a decimal example could be held to - what matters is
	// that they are not silently taken for another number
	for _, name := range []string{"minLength", "minItems"} {
		if a := has(rules, name); a != nil && a.Variant == "huge" {
			return false, true, name + " of 2^64: the example is shorter"
		}
	}
	if a := has(rules, "precision"); a != nil && a.Variant == "huge" {
		return false, false, "precision of 2^64+1: no clause (rejecting the value or accepting the rule are both defensible)"
	}
	// a bound equal to the example with its exclusive flag true: the example violates it (C04)
	if mn != nil && mn.Variant == "eq" {
		if e := has(rules, "exclusiveMinimum"); e != nil && e.Variant == "true" {
			return false, true, "example equals an exclusive minimum"
		}
	}
	if mx != nil && mx.Variant == "eq" {
		if e := has(rules, "exclusiveMaximum"); e != nil && e.Variant == "true" {
			return false, true, "example equals an exclusive maximum"
		}
	}
	if mn != nil && mn.Variant == "disordered" || mx != nil && mx.Variant == "disordered" {
		return false, true, "a disordered bound also excludes the example"
	}
	if kind == NKEmptyArray && (has(rules, "minItems") != nil || has(rules, "maxItems") != nil) {
		return false, false, "item counts on an empty example array: no clause"
	}
	for _, p := range [][2]string{{"minLength", "maxLength"}, {"minItems", "maxItems"}} {
		a, b := has(rules, p[0]), has(rules, p[1])
		if a != nil && a.Variant == "disordered" || b != nil && b.Variant == "disordered" {
			return false, true, p[0] + " > " + p[1] + " (or the example violates the bound)"
		}
	}
	// type name vs example kind is C04's business: the generator only writes matching names
	return true, true, "all clauses satisfied"
}
