package ref

import (
	"fmt"
	"strings"
)

// Expected AST projection for C16, computed from the abstract model alone (the fields the
// statement lists; Properties emptiness and Items nil-vs-empty are not part of it).

type XRule struct {
	Name      string  `json:"name,omitempty"`
	TokenType string  `json:"token_type"`
	Value     string  `json:"value"`
	Comment   string  `json:"comment,omitempty"`
	Source    int     `json:"source"` // 1 manual, 2 generated
	Props     []XRule `json:"props,omitempty"`
	Items     []XRule `json:"items,omitempty"`
}

type XNode struct {
	TokenType     string  `json:"token_type"`
	SchemaType    string  `json:"schema_type"`
	Key           string  `json:"key"`
	Value         string  `json:"value"`
	Comment       string  `json:"comment"`
	IsKeyShortcut bool    `json:"is_key_shortcut"`
	Rules         []XRule `json:"rules"`
	Children      []XNode `json:"children"`
}

func tokType(tok string) string {
	switch {
	case tok == "true" || tok == "false":
		return "boolean"
	case tok == "null":
		return "null"
	case strings.HasPrefix(tok, `"`):
		return "string"
	case strings.HasPrefix(tok, "@"):
		return "reference"
	}
	return "number"
}

func unq(tok string) string {
	if v, err := Parse([]byte(tok)); err == nil && v.Kind == KString {
		return v.Str
	}
	return tok
}

func kindTokenType(k Kind) string {
	switch k {
	case KString:
		return "string"
	case KNumber:
		return "number"
	case KTrue, KFalse:
		return "boolean"
	}
	return "null"
}

func xrule(r *SRule) XRule {
	x := XRule{Name: r.Name, Source: 1}
	switch r.ValKind {
	case RVScalar:
		x.TokenType, x.Value = tokType(r.Tok), unq(r.Tok)
		if r.Name == "type" && strings.HasPrefix(x.Value, "@") {
			x.TokenType = "reference"
		}
	case RVEnumRef:
		x.TokenType, x.Value = "reference", r.EnumRef
	case RVEnum:
		x.TokenType = "array"
		for _, it := range r.Enum {
			v := it.Tok
			if it.Kind == KString {
				v = it.Str
			}
			x.Items = append(x.Items, XRule{TokenType: kindTokenType(it.Kind), Value: v, Comment: it.Comment, Source: 1})
		}
	case RVOr:
		x.TokenType = "array"
		for _, it := range r.Or {
			switch {
			case strings.HasPrefix(it.Name, "@"):
				x.Items = append(x.Items, XRule{TokenType: "reference", Value: it.Name, Source: 1})
			case it.Name != "":
				x.Items = append(x.Items, XRule{TokenType: "string", Value: it.Name, Source: 1})
			default:
				o := XRule{TokenType: "object", Source: 1}
				for i := range it.Rules {
					o.Props = append(o.Props, xrule(&it.Rules[i]))
				}
				x.Items = append(x.Items, o)
			}
		}
	case RVAllOf:
		if len(r.AllOf) == 1 && !r.AllOfList { // a single name written as a string; a one-name list stays an array
			x.TokenType, x.Value = "reference", r.AllOf[0]
		} else {
			x.TokenType = "array"
			for _, a := range r.AllOf {
				x.Items = append(x.Items, XRule{TokenType: "reference", Value: a, Source: 1})
			}
		}
	}
	return x
}

// AST computes the expected projection of GetAST for a model.
func AST(n *SNode) XNode { return astNode(n, "", false) }

func astNode(n *SNode, key string, shortcut bool) XNode {
	x := XNode{Key: key, IsKeyShortcut: shortcut, Comment: n.Note}
	if n.NoteDetached {
		x.Comment = ""
	}
	switch n.Kind {
	case SObj:
		x.TokenType, x.SchemaType = "object", "object"
	case SArr:
		x.TokenType, x.SchemaType = "array", "array"
	case SLit:
		x.TokenType = kindTokenType(n.Lit)
		x.Value = n.Tok
		switch n.Lit {
		case KString:
			x.Value, x.SchemaType = n.Str, "string"
		case KNumber:
			x.SchemaType = "integer"
			if !ExampleIsInteger(n.Tok) {
				x.SchemaType = "float"
			}
		case KTrue, KFalse:
			x.SchemaType = "boolean"
		default:
			x.SchemaType = "null"
		}
	case SRef:
		x.TokenType, x.Value = "reference", strings.Join(n.Names, " | ")
		if len(n.Names) == 1 {
			x.SchemaType = n.Names[0]
			x.Rules = append(x.Rules, XRule{Name: "type", TokenType: "reference", Value: n.Names[0], Source: 2})
		} else {
			x.SchemaType = "mixed"
			or := XRule{Name: "or", TokenType: "array", Source: 2}
			for _, nm := range n.Names {
				or.Items = append(or.Items, XRule{TokenType: "string", Value: nm, Source: 2})
			}
			x.Rules = append(x.Rules, or)
		}
	}
	for i := range n.Rules {
		x.Rules = append(x.Rules, xrule(&n.Rules[i]))
	}
	// schema type inference: enum > or > type rule > precision => decimal > JSON kind
	if n.Kind != SRef {
		switch {
		case n.Rule("enum") != nil:
			x.SchemaType = "enum"
		case n.Rule("or") != nil:
			x.SchemaType = "mixed"
		case n.TypeName() != "":
			x.SchemaType = n.TypeName()
		case n.Rule("precision") != nil:
			x.SchemaType = "decimal"
		}
	}
	for i := range n.Props {
		p := &n.Props[i]
		x.Children = append(x.Children, astNode(p.Val, p.Key, p.Shortcut))
	}
	for _, it := range n.Items {
		x.Children = append(x.Children, astNode(it, "", false))
	}
	return x
}

// DiffAST returns "" when got matches want on every field of the projection.
func DiffAST(got, want XNode, path string) string {
	if got.TokenType != want.TokenType || got.SchemaType != want.SchemaType || got.Key != want.Key || got.Value != want.Value ||
		got.Comment != want.Comment || got.IsKeyShortcut != want.IsKeyShortcut {
		return fmt.Sprintf("%s: node fields differ: got {%s %s key=%q value=%q comment=%q shortcut=%v}, the schema text says {%s %s key=%q value=%q comment=%q shortcut=%v}",
			path, got.TokenType, got.SchemaType, got.Key, got.Value, got.Comment, got.IsKeyShortcut,
			want.TokenType, want.SchemaType, want.Key, want.Value, want.Comment, want.IsKeyShortcut)
	}
	if d := diffRules(got.Rules, want.Rules, path+" rules", true); d != "" {
		return d
	}
	if len(got.Children) != len(want.Children) {
		return fmt.Sprintf("%s: %d children, the schema text has %d", path, len(got.Children), len(want.Children))
	}
	for i := range got.Children {
		if d := DiffAST(got.Children[i], want.Children[i], fmt.Sprintf("%s/%d", path, i)); d != "" {
			return d
		}
	}
	return ""
}

func diffRules(got, want []XRule, path string, named bool) string {
	if len(got) != len(want) {
		return fmt.Sprintf("%s: got %d %v, written %d %v", path, len(got), ruleNames(got), len(want), ruleNames(want))
	}
	for i := range got {
		g, w := got[i], want[i]
		if named && g.Name != w.Name {
			return fmt.Sprintf("%s: position %d is %q, written %q (order %v vs %v)", path, i, g.Name, w.Name, ruleNames(got), ruleNames(want))
		}
		if g.TokenType != w.TokenType || g.Value != w.Value || g.Comment != w.Comment || g.Source != w.Source {
			return fmt.Sprintf("%s[%d %s]: got {%s %q comment=%q source=%d}, written {%s %q comment=%q source=%d}", path, i, w.Name,
				g.TokenType, g.Value, g.Comment, g.Source, w.TokenType, w.Value, w.Comment, w.Source)
		}
		if d := diffRules(g.Props, w.Props, fmt.Sprintf("%s[%d %s].props", path, i, w.Name), true); d != "" {
			return d
		}
		if d := diffRules(g.Items, w.Items, fmt.Sprintf("%s[%d %s].items", path, i, w.Name), false); d != "" {
			return d
		}
	}
	return ""
}

func ruleNames(rs []XRule) []string {
	var out []string
	for _, r := range rs {
		out = append(out, r.Name)
	}
	return out
}
