package ref

import (
	"strconv"
	"strings"
)

// Reference decider for C03: type references, or, allOf, additionalProperties, key shortcuts.
// Plain denotational semantics over the abstract model, written from the property statement:
// a type list accepts the union of its members (plus null if nullable), an object with allOf
// accepts per the merged property set, additionalProperties decides every key the example does
// not name, a key shortcut admits any key its string type accepts.

type Graph struct {
	Root         *SNode
	Types        map[string]*SNode
	KeysOptional bool // applies to the root text only (added types are separate schema objects)
	// OptTypes: the added types that were themselves created with KeysAreOptionalByDefault: their
	// unmarked keys are optional wherever the type is used - also when its properties are inherited
	OptTypes map[string]bool
}

type CResult struct {
	OK          bool
	Unspecified string
	Features    map[string]bool
}

type composer struct {
	g     *Graph
	unsp  string
	feat  map[string]bool
	steps int
}

func Accepts(g *Graph, doc *Value) CResult {
	c := &composer{g: g, feat: map[string]bool{}}
	ok := c.acc(g.Root, doc, g.KeysOptional, nil)
	return CResult{OK: ok, Unspecified: c.unsp, Features: c.feat}
}

func (c *composer) unspecified(s string) {
	if c.unsp == "" {
		c.unsp = s
	}
}

// aliasGuard is the list of type names being expanded at the same document position (a pure
// alias cycle accepts nothing).
func (c *composer) accType(name string, doc *Value, guard []string) bool {
	for _, g := range guard {
		if g == name {
			return false
		}
	}
	t, ok := c.g.Types[name]
	if !ok {
		c.unspecified("reference to a missing type")
		return false
	}
	// (a type created with KeysAreOptionalByDefault brings that default along, wherever it is used)
	return c.acc(t, doc, c.g.OptTypes[name], append(guard, name))
}

func kindNameMatches(kind string, doc *Value, orMember bool) (bool, string) {
	switch kind {
	case "string":
		return doc.Kind == KString, ""
	case "boolean":
		return doc.Kind == KTrue || doc.Kind == KFalse, ""
	case "null":
		return doc.Kind == KNull, ""
	case "object":
		return doc.Kind == KObject, ""
	case "array":
		return doc.Kind == KArray, ""
	case "any":
		return true, ""
	case "integer", "float":
		if doc.Kind != KNumber {
			return false, ""
		}
		isInt, disputed := NumberIsInteger(doc.Tok)
		if disputed {
			return false, "d.000-numeral-against-a-numeric-kind-name"
		}
		if kind == "integer" {
			return isInt, ""
		}
		if isInt {
			if orMember {
				return true, "" // integer where a float is expected (C01 kind rule)
			}
			return false, "additionalProperties-float-with-an-integer-value"
		}
		return true, ""
	}
	return false, "kind name outside the judged set: " + kind
}

func (c *composer) acc(n *SNode, doc *Value, keysOpt bool, guard []string) bool {
	c.steps++
	if doc.Kind == KNull {
		if v, ok := n.BoolRule("nullable"); ok && v {
			return true
		}
	}
	if n.Kind == SRef {
		if len(n.Names) > 1 {
			c.feat["position-with-alternatives"] = true
		}
		for i, name := range n.Names {
			if c.accType(name, doc, guard) {
				if i > 0 {
					c.feat["accepted-through-non-first-alternative"] = true
				}
				return true
			}
		}
		return false
	}
	if t := n.TypeName(); strings.HasPrefix(t, "@") {
		c.feat["type-rule-reference"] = true
		return c.accType(t, doc, guard)
	}
	if or := n.Rule("or"); or != nil {
		c.feat["position-with-alternatives"] = true
		for i, it := range or.Or {
			ok := false
			switch {
			case strings.HasPrefix(it.Name, "@"):
				ok = c.accType(it.Name, doc, guard)
			case it.Name != "":
				var u string
				ok, u = kindNameMatches(it.Name, doc, true)
				if u != "" {
					c.unspecified(u)
				}
			default:
				ok = c.accRuleSet(it.Rules, doc, guard)
			}
			if ok {
				if i > 0 {
					c.feat["accepted-through-non-first-alternative"] = true
				}
				return true
			}
		}
		return false
	}
	if n.IsAny() {
		return true
	}
	switch n.Kind {
	case SLit:
		v := Scalar(n, doc)
		if v.Unspecified != "" {
			c.unspecified(v.Unspecified)
		}
		return v.Accept
	case SArr:
		if doc.Kind != KArray {
			return false
		}
		if r := n.Rule("minItems"); r != nil {
			if k, _ := strconv.Atoi(r.Tok); len(doc.Items) < k {
				return false
			}
		}
		if r := n.Rule("maxItems"); r != nil {
			if k, _ := strconv.Atoi(r.Tok); len(doc.Items) > k {
				return false
			}
		}
		if len(n.Items) == 0 {
			return len(doc.Items) == 0
		}
		ok := true
		for i, it := range doc.Items {
			j := i
			if j >= len(n.Items) {
				j = len(n.Items) - 1
			}
			if !c.acc(n.Items[j], it, keysOpt, nil) {
				ok = false
			}
		}
		return ok
	case SObj:
		return c.accObject(n, doc, keysOpt)
	}
	return false
}

// accRuleSet evaluates an inline rule set of an `or` ({type: "integer", min: 0} / {enum: [...]}).
func (c *composer) accRuleSet(rules []SRule, doc *Value, guard []string) bool {
	pseudo := &SNode{Kind: SLit, Rules: rules}
	t := pseudo.TypeName()
	if strings.HasPrefix(t, "@") {
		if v, ok := pseudo.BoolRule("nullable"); ok && v && doc.Kind == KNull {
			c.feat["rule-set-reference-with-nullable"] = true
			return true // {type: "@T", nullable: true}
		}
		return c.accType(t, doc, guard)
	}
	switch t {
	case "object":
		// an object alternative without example: no key is named, additionalProperties decides all
		for _, r := range rules {
			if r.Name != "type" && r.Name != "additionalProperties" && r.Name != "nullable" {
				c.unspecified("object rule set with rule " + r.Name)
				return false
			}
		}
		if v, ok := pseudo.BoolRule("nullable"); ok && v && doc.Kind == KNull {
			c.feat["rule-set-object-alternative-nullable"] = true
			return true // "plus null when nullable:true"
		}
		if doc.Kind != KObject {
			return false
		}
		c.feat["rule-set-object-alternative"] = true
		for _, m := range doc.Members {
			if !c.accAdditional(pseudo.Rule("additionalProperties"), m.Val) {
				return false
			}
		}
		return true
	case "integer":
		pseudo.Lit, pseudo.Tok = KNumber, "0"
	case "float", "decimal":
		pseudo.Lit, pseudo.Tok = KNumber, "0.5"
	case "string", "email", "uri", "uuid", "date", "datetime":
		pseudo.Lit, pseudo.Tok = KString, `""`
	case "boolean":
		pseudo.Lit, pseudo.Tok = KTrue, "true"
	case "null":
		pseudo.Lit, pseudo.Tok = KNull, "null"
	case "enum", "":
		if pseudo.Rule("enum") == nil {
			c.unspecified("inline rule set without type or enum")
			return false
		}
		pseudo.Lit, pseudo.Tok = KNull, "null"
	default:
		c.unspecified("inline rule set with type " + t)
		return false
	}
	v := Scalar(pseudo, doc)
	if v.Unspecified != "" {
		c.unspecified(v.Unspecified)
	}
	return v.Accept
}

type mergedProp struct {
	p         *SProp
	keysOpt   bool // optionality default of the text that declared it
	inherited bool
}

// merge returns own + transitively inherited properties and the effective additionalProperties.
func (c *composer) merge(n *SNode, keysOpt bool, inherited bool, seen map[string]bool) (props []mergedProp, ap *SRule) {
	ap = n.Rule("additionalProperties")
	for i := range n.Props {
		props = append(props, mergedProp{&n.Props[i], keysOpt, inherited})
	}
	if r := n.Rule("allOf"); r != nil {
		for _, name := range r.AllOf {
			if seen[name] {
				c.unspecified("allOf cycle")
				continue
			}
			t, ok := c.g.Types[name]
			if !ok || t.Kind != SObj {
				c.unspecified("allOf of a missing or non-object type")
				continue
			}
			seen[name] = true
			pp, pap := c.merge(t, c.g.OptTypes[name], true, seen)
			delete(seen, name)
			props = append(props, pp...)
			if ap == nil {
				ap = pap
			}
		}
	}
	return
}

func (c *composer) keyTypeAccepts(name, key string) bool {
	return c.keyTypeAcceptsVia(name, key, nil)
}

// KeyTypeAccepts: does the string type name (a key-shortcut type) accept key? judged=false when
// the statement does not settle it.
func KeyTypeAccepts(g *Graph, name, key string) (accepts, judged bool) {
	c := &composer{g: g, feat: map[string]bool{}}
	ok := c.keyTypeAccepts(name, key)
	return ok, c.unsp == ""
}

func (c *composer) keyTypeAcceptsVia(name, key string, path []string) bool {
	for _, p := range path {
		if p == name {
			return false // a list that leads back to a type being resolved adds nothing
		}
	}
	t, ok := c.g.Types[name]
	if ok && t.Kind == SRef && len(t.Rules) == 0 {
		// the key type is a reference or a list of string types: union
		c.feat["shortcut-key-type-is-a-reference"] = true
		for _, n := range t.Names {
			if c.keyTypeAcceptsVia(n, key, append(path, name)) {
				return true
			}
		}
		return false
	}
	if !ok || t.Kind != SLit || t.Lit != KString {
		c.unspecified("key shortcut whose type is not a string type")
		return false
	}
	ruled := false
	for _, r := range t.Rules {
		switch r.Name {
		case "or", "allOf", "additionalProperties", "minItems", "maxItems":
			c.unspecified("key type with rule " + r.Name)
		default:
			ruled = true
		}
	}
	if !ruled {
		// rule-less key type: only "the example key itself is admitted" is pinned (DESIGN §4)
		if key == t.Str {
			return true
		}
		c.unspecified("rule-less key type against another key")
		return false
	}
	v := Scalar(t, &Value{Kind: KString, Str: key})
	if v.Unspecified != "" {
		c.unspecified(v.Unspecified)
	}
	return v.Accept
}

func (c *composer) accObject(n *SNode, doc *Value, keysOpt bool) bool {
	if doc.Kind != KObject {
		return false
	}
	props, ap := c.merge(n, keysOpt, false, map[string]bool{})
	seen := map[*SProp]bool{}
	ok := true
	for _, m := range doc.Members {
		var hit *mergedProp
		for i := range props {
			if !props[i].p.Shortcut && props[i].p.Key == m.Key {
				hit = &props[i]
				break
			}
		}
		if hit == nil {
			matches := 0
			for i := range props {
				if props[i].p.Shortcut && c.keyTypeAccepts(props[i].p.Key, m.Key) {
					matches++
					if hit == nil {
						hit = &props[i]
					}
				}
			}
			if matches > 1 {
				c.unspecified("key matches two key shortcuts")
			}
			if hit != nil {
				c.feat["shortcut-key"] = true
			}
		}
		if hit != nil {
			if hit.inherited {
				c.feat["allOf-inherited-key"] = true
			}
			seen[hit.p] = true
			if !c.acc(hit.p.Val, m.Val, hit.keysOpt, nil) {
				ok = false
			}
			continue
		}
		// a key the example does not name: additionalProperties decides
		c.feat["additionalProperties-decision"] = true
		if !c.accAdditional(ap, m.Val) {
			ok = false
		}
	}
	for i := range props {
		p := props[i]
		req := !p.keysOpt
		if v, present := p.p.Val.BoolRule("optional"); present {
			req = !v
		}
		if req && !seen[p.p] {
			if p.inherited {
				c.feat["allOf-inherited-key"] = true
			}
			ok = false
		}
	}
	return ok
}

func (c *composer) accAdditional(ap *SRule, v *Value) bool {
	if ap == nil {
		return false
	}
	tok := ap.Tok
	switch tok {
	case "false":
		return false
	case "true":
		return true
	}
	name := strings.Trim(tok, `"`)
	if strings.HasPrefix(name, "@") {
		return c.accType(name, v, nil)
	}
	ok, u := kindNameMatches(name, v, false)
	if u != "" {
		c.unspecified(u)
	}
	return ok
}
