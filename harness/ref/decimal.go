package ref

import (
	"math/big"
	"strings"
)

// Decimal is the exact value of an RFC 8259 numeral: (-1)^neg * mant * 10^exp10 with mant >= 0.
type Decimal struct {
	Neg   bool
	Mant  *big.Int
	Exp10 int64
}

// ParseDecimal parses a numeral token (own parser; the token must be a valid RFC 8259 number).
func ParseDecimal(tok string) (Decimal, bool) {
	if v, err := Parse([]byte(tok)); err != nil || v.Kind != KNumber || v.Begin != 0 || v.End != len(tok)-1 {
		return Decimal{}, false
	}
	s := tok
	d := Decimal{}
	if s[0] == '-' {
		d.Neg = true
		s = s[1:]
	}
	exp := int64(0)
	if i := strings.IndexAny(s, "eE"); i >= 0 {
		e := s[i+1:]
		s = s[:i]
		sign := int64(1)
		if e[0] == '+' {
			e = e[1:]
		} else if e[0] == '-' {
			sign = -1
			e = e[1:]
		}
		// exponents beyond 18 digits are clamped (generators stay far below)
		for _, c := range e {
			if exp < 1e15 {
				exp = exp*10 + int64(c-'0')
			}
		}
		exp *= sign
	}
	if i := strings.IndexByte(s, '.'); i >= 0 {
		frac := s[i+1:]
		s = s[:i] + frac
		exp -= int64(len(frac))
	}
	d.Mant, _ = new(big.Int).SetString(s, 10)
	d.Exp10 = exp
	// normalise: strip factors of ten from the mantissa; zero is +0 * 10^0
	if d.Mant.Sign() == 0 {
		d.Neg = false
		d.Exp10 = 0
		return d, true
	}
	ten := big.NewInt(10)
	q, r := new(big.Int), new(big.Int)
	for {
		q.QuoRem(d.Mant, ten, r)
		if r.Sign() != 0 {
			break
		}
		d.Mant.Set(q)
		d.Exp10++
	}
	return d, true
}

// Rat returns the exact rational value (only for moderate exponents).
func (d Decimal) Rat() *big.Rat {
	r := new(big.Rat).SetInt(d.Mant)
	p := new(big.Int).Exp(big.NewInt(10), big.NewInt(abs64(d.Exp10)), nil)
	if d.Exp10 >= 0 {
		r.Mul(r, new(big.Rat).SetInt(p))
	} else {
		r.Quo(r, new(big.Rat).SetInt(p))
	}
	if d.Neg {
		r.Neg(r)
	}
	return r
}

func abs64(x int64) int64 {
	if x < 0 {
		return -x
	}
	return x
}

// Cmp compares two decimals exactly.
func (d Decimal) Cmp(o Decimal) int {
	return d.Rat().Cmp(o.Rat())
}

// FractionDigits is the number of digits after the point in the normalised expansion.
func (d Decimal) FractionDigits() int64 {
	if d.Exp10 >= 0 {
		return 0
	}
	return -d.Exp10
}

func (d Decimal) IsInteger() bool { return d.Exp10 >= 0 }

func (d Decimal) IsZero() bool { return d.Mant.Sign() == 0 }

// Expansion renders the normalised plain decimal expansion (no exponent, no trailing zeros,
// "-" only for non-zero negatives).
func (d Decimal) Expansion() string {
	s := d.Mant.String()
	if d.Exp10 >= 0 {
		s += strings.Repeat("0", int(d.Exp10))
	} else {
		f := int(-d.Exp10)
		if len(s) <= f {
			s = strings.Repeat("0", f-len(s)+1) + s
		}
		s = s[:len(s)-f] + "." + s[len(s)-f:]
	}
	if d.Neg {
		s = "-" + s
	}
	return s
}

// DisputedIntegerSpelling reports the one spelling on which "integer" is contested (DESIGN §4):
// a `.` with an all-zero fraction and no exponent, e.g. 1.0 / 12.000 – the library (and the
// README) treat these as floats, the "normalised expansion" reading as integers.
func DisputedIntegerSpelling(tok string) bool {
	if strings.ContainsAny(tok, "eE") {
		return false
	}
	i := strings.IndexByte(tok, '.')
	if i < 0 {
		return false
	}
	return strings.Trim(tok[i+1:], "0") == ""
}
