// Package run is the bookkeeping shared by all property packages: counters, distinctness,
// samples, known-finding matchers, failure capture (-> replay files) and replay dispatch.
//
// A property package does:
//
//	func TestMain(m *testing.M) { run.Main(m, "C05") }
//	func init() { run.RegisterReplay("json-accept", replayFn) }
//	... inside a property:  run.Eval("json-accept", nontrivial, key) ; run.Fail(t, "json-accept", caseValue, "msg")
//
// Everything is written to the file named by $VERIF_OUT when the process ends; the driver
// (/verif/check) merges the shard files, writes the evidence and prints verdict lines.
package run

import (
	"encoding/json"
	"fmt"
	"hash/fnv"
	"os"
	"path/filepath"
	"sort"
	"strconv"
	"strings"
	"sync"
	"testing"
)

// TB is the subset of testing.TB / rapid.TB that the oracles need.
type TB interface {
	Helper()
	Fatalf(format string, args ...any)
	Logf(format string, args ...any)
}

type Failure struct {
	Check   string          `json:"check"`
	Case    json.RawMessage `json:"case"`
	Message string          `json:"message"`
}

type KnownFinding struct {
	Property string          `json:"property"`
	ID       string          `json:"id"`
	Status   string          `json:"status"` // "known" | "fixed"
	Check    string          `json:"check,omitempty"`
	Witness  json.RawMessage `json:"witness,omitempty"` // a case for Check
	// Witnesses: further (check, case) pairs of the same root cause (e.g. API-level and unit-level)
	Witnesses []Witness `json:"witnesses,omitempty"`
	What      string    `json:"what"`
	Commit   string          `json:"commit,omitempty"`
}

type Witness struct {
	Check string          `json:"check"`
	Case  json.RawMessage `json:"case"`
}

type stats struct {
	Property    string              `json:"property"`
	Tier        string              `json:"tier"`
	Seed        int64               `json:"seed"`
	Shard       int                 `json:"shard"`
	Evaluations map[string]int64    `json:"evaluations"` // per check
	Nontrivial  map[string]int64    `json:"nontrivial"`  // per check, distinct
	Hashes      []uint64            `json:"hashes,omitempty"`
	HashesFull  bool                `json:"hashes_full"` // false when the cap was hit
	Labels      map[string]int64    `json:"labels"`
	Excluded    map[string]int64    `json:"excluded"`
	Samples     map[string][]any    `json:"samples"`
	Failures    []Failure           `json:"failures"`
	KnownStill  []string            `json:"known_still_failing"`
	KnownGone   []string            `json:"known_no_longer_failing"`
	Exhaustive  map[string]string   `json:"exhaustive,omitempty"` // check -> description of the fully enumerated space
	Notes       []string            `json:"notes,omitempty"`
	Infra       []string            `json:"infra_errors,omitempty"`
	Completed   map[string]bool     `json:"completed"` // top-level tests that ran to the end
	Extra       map[string]any      `json:"extra,omitempty"`
	samplesSeen map[string]int64    `json:"-"`
	lastFail    map[string]*Failure `json:"-"`
}

var (
	mu       sync.Mutex
	st       = newStats()
	hashes   = map[uint64]struct{}{}
	hashCap  = 400000
	replays  = map[string]func(t TB, raw json.RawMessage){}
	known    []KnownFinding
	enabled  = map[string]bool{} // matcher id -> enabled
	Property string
)

func newStats() *stats {
	return &stats{
		Evaluations: map[string]int64{}, Nontrivial: map[string]int64{}, Labels: map[string]int64{},
		Excluded: map[string]int64{}, Samples: map[string][]any{}, samplesSeen: map[string]int64{},
		lastFail: map[string]*Failure{}, Exhaustive: map[string]string{}, Completed: map[string]bool{},
		Extra: map[string]any{}, HashesFull: true,
	}
}

func Tier() string {
	if v := os.Getenv("VERIF_TIER"); v != "" {
		return v
	}
	return "quick"
}

func Thorough() bool { return Tier() == "thorough" }

func Seed() int64 {
	v, err := strconv.ParseInt(os.Getenv("VERIF_SEED"), 10, 64)
	if err != nil {
		return 1
	}
	return v
}

func Shard() int {
	v, _ := strconv.Atoi(os.Getenv("VERIF_SHARD"))
	return v
}

func Shards() int {
	v, _ := strconv.Atoi(os.Getenv("VERIF_SHARDS"))
	if v < 1 {
		v = 1
	}
	return v
}

// Scale returns q in the quick tier and th in the thorough tier.
func Scale(q, th int) int {
	if Thorough() {
		return th
	}
	return q
}

func Hash(parts ...string) uint64 {
	h := fnv.New64a()
	for _, p := range parts {
		h.Write([]byte(p))
		h.Write([]byte{0})
	}
	return h.Sum64()
}

// Eval counts one executed case of a check. key identifies the case for distinctness
// (only consulted when nontrivial is true).
func Eval(check string, nontrivial bool, key ...string) {
	mu.Lock()
	defer mu.Unlock()
	st.Evaluations[check]++
	if !nontrivial {
		return
	}
	h := Hash(append([]string{check}, key...)...)
	if _, ok := hashes[h]; ok {
		return
	}
	if len(hashes) >= hashCap {
		// cap reached: stop counting new distinct cases (conservative lower bound)
		st.HashesFull = false
		return
	}
	hashes[h] = struct{}{}
	st.Nontrivial[check]++
}

func EvalN(check string, n int64) {
	mu.Lock()
	st.Evaluations[check] += n
	mu.Unlock()
}

func Label(l string) {
	mu.Lock()
	st.Labels[l]++
	mu.Unlock()
}

func LabelN(l string, n int64) {
	mu.Lock()
	st.Labels[l] += n
	mu.Unlock()
}

func Excluded(reason string) {
	mu.Lock()
	st.Excluded[reason]++
	mu.Unlock()
}

// Avoided counts a generator draw that was steered around a recorded finding.
func Avoided(reason string) { Excluded("avoided-by-construction:" + reason) }

func Note(format string, args ...any) {
	mu.Lock()
	st.Notes = append(st.Notes, fmt.Sprintf(format, args...))
	mu.Unlock()
}

func Infra(format string, args ...any) {
	mu.Lock()
	st.Infra = append(st.Infra, fmt.Sprintf(format, args...))
	mu.Unlock()
}

func Extra(k string, v any) {
	mu.Lock()
	st.Extra[k] = v
	mu.Unlock()
}

func Exhaustive(check, what string) {
	mu.Lock()
	st.Exhaustive[check] = what
	mu.Unlock()
}

// Sample keeps up to 6 cases per check: the first two, then reservoir-ish by powers of two.
func Sample(check string, v any) {
	mu.Lock()
	defer mu.Unlock()
	n := st.samplesSeen[check]
	st.samplesSeen[check] = n + 1
	s := st.Samples[check]
	if len(s) < 3 {
		st.Samples[check] = append(s, v)
		return
	}
	// replace slot at n = 2^k * 100 to spread samples over the run
	if n >= 64 && n&(n-1) == 0 {
		slot := 3 + int(bitlen(uint64(n)))%3
		for len(s) <= slot {
			s = append(s, v)
		}
		s[slot] = v
		st.Samples[check] = s
	}
}

func bitlen(x uint64) int {
	n := 0
	for x > 0 {
		n++
		x >>= 1
	}
	return n
}

// KnownEnabled reports whether the matcher for known finding id is active in this run
// (listed with status "known" and its witness still fails).
func KnownEnabled(id string) bool {
	mu.Lock()
	defer mu.Unlock()
	return enabled[id]
}

// MatchKnown is called by an oracle that observed a deviation which one of the narrow
// matchers claims. It counts the case as excluded. Returns true when the finding is active.
func MatchKnown(id string) bool {
	mu.Lock()
	defer mu.Unlock()
	if !enabled[id] {
		return false
	}
	st.Excluded["known:"+id]++
	return true
}

// Fail records the failing case (the last one recorded per check is the shrunk one, because
// rapid re-executes the property on the minimal input last) and fails the test.
func Fail(t TB, check string, c any, format string, args ...any) {
	t.Helper()
	raw, err := json.Marshal(c)
	if err != nil {
		raw, _ = json.Marshal(fmt.Sprintf("%#v", c))
	}
	msg := fmt.Sprintf(format, args...)
	mu.Lock()
	st.lastFail[check] = &Failure{Check: check, Case: raw, Message: msg}
	mu.Unlock()
	t.Fatalf("[%s] %s\ncase: %s", check, msg, trunc(string(raw), 2000))
}

// RaceLogSize returns the total size of the race detector's log files (GORACE log_path=...), so
// that a test can attribute a report to the plan during which the log grew.
func RaceLogSize() int64 {
	var n int64
	for _, m := range raceLogs() {
		if st, err := os.Stat(m); err == nil {
			n += st.Size()
		}
	}
	return n
}

func raceLogs() []string {
	pat := ""
	for _, kv := range strings.Fields(os.Getenv("GORACE")) {
		if strings.HasPrefix(kv, "log_path=") {
			pat = strings.TrimPrefix(kv, "log_path=")
		}
	}
	if pat == "" {
		return nil
	}
	ms, _ := filepath.Glob(pat + "*")
	return ms
}

// RaceLogTail returns the beginning of the first non-empty race log.
func RaceLogTail() string {
	for _, m := range raceLogs() {
		if b, err := os.ReadFile(m); err == nil && len(b) > 0 {
			if len(b) > 3000 {
				b = b[:3000]
			}
			return string(b)
		}
	}
	return ""
}

// WriteAhead stores the case that is about to be executed next to the stats file, so that the
// driver can attribute a fatal crash of this process (stack overflow, out of memory) to it.
func WriteAhead(check string, c any) {
	out := os.Getenv("VERIF_OUT")
	if out == "" {
		return
	}
	raw, _ := json.Marshal(c)
	b, _ := json.Marshal(Failure{Check: check, Case: raw})
	aheadMu.Lock()
	defer aheadMu.Unlock()
	if aheadFile == nil {
		f, err := os.OpenFile(out+".current", os.O_CREATE|os.O_RDWR|os.O_TRUNC, 0o644)
		if err != nil {
			return
		}
		aheadFile = f
	}
	// one open file rewritten in place: cheap enough to do for every case
	aheadFile.WriteAt(b, 0)
	aheadFile.Truncate(int64(len(b)))
}

var (
	aheadMu   sync.Mutex
	aheadFile *os.File
)

// ClearAhead: no case is in flight (an empty file).
func ClearAhead() {
	aheadMu.Lock()
	defer aheadMu.Unlock()
	if aheadFile != nil {
		aheadFile.Truncate(0)
	}
}

// FailAndExit records a failure that cannot be reported through the test framework (a call that
// does not return) and ends the process; the driver picks the failure up from the stats file.
func FailAndExit(check string, c any, format string, args ...any) {
	raw, _ := json.Marshal(c)
	mu.Lock()
	st.Failures = append(st.Failures, Failure{Check: check, Case: raw, Message: fmt.Sprintf(format, args...)})
	mu.Unlock()
	write()
	os.Exit(1)
}

func trunc(s string, n int) string {
	if len(s) > n {
		return s[:n] + "…"
	}
	return s
}

// Done must be deferred at the top of every top-level test: it turns the last recorded
// failure of the listed checks into a reported failure if the test failed, and marks
// completion otherwise.
func Done(t *testing.T, checks ...string) {
	mu.Lock()
	defer mu.Unlock()
	if r := recover(); r != nil {
		st.Infra = append(st.Infra, fmt.Sprintf("test %s panicked: %v", t.Name(), r))
		panic(r)
	}
	if t.Failed() {
		found := false
		for _, c := range checks {
			if f := st.lastFail[c]; f != nil {
				st.Failures = append(st.Failures, *f)
				delete(st.lastFail, c)
				found = true
			}
		}
		if !found {
			st.Infra = append(st.Infra, fmt.Sprintf("test %s failed without a recorded case", t.Name()))
		}
		return
	}
	if !t.Skipped() {
		st.Completed[t.Name()] = true
	}
}

func RegisterReplay(check string, fn func(t TB, raw json.RawMessage)) {
	replays[check] = fn
}

type probeTB struct {
	failed bool
	msg    string
}

func (p *probeTB) Helper() {}
func (p *probeTB) Fatalf(format string, args ...any) {
	p.failed = true
	p.msg = fmt.Sprintf(format, args...)
	panic(probeAbort{})
}
func (p *probeTB) Logf(format string, args ...any) {}

type probeAbort struct{}

// Probe runs fn with a TB that captures failure instead of failing a test.
func Probe(fn func(t TB)) (failed bool, msg string) {
	p := &probeTB{}
	func() {
		defer func() {
			if r := recover(); r != nil {
				if _, ok := r.(probeAbort); ok {
					return
				}
				p.failed = true
				p.msg = fmt.Sprintf("panic: %v", r)
			}
		}()
		fn(p)
	}()
	return p.failed, p.msg
}

func loadKnown(prop string) {
	path := os.Getenv("VERIF_KNOWN")
	if path == "" {
		path = "/verif/known_findings.json"
	}
	b, err := os.ReadFile(path)
	if err != nil {
		return
	}
	var all []KnownFinding
	if err := json.Unmarshal(b, &all); err != nil {
		st.Infra = append(st.Infra, "known_findings.json: "+err.Error())
		return
	}
	for _, k := range all {
		if k.Property == prop && k.Status == "known" {
			known = append(known, k)
		}
	}
}

// replayKnown runs every known witness with all matchers disabled. A witness that still
// fails enables its matcher; one that passes leaves it disabled (strict oracle again).
func replayKnown() {
	for _, k := range known {
		ws := k.Witnesses
		if k.Check != "" {
			ws = append([]Witness{{k.Check, k.Witness}}, ws...)
		}
		tried, failedAny := 0, false
		for _, w := range ws {
			fn := replays[w.Check]
			if fn == nil {
				continue // a witness for another package of this property
			}
			tried++
			w := w
			if failed, _ := Probe(func(t TB) { fn(t, w.Case) }); failed {
				failedAny = true
			}
		}
		if tried == 0 {
			continue
		}
		if failedAny {
			st.KnownStill = append(st.KnownStill, k.ID)
		} else {
			st.KnownGone = append(st.KnownGone, k.ID)
		}
	}
	for _, id := range st.KnownStill {
		enabled[id] = true
	}
	// the witnesses' own bookkeeping must not pollute the run's counters
	keepStill, keepGone, infra := st.KnownStill, st.KnownGone, st.Infra
	st = newStats()
	st.KnownStill, st.KnownGone, st.Infra = keepStill, keepGone, infra
	hashes = map[uint64]struct{}{}
}

// Main is the TestMain body.
func Main(m *testing.M, prop string) {
	Property = prop
	loadKnown(prop)
	if os.Getenv("VERIF_KNOWN_PROBE") == "1" {
		// probe mode (started once per check by the driver): replay the recorded witnesses with all
		// matchers off, report which still fail, run no test
		replayKnown()
		st.Property = prop
		write()
		os.Exit(0)
	}
	if ids, ok := os.LookupEnv("VERIF_KNOWN_ENABLED"); ok {
		for _, id := range strings.Split(ids, ",") {
			if id != "" {
				enabled[id] = true
			}
		}
	} else {
		replayKnown()
	}
	st.Property, st.Tier, st.Seed, st.Shard = prop, Tier(), Seed(), Shard()
	code := m.Run()
	write()
	os.Exit(code)
}

func write() {
	mu.Lock()
	defer mu.Unlock()
	out := os.Getenv("VERIF_OUT")
	if out == "" {
		return
	}
	if st.HashesFull || len(hashes) > 0 {
		st.Hashes = make([]uint64, 0, len(hashes))
		for h := range hashes {
			st.Hashes = append(st.Hashes, h)
		}
		sort.Slice(st.Hashes, func(i, j int) bool { return st.Hashes[i] < st.Hashes[j] })
	}
	b, err := json.Marshal(st)
	if err != nil {
		b = []byte(fmt.Sprintf(`{"infra_errors":[%q]}`, err.Error()))
	}
	tmp := out + ".tmp"
	if err := os.WriteFile(tmp, b, 0o644); err == nil {
		os.Rename(tmp, out)
	}
}

// TestReplay is called from each package's TestReplay test: it loads $VERIF_REPLAY and feeds
// it to the registered oracle with no generator in the loop.
func TestReplay(t *testing.T) {
	path := os.Getenv("VERIF_REPLAY")
	if path == "" {
		t.Skip("no VERIF_REPLAY")
	}
	b, err := os.ReadFile(path)
	if err != nil {
		t.Fatalf("replay file: %v", err)
	}
	var f Failure
	if err := json.Unmarshal(b, &f); err != nil {
		t.Fatalf("replay file: %v", err)
	}
	fn := replays[f.Check]
	if fn == nil {
		t.Fatalf("no replay function for check %q (have %s)", f.Check, strings.Join(replayNames(), ","))
	}
	defer Done(t, f.Check)
	fn(t, f.Case)
}

func replayNames() []string {
	var s []string
	for k := range replays {
		s = append(s, k)
	}
	sort.Strings(s)
	return s
}

// Replaying reports whether the process was started to replay a file (generators are skipped).
func Replaying() bool { return os.Getenv("VERIF_REPLAY") != "" }

// SkipIfReplaying is called at the top of every generator-driven test.
func SkipIfReplaying(t *testing.T) {
	if Replaying() {
		t.Skip("replay mode")
	}
}
