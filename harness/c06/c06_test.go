package c06

import (
	"encoding/json"
	"errors"
	"fmt"
	libbytes "github.com/jsightapi/jsight-schema-go-library/bytes"
	"io"
	"strings"
	"testing"
	"unicode/utf8"

	"pgregory.net/rapid"

	libjson "github.com/jsightapi/jsight-schema-go-library/formats/json"

	"verif/gen"
	"verif/lex"
	"verif/ref"
	"verif/run"
)

func TestMain(m *testing.M) { gen.AvoidZeroExp = false; run.Main(m, "C06") }

const chk = "doc-events"

type Case struct {
	Input string `json:"input"`
	Hex   string `json:"hex,omitempty"`
	// Before: what the Document object was used for before the rest of the events was read: "next:<k>"
	// reads k events (they are the beginning of the judged sequence), "len" and "check" call Len /
	// Check (which leave the event stream alone)
	Before []string `json:"before,omitempty"`
}

func mk(in []byte, before ...string) Case {
	if utf8.Valid(in) {
		return Case{Input: string(in), Before: before}
	}
	return Case{Hex: fmt.Sprintf("%x", in), Before: before}
}

func (c Case) bytes() []byte {
	if c.Hex != "" {
		var b []byte
		fmt.Sscanf(c.Hex, "%x", &b)
		return b
	}
	return []byte(c.Input)
}

func init() {
	run.RegisterReplay(chk, func(t run.TB, raw json.RawMessage) {
		var c Case
		if err := json.Unmarshal(raw, &c); err != nil {
			t.Fatalf("bad case: %v", err)
		}
		check(t, c.bytes(), c.Before...)
	})
}

// events drains NextLexeme. A panic or a non-EOF error is returned as msg.
func events(in []byte, before ...string) (evs []lex.Ev, msg string) {
	defer func() {
		if r := recover(); r != nil {
			msg = fmt.Sprintf("NextLexeme panicked: %v", r)
		}
	}()
	// "other-check:<text>" / "other-len:<text>": Check / Len of ANOTHER document (mostly a broken one)
	// - nothing that happens to another document may change what this one delivers; the ones at
	// the head of the history run before this document is created
	other := func(op string) bool {
		for _, pre := range []string{"other-check:", "other-len:"} {
			if strings.HasPrefix(op, pre) {
				o := libjson.New("other", []byte(strings.TrimPrefix(op, pre)))
				func() {
					defer func() { _ = recover() }()
					if pre == "other-check:" {
						_ = o.Check()
					} else {
						_, _ = o.Len()
					}
				}()
				return true
			}
		}
		return false
	}
	for len(before) > 0 && other(before[0]) {
		before = before[1:]
	}
	d := libjson.New("doc", in)
	// what a consumer does with the token it was handed is its own business: appending to it (to
	// join tokens, to terminate them) must not reach the text the events are read from
	scribble := func(v libbytes.Bytes) {
		if len(v) > 0 {
			_ = append(v, ';')
			_ = append(v, ';', '0')
			// ... and so for the views of the token the library offers: without its quotes, without
			// its brackets, without the blanks around it
			if u := v.Unquote(); len(u) > 0 {
				_ = append(u, '!')
			}
			if u := v.TrimSquareBrackets(); len(u) > 0 {
				_ = append(u, '!')
			}
			if u := v.TrimSpaces(); len(u) > 0 {
				_ = append(u, '!')
			}
		}
	}
	conv := func(typ string, begin, end int, value func() []byte) (lex.Ev, string) {
		e := lex.Ev{Type: typ, Begin: begin, End: end}
		if e.Begin >= 0 && e.End < len(in) && e.Begin <= e.End {
			if string(value()) != string(in[e.Begin:e.End+1]) {
				return e, fmt.Sprintf("event %v: Value() is not the source slice", e)
			}
		}
		return e, ""
	}
	// Len and Check neither consume events nor restart the stream: the events read before, between
	// and after them are, together, the event sequence of the text
	for _, op := range before {
		switch {
		case other(op):
		case op == "len":
			if _, err := d.Len(); err != nil {
				return nil, fmt.Sprintf("Len returned %v for a valid JSON text", err)
			}
		case op == "check":
			if err := d.Check(); err != nil {
				return nil, fmt.Sprintf("Check returned %v for a valid JSON text", err)
			}
		default:
			k := 0
			fmt.Sscanf(op, "next:%d", &k)
			for i := 0; i < k; i++ {
				l, err := d.NextLexeme()
				if err != nil {
					break
				}
				e, m := conv(l.Type().String(), int(l.Begin()), int(l.End()), func() []byte { return l.Value() })
				if m != "" {
					return evs, m
				}
				scribble(l.Value())
				evs = append(evs, e)
			}
		}
	}
	for i := 0; ; i++ {
		l, err := d.NextLexeme()
		if err != nil {
			if errors.Is(err, io.EOF) {
				// after EOF the stream stays at EOF
				if _, err2 := d.NextLexeme(); !errors.Is(err2, io.EOF) {
					return evs, fmt.Sprintf("NextLexeme after io.EOF returned %v", err2)
				}
				return evs, ""
			}
			return evs, fmt.Sprintf("NextLexeme returned error %v after %d events", err, len(evs))
		}
		e, m := conv(l.Type().String(), int(l.Begin()), int(l.End()), func() []byte { return l.Value() })
		if m != "" {
			return evs, m
		}
		scribble(l.Value())
		evs = append(evs, e)
		if i > 10*len(in)+100 {
			return evs, "event stream does not terminate"
		}
	}
}

// check: in must be a valid JSON text; the model is obtained by the reference parser.
func check(t run.TB, in []byte, before ...string) {
	model, perr := ref.Parse(in)
	if perr != nil {
		t.Fatalf("harness bug: input is not valid JSON: %v", perr)
	}
	after := ""
	if len(before) > 0 {
		after = fmt.Sprintf(" [events read through the history %v on one Document]", before)
	}
	got, msg := events(in, before...)
	if msg != "" {
		run.Fail(t, chk, mk(in, before...), "%s%s", msg, after)
	}
	if m := lex.Compare(got, lex.Expected(model), len(in)); m != "" {
		run.Fail(t, chk, mk(in, before...), "%s%s", m, after)
	}
	rebuilt, m := lex.Rebuild(got, in)
	if m != "" {
		run.Fail(t, chk, mk(in, before...), "cannot rebuild the value from the events: %s%s", m, after)
	}
	if !gen.Equal(rebuilt, model, false) {
		run.Fail(t, chk, mk(in, before...), "value rebuilt from the events differs from the JSON value%s", after)
	}
}

func nontrivial(model *ref.Value, text []byte) bool {
	if model.Kind != ref.KObject && model.Kind != ref.KArray {
		return false
	}
	s := string(text)
	last := text[len(text)-1]
	return strings.Contains(s, "\\") || !isASCII(s) || strings.ContainsAny(s, "eE") && strings.ContainsAny(s, "0123456789") ||
		strings.Contains(s, "{}") || strings.Contains(s, "[]") || (last >= '0' && last <= '9')
}

func isASCII(s string) bool {
	for i := 0; i < len(s); i++ {
		if s[i] >= 0x80 {
			return false
		}
	}
	return true
}

func TestDocEvents(t *testing.T) {
	run.SkipIfReplaying(t)
	defer run.Done(t, chk)
	rapid.Check(t, func(t *rapid.T) {
		depth := rapid.IntRange(0, 8).Draw(t, "depth")
		width := rapid.IntRange(0, 8).Draw(t, "width")
		model := gen.Value(t, gen.DocOpts{Depth: depth, Width: width, Exp: true, StrLen: 8, DupKeys: true, RootContainer: rapid.IntRange(0, 3).Draw(t, "rootc") > 0}, "v")
		text := gen.Print(model, gen.RapidBlanks(t, "ws"))
		// the printer's spans and the reference parser's spans must agree (two-oracle cross-check)
		parsed, perr := ref.Parse(text)
		if perr != nil || !gen.Equal(parsed, model, true) {
			run.Infra("printer/reference disagreement on %q", text)
			t.Fatalf("printer/reference disagreement on %q", text)
		}
		check(t, text)
		run.Eval(chk, nontrivial(model, text), string(text))
		run.Sample(chk, mk(text))
		// reads interleaved with Len and Check on the same Document
		if rapid.IntRange(0, 1).Draw(t, "reuse") == 0 {
			var before []string
			broken := []string{`{"ok": tru`, `["first", "secon`, `[1, -]`, `{"a": 1.}`, `[1`, `"abc`, `[nul`, `{"k": -`, `12e`, ``, `[1, 2]`}
			for i, n := 0, rapid.IntRange(1, 5).Draw(t, "nops"); i < n; i++ {
				switch rapid.IntRange(0, 5).Draw(t, "op") {
				case 4:
					before = append(before, "other-check:"+rapid.SampledFrom(broken).Draw(t, "brokenCheck"))
				case 5:
					before = append(before, "other-len:"+rapid.SampledFrom(broken).Draw(t, "brokenLen"))
				case 0:
					before = append(before, "len")
				case 1:
					before = append(before, "check")
				default:
					before = append(before, fmt.Sprintf("next:%d", rapid.IntRange(1, 24).Draw(t, "k")))
				}
			}
			check(t, text, before...)
			run.Eval(chk, false)
			run.Label("reads-interleaved-with-len-and-check")
		}
		if model.Kind != ref.KObject && model.Kind != ref.KArray {
			run.Label("top-level-scalar")
			if c := text[len(text)-1]; c >= '0' && c <= '9' {
				run.Label("number-is-last-byte")
			}
		} else {
			run.Label("top-level-container")
		}
	})
}

// Bounded-exhaustive: every valid JSON text among all strings of <= N symbols of a small alphabet.
func TestDocEventsExhaustive(t *testing.T) {
	run.SkipIfReplaying(t)
	defer run.Done(t, chk)
	if run.Shard() != 0 {
		t.Skip("shard 0 only")
	}
	alphabet := []string{"{", "}", "[", "]", ":", ",", `"a"`, `"\n"`, "1", "-0.5e1", " ", "true", "null"}
	maxLen := run.Scale(6, 7)
	n := 0
	var rec func(buf []byte, depth int)
	rec = func(buf []byte, depth int) {
		for _, sym := range alphabet {
			nb := append(append([]byte(nil), buf...), sym...)
			if model, err := ref.Parse(nb); err == nil {
				check(t, nb)
				run.Eval(chk, nontrivial(model, nb), string(nb))
				n++
			} else if !err.EOF && !err.Empty {
				continue // dead prefix: no extension is valid JSON
			}
			if depth+1 < maxLen {
				rec(nb, depth+1)
			}
		}
	}
	rec(nil, 0)
	run.LabelN("exhaustive-valid-texts", int64(n))
	run.Exhaustive(chk, fmt.Sprintf("every valid JSON text that is a concatenation of <= %d symbols from %q", maxLen, alphabet))
}

func FuzzLexemes(f *testing.F) {
	for _, s := range []string{`{"a":[1,2.5e-3,"x\n",true,false,null,{}]}`, `-0`, `0e1`, `[[],{}]`, ` "é" `, `{"":{"":[]}}`, `1E+2`} {
		f.Add([]byte(s))
	}
	f.Fuzz(func(t *testing.T, data []byte) {
		if len(data) > 4096 || !ref.Valid(data) {
			return
		}
		check(t, data)
	})
}

func TestReplay(t *testing.T) { run.TestReplay(t) }
