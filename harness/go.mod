module verif

go 1.23

require (
	github.com/jsightapi/jsight-schema-go-library v0.0.0
	golang.org/x/tools v0.29.0
	pgregory.net/rapid v1.3.0
)

require (
	github.com/lucasjones/reggen v0.0.0-20200904144131-37ba4fa293bb // indirect
	golang.org/x/mod v0.22.0 // indirect
	golang.org/x/sync v0.10.0 // indirect
)

replace github.com/jsightapi/jsight-schema-go-library => /repo
