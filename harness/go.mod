module verif

go 1.23

require (
	github.com/jsightapi/jsight-schema-go-library v0.0.0
	pgregory.net/rapid v1.3.0
)

replace github.com/jsightapi/jsight-schema-go-library => /repo
