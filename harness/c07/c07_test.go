package c07

import (
	"encoding/json"
	"errors"
	"fmt"
	"go/ast"
	"go/parser"
	"go/token"
	"io"
	"os"
	"path/filepath"
	"regexp"
	"strconv"
	"strings"
	"testing"
	"time"
	"unicode/utf8"

	"pgregory.net/rapid"

	jschema "github.com/jsightapi/jsight-schema-go-library"
	liberrors "github.com/jsightapi/jsight-schema-go-library/errors"
	libjson "github.com/jsightapi/jsight-schema-go-library/formats/json"
	"github.com/jsightapi/jsight-schema-go-library/fs"
	"github.com/jsightapi/jsight-schema-go-library/kit"
	js "github.com/jsightapi/jsight-schema-go-library/notations/jschema"
	libregex "github.com/jsightapi/jsight-schema-go-library/notations/regex"
	"github.com/jsightapi/jsight-schema-go-library/rules/enum"

	"verif/gen"
	"verif/lib"
	"verif/ref"
	"verif/run"
)

func TestMain(m *testing.M) { gen.AvoidZeroExp = false; run.Main(m, "C07") }

const (
	chk      = "api-totality"
	chkTable = "error-table"
)

// Case: byte strings in every role. Strings are stored as hex when not valid UTF-8.
type Case struct {
	Schema  string   `json:"schema"`
	Types   [][2]string `json:"types,omitempty"`  // name, text
	Regexes [][2]string `json:"regex_types,omitempty"`
	Enums   [][2]string `json:"enums,omitempty"`
	Docs    []string `json:"docs,omitempty"`
	Opt     bool     `json:"keys_optional,omitempty"`
	Hex     bool     `json:"hex,omitempty"` // every text above is hex-encoded
}

func (c Case) enc() Case {
	all := []string{c.Schema}
	for _, t := range c.Types {
		all = append(all, t[1])
	}
	for _, t := range c.Regexes {
		all = append(all, t[1])
	}
	for _, t := range c.Enums {
		all = append(all, t[1])
	}
	all = append(all, c.Docs...)
	ok := true
	for _, s := range all {
		if !utf8.ValidString(s) {
			ok = false
		}
	}
	if ok {
		return c
	}
	h := func(s string) string { return fmt.Sprintf("%x", s) }
	o := Case{Schema: h(c.Schema), Opt: c.Opt, Hex: true}
	for _, t := range c.Types {
		o.Types = append(o.Types, [2]string{t[0], h(t[1])})
	}
	for _, t := range c.Regexes {
		o.Regexes = append(o.Regexes, [2]string{t[0], h(t[1])})
	}
	for _, t := range c.Enums {
		o.Enums = append(o.Enums, [2]string{t[0], h(t[1])})
	}
	for _, d := range c.Docs {
		o.Docs = append(o.Docs, h(d))
	}
	return o
}

func (c Case) dec() Case {
	if !c.Hex {
		return c
	}
	u := func(s string) string {
		var b []byte
		fmt.Sscanf(s, "%x", &b)
		return string(b)
	}
	o := Case{Schema: u(c.Schema), Opt: c.Opt}
	for _, t := range c.Types {
		o.Types = append(o.Types, [2]string{t[0], u(t[1])})
	}
	for _, t := range c.Regexes {
		o.Regexes = append(o.Regexes, [2]string{t[0], u(t[1])})
	}
	for _, t := range c.Enums {
		o.Enums = append(o.Enums, [2]string{t[0], u(t[1])})
	}
	for _, d := range c.Docs {
		o.Docs = append(o.Docs, u(d))
	}
	return o
}

func init() {
	run.RegisterReplay(chk, func(t run.TB, raw json.RawMessage) {
		var c Case
		if err := json.Unmarshal(raw, &c); err != nil {
			t.Fatalf("bad case: %v", err)
		}
		session(t, c.dec())
	})
	run.RegisterReplay(chkTable, func(t run.TB, raw json.RawMessage) { checkTable(t) })
}

type problem struct{ msg string }

// sources maps file names to texts for the position clause.
type ctx struct {
	sources map[string]string
	probs   []string
	rendered int
}

// inputsContain: some text of the session (schema, type, rule, document) contains s itself.
func (x *ctx) inputsContain(s string) bool {
	for _, src := range x.sources {
		if strings.Contains(src, s) {
			return true
		}
	}
	return false
}

func (x *ctx) bad(format string, args ...any) { x.probs = append(x.probs, fmt.Sprintf(format, args...)) }

// call runs f, reporting a panic; every returned error is examined.
func (x *ctx) call(what string, f func() error) {
	var err error
	func() {
		defer func() {
			if r := recover(); r != nil {
				x.bad("%s panicked: %v", what, r)
			}
		}()
		err = f()
	}()
	if err != nil && !errors.Is(err, io.EOF) {
		x.examine(what, err)
	}
}

func (x *ctx) examine(what string, err error) {
	// the error value itself must expose code, message and position: a library error wrapped into a
	// fmt error exposes none of them to the caller (and kit.ConvertError sees position 0, code 0)
	pe, _ := err.(jschema.ParsingError)
	ve, _ := err.(jschema.ValidationError)
	isLib := pe != nil || ve != nil
	if !isLib {
		var bare liberrors.Errorf
		if errors.As(err, &bare) && bare.Code() == liberrors.ErrInfinityRecursionDetected && run.MatchKnown("C07-recursion-error-has-no-position") {
			return
		}
		txt, _ := lib.ErrorText(err)
		x.bad("%s returned %T which is not a library error (no code/message/position): %s", what, err, txt)
		return
	}
	if pe != nil && pe.Message() == "" || ve != nil && ve.Message() == "" {
		x.bad("%s returned %T with an empty Message() (the text of Error() is %q)", what, err, func() string { s, _ := lib.ErrorText(err); return s }())
	}
	if txt, _ := lib.ErrorText(err); strings.Contains(txt, "runtime error:") {
		// a Go runtime panic (index out of range, nil dereference ...) recovered somewhere inside the
		// library and dressed up as a library error: the call crashed, it did not diagnose the input
		x.bad("%s returned a recovered Go runtime error as its diagnosis: %s", what, strings.SplitN(txt, "\n", 2)[0])
		return
	}
	if pe != nil {
		src, ok := "", false
		if f, okf := pe.(interface{ Filename() string }); okf {
			src, ok = x.sources[f.Filename()]
		}
		if ok {
			limit := len(src)
			if limit < 1 {
				limit = 1
			}
			if int(pe.Position()) >= limit {
				x.bad("%s: error position %d lies outside its source %q of %d bytes (code %d)", what, pe.Position(), pe.(interface{ Filename() string }).Filename(), len(src), pe.ErrCode())
			}
		}
	}
	// rendering must not panic
	func() {
		defer func() {
			if r := recover(); r != nil {
				x.bad("%s: rendering the error panicked: %v", what, r)
			}
		}()
		if txt := err.Error(); strings.Contains(txt, "%!") && !x.inputsContain("%!") {
			// fmt's marker for a verb without a matching argument: a text taken from the input was
			// used as a format string
			x.bad("%s: the rendered error contains a formatting artefact: %s", what, txt)
		}
		x.rendered++
		var de liberrors.DocumentError
		if errors.As(err, &de) {
			_ = de.String()
			_ = de.Line()
			_ = de.SourceSubString()
			_ = de.Message()
			_ = de.IncorrectUserType()
		}
		k := kit.ConvertError(fs.NewFile("root", x.sources["root"]), err)
		type ownFile interface {
			Filename() string
			Position() uint
			ErrCode() int
			IncorrectUserType() string
		}
		if de0, ok := err.(ownFile); ok && k != nil {
			// an error that already knows its file keeps it through the conversion (the error may
			// stem from an added type's text, not from the file the caller passes): whatever its Go
			// type is, a position only means something together with the file it was counted in
			if k.Filename() != de0.Filename() || k.Position() != de0.Position() || k.ErrCode() != de0.ErrCode() || k.IncorrectUserType() != de0.IncorrectUserType() {
				x.bad("%s: kit.ConvertError changed the error: file %q position %d code %d type %q became file %q position %d code %d type %q", what,
					de0.Filename(), de0.Position(), de0.ErrCode(), de0.IncorrectUserType(), k.Filename(), k.Position(), k.ErrCode(), k.IncorrectUserType())
			}
		}
	}()
}

// session drives every public entry point in API-legal order.
func session(t run.TB, c Case) (rendered int) {
	x := &ctx{sources: map[string]string{"root": c.Schema, "doc": ""}}
	for _, ty := range c.Types {
		x.sources[ty[0]] = ty[1]
	}
	for _, ty := range c.Regexes {
		x.sources[ty[0]] = ty[1]
	}
	for _, e := range c.Enums {
		x.sources[e[0]] = e[1]
	}
	// a fatal error of the runtime (stack overflow, out of memory) cannot be recovered: the case is
	// written ahead so that the driver can attribute the death of this process to it
	run.WriteAhead(chk, c.enc())
	defer run.ClearAhead()
	done := make(chan struct{})
	go func() {
		defer close(done)
		x.run(c)
	}()
	select {
	case <-done:
	case <-time.After(60 * time.Second):
		run.FailAndExit(chk, c.enc(), "a public method did not return within 60 s for inputs of %d bytes", len(c.Schema))
	}
	if len(x.probs) > 0 {
		run.Fail(t, chk, c.enc(), "%s", strings.Join(x.probs, "\n"))
	}
	return x.rendered
}

func (x *ctx) run(c Case) {
	// enum rules stand-alone
	for _, e := range c.Enums {
		r := enum.New(e[0], e[1])
		x.call("enum.Len", func() error { _, err := r.Len(); return err })
		x.call("enum.Check", r.Check)
		x.call("enum.Values", func() error { _, err := r.Values(); return err })
		x.call("enum.GetAST", func() error { _, err := r.GetAST(); return err })
	}
	// regex types stand-alone
	for _, g := range c.Regexes {
		r := libregex.New(g[0], g[1])
		x.call("regex.Pattern", func() error { _, err := r.Pattern(); return err })
		x.call("regex.Len", func() error { _, err := r.Len(); return err })
		x.call("regex.Example", func() error { _, err := r.Example(); return err })
		x.call("regex.Check", r.Check)
		x.call("regex.GetAST", func() error { _, err := r.GetAST(); return err })
	}
	// documents stand-alone, with and without the option
	for _, d := range c.Docs {
		for _, allow := range []bool{false, true} {
			x.sources["doc"] = d
			var doc jschema.Document
			if allow {
				doc = libjson.New("doc", d, libjson.AllowTrailingNonSpaceCharacters())
			} else {
				doc = libjson.New("doc", d)
			}
			x.call("json.Len", func() error { _, err := doc.Len(); return err })
			x.call("json.Check", doc.Check)
			x.call("json.NextLexeme*", func() error {
				for i := 0; i < 4*len(d)+16; i++ {
					if _, err := doc.NextLexeme(); err != nil {
						return err
					}
				}
				return nil
			})
			// a reader that goes on after the first error: every further call is a call of its own
			for i := 0; i < 6; i++ {
				x.call("json.NextLexeme(after the end or an error)", func() error { _, err := doc.NextLexeme(); return err })
			}
		}
	}
	// the schema: rules before load, types before compile
	var oo []js.Option
	if c.Opt {
		oo = append(oo, js.KeysAreOptionalByDefault())
	}
	s := js.New("root", c.Schema, oo...)
	for _, e := range c.Enums {
		e := e
		x.call("Schema.AddRule", func() error { return s.AddRule(e[0], enum.New(e[0], e[1])) })
	}
	for _, ty := range c.Types {
		ty := ty
		x.call("Schema.AddType", func() error { return s.AddType(ty[0], js.New(ty[0], ty[1])) })
	}
	for _, g := range c.Regexes {
		g := g
		x.call("Schema.AddType(regex)", func() error { return s.AddType(g[0], libregex.New(g[0], g[1])) })
	}
	// names AddType refuses (taken twice, not a type name): the refusal is a library error like any other
	if len(c.Types) > 0 {
		ty := c.Types[0]
		for _, name := range []string{ty[0], strings.TrimPrefix(ty[0], "@"), "", ty[0] + " | @b"} {
			name := name
			x.call("Schema.AddType(refused name)", func() error { return s.AddType(name, js.New(ty[0], ty[1])) })
		}
	}
	if len(c.Regexes) > 0 {
		g := c.Regexes[0]
		x.call("Schema.AddType(regex, name taken)", func() error { return s.AddType(g[0], libregex.New(g[0], g[1])) })
	}
	x.call("Schema.Len", func() error { _, err := s.Len(); return err })
	x.call("Schema.Check", s.Check)
	for _, d := range c.Docs {
		d := d
		x.sources["doc"] = d
		x.call("Schema.Validate", func() error { return s.Validate(libjson.New("doc", d)) })
	}
	x.call("Schema.Example", func() error { _, err := s.Example(); return err })
	x.call("Schema.GetAST", func() error { _, err := s.GetAST(); return err })
	x.call("Schema.UsedUserTypes", func() error { _, err := s.UsedUserTypes(); return err })
	x.call("Schema.Build", s.Build)
	x.call("Schema.Check(again)", s.Check)
}

// ---------------------------------------------------------------------------------------
// inputs

var hostile = []byte{0x00, 0x1f, 0x7f, 0x80, 0xff, '\\', '"', '.', 'e', '+', '-', '0', ',', ':', ']', '}', '[', '{', ' ', '\n', '\r', 't', 'n', '/', '*', '#', '@', '|', '%', 0xEF}

func byteMutate(t *rapid.T, s string, label string) string {
	b := []byte(s)
	n := rapid.IntRange(1, 3).Draw(t, label+"N")
	for i := 0; i < n; i++ {
		pos := 0
		if len(b) > 0 {
			pos = rapid.IntRange(0, len(b)-1).Draw(t, label+"Pos")
		}
		switch rapid.IntRange(0, 4).Draw(t, label+"Kind") {
		case 0:
			b = b[:pos]
		case 1:
			if len(b) > 0 {
				b = append(b[:pos:pos], b[pos+1:]...)
			}
		case 2:
			if len(b) > 0 {
				b[pos] = rapid.SampledFrom(hostile).Draw(t, label+"B")
			}
		case 3:
			b = append(b[:pos:pos], append([]byte{rapid.SampledFrom(hostile).Draw(t, label+"B")}, b[pos:]...)...)
		default:
			if len(b) > 0 {
				end := pos + rapid.IntRange(1, 8).Draw(t, label+"Len")
				if end > len(b) {
					end = len(b)
				}
				b = append(b[:end:end], append(append([]byte(nil), b[pos:end]...), b[end:]...)...)
			}
		}
	}
	return string(b)
}

// grammarMutate: token-level edits that keep the text "almost" a schema.
func grammarMutate(t *rapid.T, s string, label string) string {
	reps := [][2]string{{"//", "/*"}, {"/*", "//"}, {"*/", "*"}, {"}", ""}, {"{", ""}, {"]", ""}, {"[", "[["}, {":", ""}, {",", ",,"}, {"\"", ""},
		{"\n", "\r"}, {"\n", ""}, {"true", "tru"}, {"@", "@@"}, {"@t", "@"}, {" | ", " |"}, {" | ", "|| "}, {"optional", "optionale"}, {"min", "min\""},
		{" - ", " "}, {"min", "%!"}, {"optional", "%!q"}, {"type", "%!s(MISSING)"}, {"{", "{ # c\n"}, {"//", "# #"}, {"//", "###"}, {"1", "1e5"}, {"\"", "\\\""}, {"or:", "or"}, {"enum:", "enum: @x,"}}
	r := rapid.SampledFrom(reps).Draw(t, label+"Rep")
	idx := strings.Index(s, r[0])
	if idx < 0 {
		return byteMutate(t, s, label+"BM")
	}
	// pick the k-th occurrence
	cnt := strings.Count(s, r[0])
	k := rapid.IntRange(0, cnt-1).Draw(t, label+"Occ")
	pos := 0
	for i := 0; i <= k; i++ {
		j := strings.Index(s[pos:], r[0])
		if i == k {
			pos += j
			break
		}
		pos += j + len(r[0])
	}
	return s[:pos] + r[1] + s[pos+len(r[0]):]
}

var hugeExponent = regexp.MustCompile(`[eE][+-]?[0-9]{6,}`)

var tokenRe = regexp.MustCompile(`"(?:[^"\\\n]|\\.)*"|-?[0-9][0-9.]*|@[A-Za-z0-9_]+|true|false|null`)

// tokenMutate replaces, empties, duplicates or deletes one lexical token (string, number, type
// name, keyword) of the text.
func tokenMutate(t *rapid.T, s string, label string) string {
	locs := tokenRe.FindAllStringIndex(s, -1)
	if len(locs) == 0 {
		return byteMutate(t, s, label+"BM")
	}
	// bias to the last tokens (errors near the end of a long line) in a third of the cases
	i := rapid.IntRange(0, len(locs)-1).Draw(t, label+"Tok")
	if rapid.IntRange(0, 2).Draw(t, label+"Last") == 0 {
		i = len(locs) - 1 - rapid.IntRange(0, min(2, len(locs)-1)).Draw(t, label+"FromEnd")
	}
	a, b := locs[i][0], locs[i][1]
	tok := s[a:b]
	repl := rapid.SampledFrom([]string{`""`, "0", "-", "@", "{}", "[]", "null", tok + tok, "", `"@"`, `"`, tok + " " + tok, "1e", `"\u12"`, "@t0 |", "01", "1e9999999999", "-2.5E-9999999999", "1e+123456789",
		// texts that look like the leftovers and verbs of a formatting routine (they end up quoted in messages)
		`"%!"`, `"%!s(MISSING)"`, `"%d%s%v"`, `"%!(EXTRA string=x)"`, `"%"`, `"100%"`, `"@%!"`}).Draw(t, label+"Repl")
	return s[:a] + repl + s[b:]
}

func baseCase(t *rapid.T) Case {
	var c Case
	switch rapid.IntRange(0, 3).Draw(t, "family") {
	case 0:
		gc := gen.GenGraph(t, gen.GraphOpts{MaxTypes: 4, Recursion: true}, "g")
		st := gen.DefaultStyle()
		st.MultiLine = rapid.IntRange(0, 2).Draw(t, "multi") == 0
		st.Comments = rapid.IntRange(0, 4).Draw(t, "comments")
		pg := gc.Print(st)
		c.Schema, c.Opt = pg.Schema, gc.G.KeysOptional
		for _, ty := range pg.Types {
			c.Types = append(c.Types, [2]string{ty.Name, ty.Text})
		}
		for i := 0; i < 2; i++ {
			c.Docs = append(c.Docs, string(gen.Print(gc.Instance(t, gc.G.Root, c.Opt, 3, "inst"), nil)))
		}
	case 1:
		m := gen.RuledTree(t, 2, false, "m")
		if rapid.Bool().Draw(t, "notes") {
			m.Walk(func(n *ref.SNode) {
				if rapid.IntRange(0, 2).Draw(t, "note") == 0 {
					n.Note = rapid.SampledFrom([]string{"note", "a note *", "50% of it", "x - y", "* star", "%d %s %v"}).Draw(t, "noteText")
				}
			})
		}
		st := gen.DefaultStyle()
		st.MultiLine = rapid.Bool().Draw(t, "multi")
		st.SpreadRules = st.MultiLine && rapid.Bool().Draw(t, "spread")
		st.AutoItemNotes = st.MultiLine && rapid.Bool().Draw(t, "itemNotes")
		if !st.MultiLine {
			st.MixedAnn = rapid.SampledFrom([]int{0, 0, 1, 2}).Draw(t, "mixedAnn")
			st.EmptyAnn = rapid.SampledFrom([]int{0, 0, 2}).Draw(t, "emptyAnn")
		}
		c.Schema = string(gen.PrintSchema(m, st))
		if ex, ok := gen.ExampleJSON(m); ok {
			c.Docs = append(c.Docs, string(ex))
		}
	case 2:
		gc := gen.GenRefGraph(t, "rg")
		pg := gc.Print(nil)
		c.Schema = pg.Schema
		for _, ty := range pg.Types {
			c.Types = append(c.Types, [2]string{ty.Name, ty.Text})
		}
		c.Docs = append(c.Docs, `{"p0":1}`)
	default:
		c.Schema = rapid.SampledFrom(repoSchemas()).Draw(t, "repo")
		c.Docs = append(c.Docs, `{"id": 1}`)
	}
	if rapid.IntRange(0, 3).Draw(t, "longLines") == 0 {
		// lines longer than the 200 bytes the renderer shows: a minified document and a long example
		long := strings.Repeat("x", rapid.IntRange(150, 400).Draw(t, "longLen"))
		c.Schema = "{\n  \"long\": \"" + long + "\", // {optional: true}\n  \"id\": 1, // {optional: true}\n  \"tail\": \"" + long[:40] + "\" // {optional: true, minLength: 1}\n}"
		c.Docs = []string{"{\"long\":\"" + long + "\",\"id\":12345,\"tail\":\"t\"}", "{\"id\":1,\"long\":\"" + long + long + "\",\"tail\":\"\"}"}
		c.Types, c.Enums, c.Regexes = nil, nil, nil
		run.Label("family:long-lines")
		return c
	}
	if rapid.IntRange(0, 5).Draw(t, "lateDefect") == 0 {
		// a defect that Check (not the scanner) finds, placed at the very end of a longer schema: the
		// position of the complaint must still lie inside the text
		bad := rapid.SampledFrom([]string{
			`1 // {or: [{type: "string", min: 1}, "integer"]}`, `"s" // {or: [{type: "integer", minLength: 1}, {type: "string"}]}`,
			`1 // {minLength: 1}`, `"s" // {min: 1, max: 0}`, `1 // {or: [{min: 5, max: 1}, {type: "integer"}]}`, `1 // {type: "string"}`,
			`2 // {enum: [1, 3]}`, `1 // {foo: 1}`, `@nowhere`, `1 // {or: [{type: "email", minLength: 1}, "integer"]}`, `[] // {or: [{type: "array", minItems: 1}, "string"]}`,
		}).Draw(t, "lateDefectText")
		c.Schema = "{\n  \"rest\": " + strings.ReplaceAll(c.Schema, "\n", "\n  ") + ",\n  \"filler\": \"" + strings.Repeat("f", rapid.IntRange(0, 60).Draw(t, "filler")) + "\",\n  \"bad\": " + bad + "\n}"
		if rapid.Bool().Draw(t, "lateDefectInType") {
			// ... or at the end of an added type
			c.Types = append(c.Types, [2]string{"@late", c.Schema})
			c.Schema = "{\n  \"t\": @late\n}"
		}
		run.Label("family:defect-at-the-end-of-the-text")
	}
	if rapid.IntRange(0, 5).Draw(t, "percentDoc") == 0 {
		c.Docs = append(c.Docs, rapid.SampledFrom([]string{`{"%!": 1, "%!s(MISSING)": "%!"}`, `"%!"`, `["%d", "%!v(PANIC=x)"]`, `{"id": "%!"}`}).Draw(t, "percentDocText"))
	}
	if rapid.IntRange(0, 5).Draw(t, "emptyDoc") == 0 {
		c.Docs = append(c.Docs, rapid.SampledFrom([]string{"", " ", "\n", " \r\n\t"}).Draw(t, "blankDoc"))
	}
	if rapid.IntRange(0, 11).Draw(t, "shortcutWithOr") == 0 {
		// a type shortcut next to an "or" rule of kind names
		c.Schema = rapid.SampledFrom([]string{"@a // {or: [\"string\", \"integer\"]}", "{\n  \"k\": @a // {or: [\"string\", \"null\"]}\n}", "  @a | @b // {or: [\"integer\", \"boolean\"]}"}).Draw(t, "shortcutOr")
		c.Types = [][2]string{{"@a", "1"}, {"@b", "\"s\""}}
		if rapid.Bool().Draw(t, "dropTypes") {
			c.Types = nil
		}
		run.Label("family:type-shortcut-with-or-of-kind-names")
	}
	// enum rule + regex type in a fraction of the cases
	if rapid.IntRange(0, 2).Draw(t, "withEnum") == 0 {
		c.Enums = append(c.Enums, [2]string{"@e", rapid.SampledFrom([]string{"[1, 2]", "[\n 1, // one\n \"a\" /* b */\n]", "[]", "[true, null, 1.5]", "[1, 2] // tail comment", "[] /* c */", "[1] /* open", "[]/*", " [\"x\"]\n"}).Draw(t, "enumText")})
		c.Schema = "{\n  \"en\": 1, // {enum: @e}\n  \"rest\": " + strings.ReplaceAll(c.Schema, "\n", "\n  ") + "\n}"
	}
	if rapid.IntRange(0, 3).Draw(t, "withRegex") == 0 {
		c.Regexes = append(c.Regexes, [2]string{"@rx", rapid.SampledFrom([]string{"/^a+$/", "/[0-9]{2,3}/", "/a\\/b/", "/x|y/ tail",
			// classes without a printable ASCII character, zero-width assertions, an empty class
			"/[^\\x00-\\x7f]/", "/[^ -~\\s]+/", "/\\Bfoo/", "/[[:^ascii:]]/", "/[^\\x00-\\x{10FFFF}]/", "/\\P{Any}/", "/a\\b/"}).Draw(t, "regexText")})
	}
	return c
}

var repoCache []string

func repoSchemas() []string {
	if repoCache != nil {
		return repoCache
	}
	repo := os.Getenv("VERIF_REPO")
	if repo == "" {
		repo = "/repo"
	}
	filepath.Walk(filepath.Join(repo, "testdata"), func(p string, info os.FileInfo, err error) error {
		if err == nil && !info.IsDir() && (strings.HasSuffix(p, ".jschema") || strings.HasSuffix(p, ".type")) && info.Size() < 4096 {
			if b, err := os.ReadFile(p); err == nil {
				repoCache = append(repoCache, string(b))
			}
		}
		return nil
	})
	if len(repoCache) == 0 {
		repoCache = []string{"{}"}
	}
	return repoCache
}

func pastFirstToken(c Case) bool {
	s := strings.TrimLeft(c.Schema, " \t\r\n")
	return len(s) > 1
}

func TestMutatedInputs(t *testing.T) {
	run.SkipIfReplaying(t)
	defer run.Done(t, chk)
	rapid.Check(t, func(t *rapid.T) {
		c := baseCase(t)
		role := rapid.IntRange(0, 9).Draw(t, "role")
		mut := func(s string, l string) string {
			switch rapid.IntRange(0, 2).Draw(t, l+"MutKind") {
			case 0:
				run.Label("mutation:grammar-aware")
				return grammarMutate(t, s, l)
			case 1:
				run.Label("mutation:token-level")
				return tokenMutate(t, s, l)
			}
			run.Label("mutation:byte-level")
			return byteMutate(t, s, l)
		}
		switch {
		case role <= 4:
			c.Schema = mut(c.Schema, "ms")
			run.Label("mutated-role:schema")
		case role <= 6 && len(c.Types) > 0:
			i := rapid.IntRange(0, len(c.Types)-1).Draw(t, "ti")
			c.Types[i][1] = mut(c.Types[i][1], "mt")
			run.Label("mutated-role:type")
		case role == 7 && len(c.Enums) > 0:
			c.Enums[0][1] = mut(c.Enums[0][1], "me")
			run.Label("mutated-role:enum")
		case role == 8 && len(c.Regexes) > 0:
			c.Regexes[0][1] = mut(c.Regexes[0][1], "mr")
			run.Label("mutated-role:regex")
		default:
			if len(c.Docs) > 0 {
				c.Docs[0] = mut(c.Docs[0], "md")
			}
			run.Label("mutated-role:document")
		}
		rendered := session(t, c)
		run.Eval(chk, pastFirstToken(c) || rendered > 0, fmt.Sprint(c))
		if rendered > 0 {
			run.Label("error-rendered")
			run.Sample(chk, c.enc())
		}
	})
}

// Legal inputs that are extreme in one dimension (all below 4 KiB): nesting depth, number of
// properties / items / alternatives / enum items, length of one token. Every call must return
// (the 60 s watchdog of session is the oracle; a cost that doubles per level does not).
func TestLegalExtremes(t *testing.T) {
	run.SkipIfReplaying(t)
	defer run.Done(t, chk)
	rapid.Check(t, func(t *rapid.T) {
		var c Case
		rep := strings.Repeat
		switch rapid.IntRange(0, 8).Draw(t, "dimension") {
		case 8: // a layered graph of types: every type of a layer lists both types of the next one
			n := rapid.IntRange(8, 36).Draw(t, "layers")
			c.Schema = `1 // {or: ["@l0", "@m0"]}`
			mixed := rapid.IntRange(0, 3).Draw(t, "mixedLayers") == 0 // some layers written as shortcut lists
			for i := 0; i < n; i++ {
				next := fmt.Sprintf(`1 // {or: ["@l%d", "@m%d"]}`, i+1, i+1)
				if i == n-1 {
					next = "1"
				}
				if mixed && rapid.IntRange(0, 3).Draw(t, "shortcutLayer") == 0 && i < n-1 {
					next = fmt.Sprintf("@l%d | @m%d", i+1, i+1)
				}
				c.Types = append(c.Types, [2]string{fmt.Sprintf("@l%d", i), next}, [2]string{fmt.Sprintf("@m%d", i), next})
			}
			c.Docs = []string{"1", `"x"`}
			run.Label("extreme:layered-alternatives")
		case 0: // nested arrays
			d := rapid.IntRange(8, 150).Draw(t, "depth")
			c.Schema = rep("[", d) + "1" + rep("]", d)
			c.Docs = []string{c.Schema, rep("[", d) + rep("]", d), rep("[", d+1) + "1" + rep("]", d+1)}
			run.Label("extreme:array-depth")
		case 1: // nested objects
			d := rapid.IntRange(8, 120).Draw(t, "depth")
			c.Schema = rep(`{"a":`, d) + "1" + rep("}", d)
			c.Docs = []string{c.Schema, rep(`{"a":`, d-1) + "{}" + rep("}", d-1)}
			run.Label("extreme:object-depth")
		case 2: // arrays and objects alternating, with annotations on the way
			d := rapid.IntRange(4, 60).Draw(t, "depth")
			c.Schema = rep("[\n{ // {additionalProperties: true}\n\"k\": ", d) + "1 // {min: 0}\n" + rep("}\n]", d)
			c.Docs = []string{rep(`[{"k":`, d) + "1" + rep("}]", d)}
			run.Label("extreme:mixed-depth")
		case 3: // many properties
			n := rapid.IntRange(50, 300).Draw(t, "n")
			var b, dd strings.Builder
			b.WriteString("{\n")
			dd.WriteString("{")
			for i := 0; i < n; i++ {
				comma := ","
				if i == n-1 {
					comma = ""
				}
				fmt.Fprintf(&b, "  \"p%d\": %d%s // {optional: true}\n", i, i, comma)
				fmt.Fprintf(&dd, "\"p%d\":%d%s", i, i, comma)
			}
			b.WriteString("}")
			dd.WriteString("}")
			c.Schema, c.Docs = b.String(), []string{dd.String(), "{}"}
			run.Label("extreme:property-count")
		case 4: // many alternatives and enum items
			n := rapid.IntRange(20, 120).Draw(t, "n")
			var items, alts []string
			for i := 0; i < n; i++ {
				items = append(items, fmt.Sprint(i))
				alts = append(alts, fmt.Sprintf(`{type: "integer", min: %d, max: %d}`, i, i))
			}
			c.Schema = "{\n  \"e\": 1, // {enum: [" + strings.Join(items, ", ") + "]}\n  \"o\": 1 // {or: [" + strings.Join(alts, ", ") + "]}\n}"
			c.Docs = []string{fmt.Sprintf(`{"e":%d,"o":%d}`, n-1, n-1), `{"e":-1,"o":-1}`}
			run.Label("extreme:alternative-count")
		case 5: // one long token
			n := rapid.IntRange(500, 3500).Draw(t, "n")
			switch rapid.IntRange(0, 2).Draw(t, "tok") {
			case 0:
				c.Schema = `"` + rep("s", n) + `" // {minLength: 1}`
				c.Docs = []string{`"` + rep("t", n) + `"`}
			case 1:
				c.Schema = "1" + rep("0", n) + " // {min: 0}"
				c.Docs = []string{"1" + rep("0", n), "1e" + fmt.Sprint(n), "0." + rep("0", n) + "1"}
			default:
				c.Schema = "1 // {min: 0} - " + rep("note ", n/5)
				c.Docs = []string{"1"}
			}
			run.Label("extreme:token-length")
		case 6: // a long chain of type references
			n := rapid.IntRange(10, 80).Draw(t, "n")
			c.Schema = "@t0"
			for i := 0; i < n; i++ {
				next := fmt.Sprintf("@t%d", i+1)
				if i == n-1 {
					next = "1"
				}
				form := []string{next, "[" + next + "]", "{\n  \"k\": " + next + "\n}", next + " | @leaf"}[rapid.IntRange(0, 3).Draw(t, "form")]
				if i == n-1 {
					form = "1"
				}
				c.Types = append(c.Types, [2]string{fmt.Sprintf("@t%d", i), form})
			}
			c.Types = append(c.Types, [2]string{"@leaf", `"x"`})
			c.Docs = []string{"1", `"x"`, "[[1]]"}
			run.Label("extreme:reference-chain")
		default: // wide and deep at once: a full tree
			d := rapid.IntRange(2, 5).Draw(t, "depth")
			w := rapid.IntRange(2, 3).Draw(t, "width")
			var build func(d int) string
			build = func(d int) string {
				if d == 0 {
					return "1"
				}
				parts := make([]string, w)
				for i := range parts {
					parts[i] = build(d - 1)
				}
				return "[" + strings.Join(parts, ",") + "]"
			}
			c.Schema = build(d)
			c.Docs = []string{c.Schema}
			run.Label("extreme:full-tree")
		}
		if len(c.Schema) > 4096 {
			return
		}
		rendered := session(t, c)
		run.Eval(chk, true, fmt.Sprint(c))
		if rendered > 0 {
			run.Label("error-rendered")
		}
	})
}

// every truncation of valid texts
func TestTruncations(t *testing.T) {
	run.SkipIfReplaying(t)
	defer run.Done(t, chk)
	rapid.Check(t, func(t *rapid.T) {
		c := baseCase(t)
		full := c.Schema
		if len(full) > 400 {
			full = full[:400]
		}
		step := 1
		if run.Tier() == "quick" && len(full) > 120 {
			step = 3
		}
		for i := 0; i <= len(full); i += step {
			cc := c
			cc.Schema = full[:i]
			rendered := session(t, cc)
			run.Eval(chk, i > 1 || rendered > 0, fmt.Sprint(cc))
		}
		if len(c.Types) > 0 {
			ty := c.Types[0][1]
			for i := 0; i <= len(ty) && i < 200; i += step {
				cc := c
				cc.Types = append([][2]string{{c.Types[0][0], ty[:i]}}, c.Types[1:]...)
				session(t, cc)
				run.Eval(chk, true, fmt.Sprint(cc))
			}
		}
		run.Label("truncation-family")
	})
}

func FuzzSchemaAPI(f *testing.F) {
	for _, s := range []string{"{\n \"a\": 1 // {min: 0}\n}", "1 ##", "1 /* a *", "@a |", "", "@t // {nullable: true}", "[1, @t | @u]", "{ @k: 1 }", "1 // {or: [{type: \"integer\"}, \"string\"]}", "{} // {allOf: \"@t\"}"} {
		f.Add([]byte(s), []byte(`{"x": @t}`), []byte("[1,2]"), []byte(`{"a":1}`), uint8(0))
	}
	f.Fuzz(func(t *testing.T, schema, typ, enumText, doc []byte, flags uint8) {
		if len(schema)+len(typ)+len(enumText)+len(doc) > 4096 {
			return
		}
		c := Case{Schema: string(schema), Types: [][2]string{{"@t", string(typ)}}, Docs: []string{string(doc)}, Opt: flags&1 == 1}
		if flags&2 == 2 {
			c.Enums = [][2]string{{"@e", string(enumText)}}
		}
		if flags&4 == 4 {
			c.Regexes = [][2]string{{"@rx", string(enumText)}}
		}
		session(t, c)
	})
}

// ---------------------------------------------------------------------------------------
// static-table clause

type codeInfo struct {
	name  string
	value int
	arity int // -1: no template
}

func loadCodes(t run.TB, repo string) map[string]*codeInfo {
	fset := token.NewFileSet()
	f, err := parser.ParseFile(fset, filepath.Join(repo, "errors", "code.go"), nil, 0)
	if err != nil {
		t.Fatalf("cannot parse errors/code.go: %v", err)
	}
	codes := map[string]*codeInfo{}
	for _, d := range f.Decls {
		gd, ok := d.(*ast.GenDecl)
		if !ok || gd.Tok != token.CONST {
			continue
		}
		for _, sp := range gd.Specs {
			vs := sp.(*ast.ValueSpec)
			id, ok := vs.Type.(*ast.Ident)
			if !ok || id.Name != "ErrorCode" {
				continue
			}
			for i, n := range vs.Names {
				if i < len(vs.Values) {
					if bl, ok := vs.Values[i].(*ast.BasicLit); ok {
						v, _ := strconv.Atoi(bl.Value)
						codes[n.Name] = &codeInfo{name: n.Name, value: v}
					}
				}
			}
		}
	}
	return codes
}

func tryFormat(code int, arity int) (ok bool, msg string) {
	defer func() {
		if r := recover(); r != nil {
			ok, msg = false, fmt.Sprint(r)
		}
	}()
	args := make([]interface{}, arity)
	for i := range args {
		args[i] = "x"
	}
	_ = liberrors.Format(liberrors.ErrorCode(code), args...).Error()
	return true, ""
}

func checkTable(t run.TB) {
	repo := os.Getenv("VERIF_REPO")
	if repo == "" {
		repo = "/repo"
	}
	codes := loadCodes(t, repo)
	if len(codes) < 50 {
		t.Fatalf("harness: only %d error codes found in errors/code.go", len(codes))
	}
	// (i) every code has a template and exactly one arity renders
	for _, ci := range codes {
		ci.arity = -1
		works := 0
		unknown := true
		for a := 0; a <= 5; a++ {
			ok, msg := tryFormat(ci.value, a)
			if ok {
				works++
				ci.arity = a
			}
			if !strings.Contains(msg, "Unknown error code") {
				unknown = false
			}
		}
		run.Eval(chkTable, true, "code", ci.name)
		if works == 0 && unknown {
			run.Fail(t, chkTable, map[string]any{"code": ci.name, "value": ci.value}, "error code %s (%d) has no message template", ci.name, ci.value)
		}
		if works != 1 {
			run.Fail(t, chkTable, map[string]any{"code": ci.name, "value": ci.value}, "error code %s renders with %d different argument counts (0..5), expected exactly one", ci.name, works)
		}
		// zero-arity codes must also render through ErrorCode.Error()
		if ci.arity == 0 {
			func() {
				defer func() {
					if r := recover(); r != nil {
						run.Fail(t, chkTable, map[string]any{"code": ci.name}, "ErrorCode(%s).Error() panics: %v", ci.name, r)
					}
				}()
				_ = liberrors.ErrorCode(ci.value).Error()
			}()
		}
	}
	// (ii) every construction site: errors.Format(errors.ErrX, args...) and bare errors.ErrX values
	sites, bare := 0, 0
	filepath.Walk(repo, func(p string, info os.FileInfo, err error) error {
		if err != nil {
			return nil
		}
		if info.IsDir() {
			if n := info.Name(); n == "testdata" || n == ".git" || n == "verifhook" {
				return filepath.SkipDir
			}
			return nil
		}
		if !strings.HasSuffix(p, ".go") || strings.HasSuffix(p, "_test.go") || strings.HasSuffix(p, "errors/code.go") {
			return nil
		}
		fset := token.NewFileSet()
		f, perr := parser.ParseFile(fset, p, nil, 0)
		if perr != nil {
			return nil
		}
		alias := ""
		inErrorsPkg := f.Name.Name == "errors" && strings.Contains(p, "/errors/")
		for _, im := range f.Imports {
			if strings.Trim(im.Path.Value, `"`) == "github.com/jsightapi/jsight-schema-go-library/errors" {
				alias = "errors"
				if im.Name != nil {
					alias = im.Name.Name
				}
			}
		}
		if alias == "" && !inErrorsPkg {
			return nil
		}
		codeOf := func(e ast.Expr) *codeInfo {
			switch v := e.(type) {
			case *ast.SelectorExpr:
				if id, ok := v.X.(*ast.Ident); ok && id.Name == alias {
					return codes[v.Sel.Name]
				}
			case *ast.Ident:
				if inErrorsPkg {
					return codes[v.Name]
				}
			}
			return nil
		}
		isFormat := func(fun ast.Expr) bool {
			switch v := fun.(type) {
			case *ast.SelectorExpr:
				id, ok := v.X.(*ast.Ident)
				return ok && id.Name == alias && v.Sel.Name == "Format"
			case *ast.Ident:
				return inErrorsPkg && v.Name == "Format"
			}
			return false
		}
		ast.Inspect(f, func(n ast.Node) bool {
			call, ok := n.(*ast.CallExpr)
			if !ok {
				// bare value in a return statement
				if rs, ok := n.(*ast.ReturnStmt); ok {
					for _, r := range rs.Results {
						if ci := codeOf(r); ci != nil {
							bare++
							pos := fset.Position(r.Pos())
							run.Eval(chkTable, true, "site", pos.String())
							if ci.arity != 0 {
								run.Fail(t, chkTable, map[string]any{"site": pos.String(), "code": ci.name}, "%s: %s is returned as an error value but its template needs %d arguments", pos, ci.name, ci.arity)
							}
						}
					}
				}
				return true
			}
			if isFormat(call.Fun) && len(call.Args) >= 1 {
				if ci := codeOf(call.Args[0]); ci != nil {
					sites++
					pos := fset.Position(call.Pos())
					run.Eval(chkTable, true, "site", pos.String())
					if call.Ellipsis == token.NoPos && len(call.Args)-1 != ci.arity {
						run.Fail(t, chkTable, map[string]any{"site": pos.String(), "code": ci.name}, "%s: errors.Format(%s) is given %d arguments, its template has %d placeholders", pos, ci.name, len(call.Args)-1, ci.arity)
					}
				}
				return true
			}
			// bare code as the argument of panic / NewDocumentError / NewLexEventError / NewValidatorError
			name := ""
			switch v := call.Fun.(type) {
			case *ast.Ident:
				name = v.Name
			case *ast.SelectorExpr:
				name = v.Sel.Name
			}
			switch name {
			case "panic", "NewDocumentError", "NewLexEventError", "NewValidatorError":
				for _, a := range call.Args {
					if ci := codeOf(a); ci != nil {
						bare++
						pos := fset.Position(a.Pos())
						run.Eval(chkTable, true, "site", pos.String())
						if ci.arity != 0 {
							run.Fail(t, chkTable, map[string]any{"site": pos.String(), "code": ci.name}, "%s: %s is used as an error value but its template needs %d arguments", pos, ci.name, ci.arity)
						}
					}
				}
			}
			return true
		})
		return nil
	})
	run.LabelN("error-codes", int64(len(codes)))
	run.LabelN("format-call-sites", int64(sites))
	run.LabelN("bare-code-sites", int64(bare))
	run.Sample(chkTable, map[string]any{"codes": len(codes), "format_sites": sites, "bare_sites": bare})
	if sites < 50 {
		t.Fatalf("harness: only %d errors.Format call sites found", sites)
	}
}

func TestErrorTable(t *testing.T) {
	run.SkipIfReplaying(t)
	defer run.Done(t, chkTable)
	if run.Shard() != 0 {
		t.Skip("shard 0 only")
	}
	checkTable(t)
	run.Exhaustive(chkTable, "every ErrorCode constant of errors/code.go x argument counts 0..5, and every errors.Format(...) / bare error-code construction site found by a go/ast walk over the current tree")
}

var _ = ref.Valid

func TestReplay(t *testing.T) { run.TestReplay(t) }
