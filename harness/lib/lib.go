// Package lib wraps the public API of the library under test: it builds schemas from a Spec,
// recovers panics, and canonicalises errors to (code, position).
package lib

import (
	"errors"
	"fmt"

	jschema "github.com/jsightapi/jsight-schema-go-library"
	liberrors "github.com/jsightapi/jsight-schema-go-library/errors"
	libjson "github.com/jsightapi/jsight-schema-go-library/formats/json"
	js "github.com/jsightapi/jsight-schema-go-library/notations/jschema"
	"github.com/jsightapi/jsight-schema-go-library/notations/regex"
	"github.com/jsightapi/jsight-schema-go-library/rules/enum"
)

type Named struct {
	Name  string `json:"name"`
	Text  string `json:"text"`
	Regex bool   `json:"regex,omitempty"`
	// KeysOptional: the type is created with KeysAreOptionalByDefault
	KeysOptional bool `json:"keys_optional,omitempty"`
	// Inner: types added to this type object itself (and not to the schema it is added to, which
	// gets to know them only through this type)
	Inner []Named `json:"inner_types,omitempty"`
	// InnerLate: the inner types are added to this type object after it has been added to its host
	// (the order of AddType calls on different objects does not matter)
	InnerLate bool `json:"inner_added_late,omitempty"`
}

// addInnerLate adds the inner types of t (and of its inner types) which were left out by newType.
func addInnerLate(t Named, obj jschema.Schema, fileName func(string) string) {
	host, ok := obj.(*js.Schema)
	if !ok || !t.InnerLate {
		return
	}
	for _, in := range t.Inner {
		in := in
		io := newType(in, fileName)
		Safe(func() error { return host.AddType(in.Name, io) })
		addInnerLate(in, io, fileName)
	}
}

// newType creates the object of a named type, with its inner types added to it.
func newType(t Named, fileName func(string) string) jschema.Schema {
	if t.Regex {
		return regex.New(fileName(t.Name), t.Text)
	}
	var o *js.Schema
	if t.KeysOptional {
		o = js.New(fileName(t.Name), t.Text, js.KeysAreOptionalByDefault())
	} else {
		o = js.New(fileName(t.Name), t.Text)
	}
	if !t.InnerLate {
		for _, in := range t.Inner {
			in := in
			Safe(func() error { return o.AddType(in.Name, newType(in, fileName)) })
		}
	}
	return o
}

// Spec is everything that defines a schema object.
type Spec struct {
	Schema       string  `json:"schema"`
	Types        []Named `json:"types,omitempty"`
	Enums        []Named `json:"enums,omitempty"`
	KeysOptional bool    `json:"keys_optional,omitempty"`
	// TypesKnowTypes: every added type object gets all the other types added to itself first (the way
	// an API description wires its types: each of them is a schema of its own that is checked, too)
	TypesKnowTypes bool `json:"types_know_types,omitempty"`
	// SelfName: the root schema object is also added to itself as a named type (s.AddType(name, s)),
	// the way JSight API registers the type that is being checked.
	SelfName string `json:"self_name,omitempty"`
	// SameFile: every schema object (root and types) is created with the same file name (the name
	// given to AddType is independent of it)
	SameFile bool `json:"same_file_name,omitempty"`
}

// Res is the canonical result of a call: Panic != "" when the call panicked.
type Res struct {
	OK     bool   `json:"ok"`
	Code   int    `json:"code,omitempty"`
	Pos    int    `json:"pos,omitempty"`
	HasPos bool   `json:"has_pos,omitempty"`
	Msg    string `json:"msg,omitempty"`
	Type   string `json:"type,omitempty"`
	Panic  string `json:"panic,omitempty"`
	Lib    bool   `json:"lib_error,omitempty"` // the error is (or wraps) a library error
	File   string `json:"file,omitempty"`
}

func (r Res) String() string {
	if r.Panic != "" {
		return "PANIC(" + r.Panic + ")"
	}
	if r.OK {
		return "ok"
	}
	return fmt.Sprintf("err{code=%d pos=%d %q %s}", r.Code, r.Pos, r.Msg, r.Type)
}

// Canon converts an error to a Res.
func Canon(err error) Res {
	if err == nil {
		return Res{OK: true}
	}
	r := Res{Type: fmt.Sprintf("%T", err)}
	var pe jschema.ParsingError
	var ve jschema.ValidationError
	if errors.As(err, &pe) {
		r.Lib, r.Code, r.Pos, r.HasPos, r.Msg = true, pe.ErrCode(), int(pe.Position()), true, pe.Message()
		if f, ok := pe.(interface{ Filename() string }); ok {
			r.File = f.Filename()
		}
	} else if errors.As(err, &ve) {
		r.Lib, r.Code, r.Msg = true, ve.ErrCode(), ve.Message()
	} else {
		var ce liberrors.Err
		if errors.As(err, &ce) {
			r.Code = int(ce.Code()) // a bare errors.Errorf: has a code but no position (not a ParsingError)
		}
		r.Msg, _ = ErrorText(err)
	}
	return r
}

// ErrorText calls err.Error() and reports a panic inside it (rendering is C07/C17's concern;
// the other properties must not trip over it).
func ErrorText(err error) (text string, panicked string) {
	defer func() {
		if p := recover(); p != nil {
			panicked = fmt.Sprint(p)
		}
	}()
	return err.Error(), ""
}

// Safe runs f and converts a panic into Res.Panic.
func Safe(f func() error) (r Res) {
	defer func() {
		if p := recover(); p != nil {
			r = Res{Panic: fmt.Sprint(p)}
		}
	}()
	return Canon(f())
}

// Build creates the schema object, adds rules then types. The first failing Add* call is
// returned (the schema object is still returned for further calls).
func Build(sp Spec) (*js.Schema, Res) {
	s, r, _ := BuildSharing(sp, nil)
	return s, r
}

// BuildSharing is Build, except that a type whose name is in shared is not created again: the
// given object is added to the new root (the way an API description adds one set of type objects
// to every schema it contains). It returns the type objects of the new root.
func BuildSharing(sp Spec, shared map[string]jschema.Schema) (*js.Schema, Res, map[string]jschema.Schema) {
	types := map[string]jschema.Schema{}
	var oo []js.Option
	if sp.KeysOptional {
		oo = append(oo, js.KeysAreOptionalByDefault())
	}
	fileName := func(n string) string {
		if sp.SameFile {
			return "schema"
		}
		return n
	}
	s := js.New(fileName("root"), sp.Schema, oo...)
	first := Res{OK: true}
	for _, e := range sp.Enums {
		e := e
		r := Safe(func() error { return s.AddRule(e.Name, enum.New(e.Name, e.Text)) })
		if !r.OK && first.OK {
			first = r
		}
	}
	if sp.SelfName != "" {
		r := Safe(func() error { return s.AddType(sp.SelfName, s) })
		if !r.OK && first.OK {
			first = r
		}
	}
	if sp.TypesKnowTypes {
		// create every type object first, wire them to each other, then add them to the root
		objs := map[string]jschema.Schema{}
		for _, t := range sp.Types {
			if _, ok := shared[t.Name]; ok {
				continue
			}
			if t.Regex {
				objs[t.Name] = regex.New(fileName(t.Name), t.Text)
			} else if t.KeysOptional {
				objs[t.Name] = js.New(fileName(t.Name), t.Text, js.KeysAreOptionalByDefault())
			} else {
				objs[t.Name] = js.New(fileName(t.Name), t.Text)
			}
		}
		for _, t := range sp.Types {
			host, ok := objs[t.Name].(*js.Schema)
			if !ok {
				continue
			}
			for _, u := range sp.Types {
				if u.Name == t.Name {
					continue
				}
				other := objs[u.Name]
				if other == nil {
					other = shared[u.Name]
				}
				if other != nil {
					Safe(func() error { return host.AddType(u.Name, other) })
				}
			}
		}
		if shared == nil {
			shared = map[string]jschema.Schema{}
		} else {
			cp := map[string]jschema.Schema{}
			for k, v := range shared {
				cp[k] = v
			}
			shared = cp
		}
		for k, v := range objs {
			shared[k] = v
		}
	}
	for _, t := range sp.Types {
		t := t
		obj, ok := shared[t.Name]
		if !ok {
			obj = newType(t, fileName)
		}
		types[t.Name] = obj
		r := Safe(func() error { return s.AddType(t.Name, obj) })
		if !r.OK && first.OK {
			first = r
		}
		if !ok {
			addInnerLate(t, obj, fileName)
		}
	}
	return s, first, types
}

func Check(s *js.Schema) Res { return Safe(func() error { return s.Check() }) }

func Validate(s *js.Schema, doc []byte) Res {
	return Safe(func() error { return s.Validate(libjson.New("doc", doc)) })
}

// ValidateUsed validates a Document object that has been used before: each element of uses is
// "next:<k>" (k events read), "len", "check", "validate" (validated by s itself) or "other" (validated
// by another schema). Validate's verdict depends on the text of a document only.
func ValidateUsed(s *js.Schema, doc []byte, uses []string) Res {
	return Safe(func() error {
		d := libjson.New("doc", doc)
		for _, u := range uses {
			switch u {
			case "len":
				_, _ = d.Len()
			case "check":
				_ = d.Check()
			case "validate":
				_ = s.Validate(d)
			case "other":
				_ = js.New("other", "[\n  1,\n  {\"a\": true}\n]").Validate(d)
			default:
				k := 0
				fmt.Sscanf(u, "next:%d", &k)
				for i := 0; i < k; i++ {
					if _, err := d.NextLexeme(); err != nil {
						break
					}
				}
			}
		}
		return s.Validate(d)
	})
}

// ValidateSpec builds a fresh schema and validates one document.
func ValidateSpec(sp Spec, doc []byte) (add, check, val Res) {
	s, add := Build(sp)
	check = Check(s)
	val = Validate(s, doc)
	return
}

func Example(s *js.Schema) ([]byte, Res) {
	var out []byte
	r := Safe(func() error {
		b, err := s.Example()
		out = append([]byte(nil), b...)
		// the caller owns what it gets: overwrite it and write into its spare capacity (what a caller
		// who edits or extends the example does) - nothing the schema keeps may change through that
		for i := range b {
			b[i] = '#'
		}
		if cap(b) > len(b) {
			rest := b[len(b):cap(b)]
			for i := range rest {
				rest[i] = '#'
			}
		}
		return err
	})
	return out, r
}

func AST(s *js.Schema) (jschema.ASTNode, Res) {
	var n jschema.ASTNode
	r := Safe(func() error {
		var err error
		n, err = s.GetAST()
		return err
	})
	return n, r
}

func Used(s *js.Schema) ([]string, Res) {
	var u []string
	r := Safe(func() error {
		var err error
		u, err = s.UsedUserTypes()
		return err
	})
	return u, r
}

func Len(s *js.Schema) (uint, Res) {
	var l uint
	r := Safe(func() error {
		var err error
		l, err = s.Len()
		return err
	})
	return l, r
}
