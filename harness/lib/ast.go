package lib

import (
	jschema "github.com/jsightapi/jsight-schema-go-library"

	"verif/ref"
)

// ProjectAST converts the library's ASTNode into the projection the C16 statement lists.
func ProjectAST(n jschema.ASTNode) ref.XNode {
	x := ref.XNode{TokenType: string(n.TokenType), SchemaType: n.SchemaType, Key: n.Key, Value: n.Value, Comment: n.Comment, IsKeyShortcut: n.IsKeyShortcut}
	x.Rules = projectRules(n.Rules)
	for _, c := range n.Children {
		x.Children = append(x.Children, ProjectAST(c))
	}
	return x
}

func projectRules(m *jschema.RuleASTNodes) []ref.XRule {
	var out []ref.XRule
	if m == nil {
		return nil
	}
	m.EachSafe(func(k string, v jschema.RuleASTNode) {
		r := projectRule(v)
		r.Name = k
		out = append(out, r)
	})
	return out
}

func projectRule(v jschema.RuleASTNode) ref.XRule {
	r := ref.XRule{TokenType: string(v.TokenType), Value: v.Value, Comment: v.Comment, Source: int(v.Source)}
	r.Props = projectRules(v.Properties)
	for _, it := range v.Items {
		r.Items = append(r.Items, projectRule(it))
	}
	return r
}
