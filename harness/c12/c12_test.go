package c12

import (
	"encoding/json"
	"fmt"
	"os"
	"path/filepath"
	"runtime"
	"strings"
	"sync"
	"testing"

	"pgregory.net/rapid"

	"verif/gen"
	"verif/hist"
	"verif/run"
)

func TestMain(m *testing.M) { gen.Avoided = run.Avoided; run.Main(m, "C12") }

const chk = "concurrent-sharing"

type Call struct {
	Spec    int    `json:"spec"`
	Op      string `json:"op"`
	Private bool   `json:"private,omitempty"` // on a schema object this goroutine builds itself
	Yield   bool   `json:"yield,omitempty"`
}

type Case struct {
	Specs       []*hist.Spec `json:"specs"`
	Plans       [][]Call     `json:"plans"`
	Precompiled bool         `json:"shared_schemas_precompiled"`
	ShareTypes  bool         `json:"private_schemas_add_the_same_type_objects"`
	Procs       int          `json:"gomaxprocs"`
	// OracleAfter: the sequential results are computed after the concurrent run, not before it
	OracleAfter bool `json:"sequential_oracle_after_the_run,omitempty"`
}

func init() {
	run.RegisterReplay(chk, func(t run.TB, raw json.RawMessage) {
		var c Case
		if err := json.Unmarshal(raw, &c); err != nil {
			t.Fatalf("bad case: %v", err)
		}
		for i := 0; i < 60; i++ {
			execute(t, c)
		}
	})
}

func raceLogSize() int64 {
	pat := ""
	for _, kv := range strings.Fields(os.Getenv("GORACE")) {
		if strings.HasPrefix(kv, "log_path=") {
			pat = strings.TrimPrefix(kv, "log_path=")
		}
	}
	if pat == "" {
		return 0
	}
	var n int64
	ms, _ := filepath.Glob(pat + "*")
	for _, m := range ms {
		if st, err := os.Stat(m); err == nil {
			n += st.Size()
		}
	}
	return n
}

func raceLogTail() string {
	pat := ""
	for _, kv := range strings.Fields(os.Getenv("GORACE")) {
		if strings.HasPrefix(kv, "log_path=") {
			pat = strings.TrimPrefix(kv, "log_path=")
		}
	}
	ms, _ := filepath.Glob(pat + "*")
	for _, m := range ms {
		if b, err := os.ReadFile(m); err == nil && len(b) > 0 {
			if len(b) > 3000 {
				b = b[:3000]
			}
			return string(b)
		}
	}
	return ""
}

func execute(t run.TB, c Case) {
	old := runtime.GOMAXPROCS(c.Procs)
	defer runtime.GOMAXPROCS(old)
	// sequential oracle: every (spec, op) on a fresh object, single-threaded - before the goroutines
	// start, or (OracleAfter) after they have finished: then the concurrent calls are the first ones
	// of their kind in the process (whatever the library works out once per process - tables,
	// memoised answers - is worked out by goroutines racing to it)
	want := map[string]string{}
	oracle := func() {
		for _, plan := range c.Plans {
			for _, call := range plan {
				k := fmt.Sprintf("%d/%s", call.Spec, call.Op)
				if _, ok := want[k]; !ok {
					want[k], _ = hist.Do(hist.Build(c.Specs[call.Spec]), call.Op)
				}
			}
		}
	}
	if !c.OracleAfter {
		oracle()
	}
	type result struct {
		g, i int
		call Call
		got  string
	}
	var results []result
	before := raceLogSize()
	// shared objects
	shared := make([]*hist.Obj, len(c.Specs))
	for i, sp := range c.Specs {
		// (with ShareTypes the private schemas of the goroutines add the type objects of this one)
		shared[i] = hist.Build(sp)
		if c.Precompiled {
			hist.Do(shared[i], "Check")
		}
	}
	var wg sync.WaitGroup
	var mu sync.Mutex
	var devs []string
	start := make(chan struct{})
	for g, plan := range c.Plans {
		g, plan := g, plan
		wg.Add(1)
		go func() {
			defer wg.Done()
			<-start
			private := map[int]*hist.Obj{}
			for i, call := range plan {
				o := shared[call.Spec]
				if call.Private {
					if private[call.Spec] == nil {
						if c.ShareTypes {
							// the type objects of the shared object of this spec - or, for specs of a
							// sharing group, of the other spec of the group (same type objects, other
							// definitions of what they refer to)
							donor := shared[call.Spec]
							if g := c.Specs[call.Spec].Group; g != "" {
								for j, sp := range c.Specs {
									if j != call.Spec && sp.Group == g {
										donor = shared[j]
									}
								}
							}
							private[call.Spec] = hist.BuildSharing(c.Specs[call.Spec], donor)
						} else {
							private[call.Spec] = hist.Build(c.Specs[call.Spec])
						}
					}
					o = private[call.Spec]
				}
				got, _ := hist.Do(o, call.Op)
				mu.Lock()
				results = append(results, result{g, i, call, got})
				mu.Unlock()
				if call.Yield {
					runtime.Gosched()
				}
			}
		}()
	}
	close(start)
	wg.Wait()
	if c.OracleAfter {
		oracle()
	}
	for _, r := range results {
		if w := want[fmt.Sprintf("%d/%s", r.call.Spec, r.call.Op)]; r.got != w {
			devs = append(devs, fmt.Sprintf("goroutine %d call %d: %s on spec %d (private=%v) returned %s; sequentially it returns %s", r.g, r.i, r.call.Op, r.call.Spec, r.call.Private, trunc(r.got), trunc(w)))
		}
	}
	if len(devs) > 0 {
		run.Fail(t, chk, c, "%s", strings.Join(devs[:min(len(devs), 3)], "\n"))
	}
	if after := raceLogSize(); after > before {
		run.Fail(t, chk, c, "the race detector reported a data race during this plan:\n%s", raceLogTail())
	}
}

func trunc(s string) string {
	if len(s) > 200 {
		return s[:200] + "…"
	}
	return s
}

// usesAllOf: some TYPE of the spec uses allOf (a root that inherits from plain types is no matter
// of the recorded finding)
func usesAllOf(sp *hist.Spec) bool {
	for _, t := range sp.Schema.Types {
		if strings.Contains(t.Text, "allOf") {
			return true
		}
	}
	return false
}

func TestConcurrentSharing(t *testing.T) {
	run.SkipIfReplaying(t)
	defer run.Done(t, chk)
	rapid.Check(t, func(t *rapid.T) {
		c := Case{Precompiled: rapid.Bool().Draw(t, "precompiled"), ShareTypes: rapid.Bool().Draw(t, "shareTypes"),
			Procs: rapid.SampledFrom([]int{2, 4, 16}).Draw(t, "procs"), OracleAfter: rapid.Bool().Draw(t, "oracleAfter")}
		n := rapid.IntRange(1, 3).Draw(t, "specs")
		for i := 0; i < n; i++ {
			sp := hist.DrawSchemaSpec(t, fmt.Sprint("s", i), rapid.SampledFrom([]int{0, 1, 2, 0, 1, 2, 3, 4, 5, 6, 6}).Draw(t, "family"))
			if c.ShareTypes && usesAllOf(sp) {
				// (until 71a7e05 compiling a root rewrote the nodes of every added type that uses allOf,
				// and plans avoided sharing such type objects; nothing is avoided any more)
				run.Label("shared-type-objects-with-allOf")
			}
			c.Specs = append(c.Specs, sp)
		}
		if c.ShareTypes && rapid.IntRange(0, 2).Draw(t, "twins") == 0 {
			c.Specs = append(c.Specs, hist.DrawTwinSpecs(t, "tw")...)
			n = len(c.Specs)
			run.Label("roots-sharing-type-objects-but-not-their-definitions")
		}
		g := rapid.SampledFrom([]int{2, 4, 8, 16, 32}).Draw(t, "goroutines")
		overlap := false
		for i := 0; i < g; i++ {
			var plan []Call
			k := rapid.IntRange(5, run.Scale(15, 40)).Draw(t, "calls")
			for j := 0; j < k; j++ {
				spec := rapid.IntRange(0, n-1).Draw(t, "spec")
				call := Call{Spec: spec, Op: rapid.SampledFrom(hist.Ops(c.Specs[spec])).Draw(t, "op"),
					Private: rapid.IntRange(0, 3).Draw(t, "private") == 0, Yield: rapid.IntRange(0, 3).Draw(t, "yield") == 0}
				if !call.Private && (call.Op == "Example" || j == 0) {
					overlap = true
				}
				plan = append(plan, call)
			}
			c.Plans = append(c.Plans, plan)
		}
		execute(t, c)
		run.Eval(chk, overlap && g >= 2, fmt.Sprint(c.Plans), fmt.Sprint(len(c.Specs)))
		run.Label(fmt.Sprintf("goroutines:%d", g))
		if c.ShareTypes {
			run.Label("private-schemas-share-type-objects")
		}
		if !c.Precompiled {
			run.Label("first-use-races")
		}
		if g == 2 {
			run.Sample(chk, map[string]any{"goroutines": g, "plan0": c.Plans[0][:min(4, len(c.Plans[0]))], "specs": len(c.Specs), "share_types": c.ShareTypes, "precompiled": c.Precompiled})
		}
	})
}

func TestReplay(t *testing.T) { run.TestReplay(t) }
