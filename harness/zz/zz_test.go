package zz

import (
	"fmt"
	"testing"

	js "github.com/jsightapi/jsight-schema-go-library/notations/jschema"
)

func TestZ(t *testing.T) {
	for _, s := range []string{
		"{\n \"a\": 1, /* {min: 0} */\n /* stray */\n \"b\": 2\n}",
		"{\n \"a\": 1, // {min: 0}\n /* stray */\n \"b\": 2\n}",
		"{\n \"a\": 1, /* {min: 0} */\n // stray\n \"b\": 2\n}",
		"{\n \"a\": 1, /* {min: 0} */\r /* stray */\r \"b\": 2\r}",
		"{\n \"a\": 1,\n /* stray */\n \"b\": 2\n}",
		"{\n \"a\": 1\n /* stray */\n}",
		"{\n \"a\": 1 /* n */\n /* stray */\n}",
		"{\n \"a\": 1 /* n */\n // stray\n}",
		"[\n 1, /* n */\n /* stray */\n 2\n]",
		"[\n 1,\n /* stray */\n 2\n]",
		"[\n [1],\n // stray\n 2\n]",
		"[\n [\n1\n],\n // stray\n 2\n]",
		"[\n [\n1\n]\n // stray\n]",
		"{\n \"a\": [\n1\n],\n // stray\n \"b\": 2\n}",
		"{\n \"a\": [\n1\n]\n // stray\n}",
		"{\n \"a\": {\n\"x\":1\n}\n // stray\n}",
		"{\n \"a\": {\n\"x\":1\n} // stray after\n}",
		"{\n \"a\": {\n\"x\":1\n}, // stray after\n \"b\": 2 // nb\n}",
	} {
		sc := js.New("s", s)
		err := sc.Check()
		fmt.Printf("%-70q -> %v\n", s, err)
	}
}
