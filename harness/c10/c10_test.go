package c10

import (
	"encoding/json"
	"fmt"
	"math/big"
	"strings"
	"testing"

	"pgregory.net/rapid"

	js "github.com/jsightapi/jsight-schema-go-library/notations/jschema"

	"verif/lib"
	"verif/num"
	"verif/ref"
	"verif/run"
)

func TestMain(m *testing.M) { run.Main(m, "C10") }

const chk = "numeric-rule"

// Case: a one-node schema with a numeric rule whose parameter is M, and a document numeral N.
type Case struct {
	Rule string `json:"rule"` // min max xmin xmax precision integer enum const
	M    string `json:"m"`    // rule parameter (precision: p; integer: unused)
	N    string `json:"n"`    // document numeral
}

func init() {
	run.RegisterReplay(chk, func(t run.TB, raw json.RawMessage) {
		var c Case
		if err := json.Unmarshal(raw, &c); err != nil {
			t.Fatalf("bad case: %v", err)
		}
		check(t, c, nil)
	})
}

// floatExample returns a float example numeral (with a '.') on the satisfied side of the bound.
func floatExample(m ref.Decimal, up bool) string {
	r := m.Rat()
	one := big.NewRat(1, 1)
	if up {
		r.Add(r, one)
	} else {
		r.Sub(r, one)
	}
	s := r.FloatString(int(m.FractionDigits()))
	if !strings.Contains(s, ".") {
		s += ".5"
		// x.5 moves away from zero: for a negative value that is downwards, for a positive upwards;
		// re-check the side and fall back to one more step
		d, _ := ref.ParseDecimal(s)
		if up && d.Cmp(m) <= 0 || !up && d.Cmp(m) >= 0 {
			if up {
				r.Add(r, one)
			} else {
				r.Sub(r, one)
			}
			s = r.FloatString(0) + ".5"
		}
	}
	return s
}

// SchemaFor builds the schema text of a case; ok=false when the combination is outside the
// domain (e.g. a rule parameter with an exponent, which the schema language forbids).
func SchemaFor(c Case) (string, bool) {
	if c.Rule == "integer" {
		return "1", true
	}
	if c.Rule == "ap-integer" {
		// the other place where a numeral "counts as integer": the declared kind of additional properties
		return `{} // {additionalProperties: "integer"}`, true
	}
	if c.Rule == "precision" {
		return "0.5 // {precision: " + c.M + "}", true
	}
	if num.HasExp(c.M) {
		return "", false
	}
	m, ok := ref.ParseDecimal(c.M)
	if !ok {
		return "", false
	}
	switch c.Rule {
	case "min":
		return floatExample(m, true) + " // {min: " + c.M + "}", true
	case "max":
		return floatExample(m, false) + " // {max: " + c.M + "}", true
	case "xmin":
		return floatExample(m, true) + " // {min: " + c.M + ", exclusiveMinimum: true}", true
	case "xmax":
		return floatExample(m, false) + " // {exclusiveMaximum: true, max: " + c.M + "}", true
	case "enum":
		return c.M + " // {enum: [" + c.M + "]}", true
	case "const":
		return c.M + " // {const: true}", true
	}
	return "", false
}

// want: reference verdict; judged=false for the unspecified d.000 zone.
func want(c Case) (accept, judged bool) {
	if neg, zero, expNeg, huge := num.HugeExp(c.N); huge {
		return wantHuge(c, neg, zero, expNeg)
	}
	n, ok := ref.ParseDecimal(c.N)
	if !ok {
		panic("harness bug: N is not a numeral: " + c.N)
	}
	switch c.Rule {
	case "integer", "ap-integer":
		isInt, disputed := ref.NumberIsInteger(c.N)
		return isInt, !disputed
	case "precision":
		var p int64
		fmt.Sscan(c.M, &p)
		return n.FractionDigits() <= p, true
	}
	m, _ := ref.ParseDecimal(c.M)
	switch c.Rule {
	case "min":
		return n.Cmp(m) >= 0, true
	case "max":
		return n.Cmp(m) <= 0, true
	case "xmin":
		return n.Cmp(m) > 0, true
	case "xmax":
		return n.Cmp(m) < 0, true
	case "enum", "const":
		// equality is type-sensitive: an integer example admits integers only, a float example
		// floats and (kind compatibility) integers; equal value => equal normalised expansion
		exInt := ref.ExampleIsInteger(c.M)
		nInt, disputed := ref.NumberIsInteger(c.N)
		if disputed || ref.DisputedIntegerSpelling(c.M) {
			return false, false
		}
		if exInt != nInt {
			// integer document against float member (or the reverse): the statement's
			// "type-sensitive membership" vs "integer accepted for float" are in tension
			if n.Cmp(m) != 0 {
				return false, true
			}
			return false, false
		}
		return n.Cmp(m) == 0, true
	}
	panic("unknown rule")
}

// wantHuge: the document numeral has an exponent beyond +-100000 and a mantissa of a few digits, the
// rule parameter is a plain numeral of at most a few dozen digits: the value is zero, or further
// from zero than every parameter (positive exponent), or closer to zero than every non-zero
// parameter (negative exponent) - no expansion is needed to compare.
func wantHuge(c Case, neg, zero, expNeg bool) (accept, judged bool) {
	if zero {
		return false, false // 0e<huge>: zero, the zero-mantissa spelling is judged by the other families
	}
	sign := 1 // sign of the document value
	if neg {
		sign = -1
	}
	switch c.Rule {
	case "integer", "ap-integer":
		return !expNeg, true
	case "precision":
		return !expNeg, true // more fraction digits than any p <= 40, or none at all
	}
	m, _ := ref.ParseDecimal(c.M)
	// cmp: sign of (document value - parameter)
	cmp := sign
	if expNeg {
		// |value| is below every non-zero parameter's magnitude
		switch {
		case m.IsZero():
			cmp = sign
		case m.Neg:
			cmp = 1
		default:
			cmp = -1
		}
	}
	switch c.Rule {
	case "min", "xmin":
		return cmp > 0, true
	case "max", "xmax":
		return cmp < 0, true
	case "enum", "const":
		return false, true // never equal to a plain numeral of a few digits
	}
	panic("unknown rule")
}

type schemaCache map[string]*js.Schema

func check(t run.TB, c Case, cache schemaCache) (judged, accepted bool) {
	text, ok := SchemaFor(c)
	if !ok {
		return false, false
	}
	var s *js.Schema
	if cache != nil {
		s = cache[text]
	}
	if s == nil {
		var add lib.Res
		s, add = lib.Build(lib.Spec{Schema: text})
		_ = add
		if r := lib.Check(s); !r.OK {
			if num.ZeroMantissaExp(c.M) {
				return false, false
			}
			run.Fail(t, chk, c, "Check rejects the schema %q: %v", text, r)
		}
		if cache != nil {
			cache[text] = s
		}
	}
	w, j := want(c)
	if !j {
		run.Excluded("unspecified:d.000-spelling-or-int-vs-float-equality")
		return false, false
	}
	docText := c.N
	if c.Rule == "ap-integer" {
		docText = `{"k":` + c.N + `}`
	}
	r := lib.Validate(s, []byte(docText))
	if r.Panic != "" {
		run.Fail(t, chk, c, "Validate panicked: %s", r.Panic)
	}
	if r.OK != w {
		if !r.OK && w && num.ZeroMantissaExp(c.N) && run.MatchKnown("C10-zero-mantissa-exponent") {
			return false, false
		}
		if _, _, _, huge := num.HugeExp(c.N); huge && !r.OK && w && run.MatchKnown("C10-exponent-beyond-100000-rejected") {
			return false, false
		}
		if !r.OK && w && (c.Rule == "enum" || c.Rule == "const") && c.N != c.M && run.MatchKnown("C10-enum-const-raw-number-compare") {
			return false, false
		}
		run.Fail(t, chk, c, "schema %q, document %s: Validate=%v, exact decimal arithmetic says accept=%v", text, c.N, r, w)
	}
	return true, r.OK
}

func nontrivial(c Case) bool {
	if c.Rule == "integer" || c.Rule == "precision" || c.Rule == "ap-integer" {
		return strings.ContainsAny(c.N, ".eE")
	}
	m, ok1 := ref.ParseDecimal(c.M)
	n, ok2 := ref.ParseDecimal(c.N)
	if !ok1 || !ok2 {
		return false
	}
	if c.M == c.N {
		return false
	}
	if n.Cmp(m) == 0 {
		return true // equal value, different spelling
	}
	// adjacent: differ by less than 1 unit of the coarser last place, or sign flip of equal magnitude
	diff := new(big.Rat).Sub(n.Rat(), m.Rat())
	diff.Abs(diff)
	return diff.Cmp(big.NewRat(1, 1)) <= 0 || new(big.Rat).Add(n.Rat(), m.Rat()).Sign() == 0
}

var rules = []string{"min", "max", "xmin", "xmax", "enum", "const"}

// Exhaustive tier: all numerals up to L characters; all ordered pairs for the short ones, every
// longer numeral against a pivot set.
func TestExhaustivePairs(t *testing.T) {
	run.SkipIfReplaying(t)
	defer run.Done(t, chk)
	shortLen := run.Scale(3, 4)
	longLen := run.Scale(5, 7)
	short := num.Enumerate(shortLen)
	long := num.Enumerate(longLen)
	pivots := []string{"0", "-0", "1", "-1", "1.5", "-1.5", "0.1", "-0.1", "10", "100", "0.05", "9", "9.9", "15", "0.5", "5", "-5", "50", "0.9", "1.1", "99", "-10", "0.01", "1.05", "0.15"}
	shard, shards := run.Shard(), run.Shards()
	cache := schemaCache{}
	var n int64
	one := func(c Case) {
		j, acc := check(t, c, cache)
		run.Eval(chk, j && nontrivial(c), c.Rule, c.M, c.N)
		n++
		if j && n%30011 == 0 {
			run.Sample(chk, map[string]any{"rule": c.Rule, "m": c.M, "n": c.N, "accepted": acc})
		}
	}
	for i, m := range short {
		if i%shards != shard || num.HasExp(m) {
			continue
		}
		for _, r := range rules {
			for _, nn := range short {
				one(Case{Rule: r, M: m, N: nn})
			}
		}
		if len(cache) > 2000 {
			cache = schemaCache{}
		}
	}
	for _, m := range pivots {
		for _, r := range rules {
			for i, nn := range long {
				if i%shards != shard {
					continue
				}
				one(Case{Rule: r, M: m, N: nn})
			}
		}
	}
	for i, nn := range long {
		if i%shards != shard {
			continue
		}
		one(Case{Rule: "integer", N: nn})
		one(Case{Rule: "ap-integer", N: nn})
		one(Case{Rule: "ap-integer", N: nn}) // twice: the classification must not vary between calls
		for _, p := range []string{"1", "2", "3"} {
			one(Case{Rule: "precision", M: p, N: nn})
		}
	}
	run.LabelN("exhaustive-cases", n)
	run.Exhaustive(chk, fmt.Sprintf("all RFC 8259 numerals of <=%d characters over -0159.eE+ (%d numerals): every exponent-free one as rule parameter x every one as document x {min,max,exclusive min/max,enum,const}; all numerals of <=%d characters (%d) as documents against %d pivot parameters, the integer example, additionalProperties: \"integer\" and precision 1..3", shortLen, len(short), longLen, len(long), len(pivots)))
}

func TestRandomPairs(t *testing.T) {
	run.SkipIfReplaying(t)
	defer run.Done(t, chk)
	rapid.Check(t, func(t *rapid.T) {
		maxDigits := rapid.SampledFrom([]int{3, 8, 20, 60}).Draw(t, "maxDigits")
		m := num.Random(t, maxDigits, 0, false, "m")
		if rapid.IntRange(0, 5).Draw(t, "boundary") == 0 {
			// machine-word and power-of-ten boundaries (a comparison that goes through a fixed-width
			// integer or a float goes wrong around these)
			m = rapid.SampledFrom([]string{"2147483647", "2147483648", "4294967295", "4294967296", "9007199254740992", "9007199254740993",
				"9223372036854775807", "9223372036854775808", "18446744073709551615", "18446744073709551616", "18446744073709551617",
				"10000000000000000000", "20000000000000000000", "99999999999999999999", "100000000000000000000", "28446744073709551616",
				"340282366920938463463374607431768211456", "0.1", "0.30000000000000004", "1.7976931348623157"}).Draw(t, "boundaryM")
			if rapid.IntRange(0, 3).Draw(t, "boundaryNeg") == 0 {
				m = "-" + m
			}
		}
		rule := rapid.SampledFrom([]string{"min", "max", "xmin", "xmax", "enum", "const", "integer", "precision", "ap-integer"}).Draw(t, "rule")
		if rule == "precision" {
			m = fmt.Sprint(rapid.IntRange(1, 40).Draw(t, "p"))
		}
		cache := schemaCache{}
		k := rapid.IntRange(1, 8).Draw(t, "k")
		for i := 0; i < k; i++ {
			var n, kind string
			if rule == "integer" || rule == "ap-integer" || rule == "precision" || rapid.IntRange(0, 3).Draw(t, "fresh") == 0 {
				n, kind = num.Random(t, maxDigits, rapid.SampledFrom([]int{3, 30, 400}).Draw(t, "maxExp"), true, "n"), "random"
				if rapid.Bool().Draw(t, "respellFresh") {
					n, kind = num.Respell(t, n, true, "rs")
				}
			} else if rapid.IntRange(0, 3).Draw(t, "sameLen") == 0 {
				// another number with an integer part of exactly the same length (and sign)
				n, kind = num.SameLength(t, m, "sl"), "same-integer-length"
				if rapid.IntRange(0, 2).Draw(t, "respellSL") == 0 {
					n, _ = num.Respell(t, n, true, "rs")
					if d1, ok1 := ref.ParseDecimal(n); !ok1 || d1.Expansion() == "" {
						n = m
					}
				}
			} else {
				n, kind = num.Respell(t, m, true, "rs")
			}
			if !ref.Valid([]byte(n)) {
				t.Fatalf("harness bug: respelling %q is not a numeral", n)
			}
			c := Case{Rule: rule, M: m, N: n}
			j, acc := check(t, c, cache)
			run.Eval(chk, j && nontrivial(c), c.Rule, c.M, c.N)
			run.Label("spelling:" + kind)
			if j {
				run.Sample(chk, map[string]any{"rule": rule, "m": m, "n": n, "accepted": acc})
				if acc {
					run.Label("accepted")
				} else {
					run.Label("rejected")
				}
			}
		}
	})
}

// TestHugeExponents: document numerals whose exponent lies beyond +-100000, in particular around
// the powers of two at which a fixed-width exponent wraps.
func TestHugeExponents(t *testing.T) {
	run.SkipIfReplaying(t)
	defer run.Done(t, chk)
	rapid.Check(t, func(t *rapid.T) {
		m := num.Random(t, rapid.SampledFrom([]int{1, 3, 20}).Draw(t, "maxDigits"), 0, false, "m")
		rule := rapid.SampledFrom([]string{"min", "max", "xmin", "xmax", "enum", "const", "integer", "precision", "ap-integer"}).Draw(t, "rule")
		if rule == "precision" {
			m = fmt.Sprint(rapid.IntRange(1, 40).Draw(t, "p"))
		}
		base := rapid.SampledFrom([]string{"100001", "4294967296", "9223372036854775808", "18446744073709551616", "36893488147419103232",
			"340282366920938463463374607431768211456", "100000000000000000000"}).Draw(t, "base")
		e := new(big.Int)
		e.SetString(base, 10)
		e.Add(e, big.NewInt(int64(rapid.IntRange(-3, 400).Draw(t, "delta"))))
		if e.Cmp(big.NewInt(100000)) <= 0 {
			e.SetInt64(100001)
		}
		mant := num.Random(t, rapid.SampledFrom([]int{1, 2, 6}).Draw(t, "nDigits"), 0, false, "n")
		n := mant + rapid.SampledFrom([]string{"e", "E", "e+", "E-", "e-", "e-"}).Draw(t, "eSpelling") + rapid.SampledFrom([]string{"", "", "0", "000"}).Draw(t, "eZeros") + e.String()
		c := Case{Rule: rule, M: m, N: n}
		j, acc := check(t, c, schemaCache{})
		run.Eval(chk, j, c.Rule, c.M, c.N)
		run.Label("huge-exponent")
		if j {
			run.Sample(chk, map[string]any{"rule": rule, "m": m, "n": n, "accepted": acc})
		}
	})
}

func TestReplay(t *testing.T) { run.TestReplay(t) }
