package c08

import (
	"encoding/json"
	"fmt"
	"sort"
	"strings"
	"testing"

	"pgregory.net/rapid"

	js "github.com/jsightapi/jsight-schema-go-library/notations/jschema"
	"verif/gen"

	"verif/lib"
	"verif/ref"
	"verif/run"
)

func TestMain(m *testing.M) { run.Main(m, "C08") }

const chk = "rule-applicability"

type Case struct {
	Kind   ref.NodeKind   `json:"kind"`
	IsProp bool           `json:"is_object_property"`
	Rules  []ref.RuleAtom `json:"rules"` // in written order
}

func init() {
	run.RegisterReplay(chk, func(t run.TB, raw json.RawMessage) {
		var c Case
		if err := json.Unmarshal(raw, &c); err != nil {
			t.Fatalf("bad case: %v", err)
		}
		checkAllOrders(t, c, true)
	})
}

var types = []lib.Named{
	{Name: "@p", Text: `{"pp": 1}`}, {Name: "@e", Text: `{}`}, {Name: "@t", Text: `{"a": 1}`}, {Name: "@tinteger", Text: "1"}, {Name: "@tfloat", Text: "1.5"},
	{Name: "@tstring", Text: `"s"`}, {Name: "@tboolean", Text: "true"}, {Name: "@tnull", Text: "null"},
}

var kinds = []ref.NodeKind{ref.NKObject, ref.NKEmptyObject, ref.NKArray, ref.NKEmptyArray, ref.NKString, ref.NKInteger, ref.NKFloat, ref.NKBoolean, ref.NKNull, ref.NKRef}

// atoms: the rule vocabulary (name, variant); tokens are resolved per kind in build().
var atoms = []ref.RuleAtom{
	{Name: "min"}, {Name: "min", Variant: "eq"}, {Name: "max"}, {Name: "max", Variant: "eq"}, {Name: "max", Variant: "disordered"},
	{Name: "exclusiveMinimum", Variant: "true"}, {Name: "exclusiveMinimum", Variant: "false"},
	{Name: "exclusiveMaximum", Variant: "true"}, {Name: "exclusiveMaximum", Variant: "false"},
	{Name: "precision"}, {Name: "minLength"}, {Name: "maxLength"}, {Name: "maxLength", Variant: "disordered"}, {Name: "regex"}, {Name: "regex", Variant: "escaped"},
	{Name: "minItems"}, {Name: "maxItems"}, {Name: "maxItems", Variant: "disordered"},
	{Name: "additionalProperties"}, {Name: "allOf"}, {Name: "allOf", Variant: "empty-parent"}, {Name: "enum"}, {Name: "or"}, {Name: "or", Variant: "disordered-set"}, {Name: "or", Variant: "ordered-set"}, {Name: "or", Variant: "format-with-length-set"}, {Name: "or", Variant: "ref-nullable-set"}, {Name: "or", Variant: "ref-optional-set"},
	{Name: "or", Variant: "exclusive-empty-set"}, {Name: "or", Variant: "exclusive-ok-set"}, {Name: "or", Variant: "foreign-kind-set"}, {Name: "or", Variant: "foreign-rule-same-kind-set"}, {Name: "or", Variant: "huge-length-set"}, {Name: "or", Variant: "with-any"}, {Name: "or", Variant: "foreign-rule-same-kind-admitted-set"}, {Name: "or", Variant: "inert-only-set"}, {Name: "or", Variant: "inert-false-in-set"}, {Name: "or", Variant: "two-kinds-typeless-set"},
	{Name: "minLength", Variant: "huge"}, {Name: "minItems", Variant: "huge"}, {Name: "precision", Variant: "huge"},
	{Name: "type", Variant: "kind"}, {Name: "type", Variant: "any"}, {Name: "type", Variant: "ref"}, {Name: "type", Variant: "decimal"}, {Name: "type", Variant: "date"}, {Name: "type", Variant: "mixed"}, {Name: "type", Variant: "mixed-again"},
	{Name: "type", Variant: "enum"}, {Name: "type", Variant: "enum-escaped"}, {Name: "type", Variant: "kind-escaped"},
	{Name: "optional", Variant: "true"}, {Name: "optional", Variant: "false"}, {Name: "nullable", Variant: "true"}, {Name: "nullable", Variant: "false"},
	{Name: "const", Variant: "true"}, {Name: "const", Variant: "false"}, {Name: "foo"},
}

func kindName(k ref.NodeKind) string {
	switch k {
	case ref.NKObject, ref.NKEmptyObject:
		return "object"
	case ref.NKArray, ref.NKEmptyArray:
		return "array"
	}
	return string(k)
}

// build turns a case into the model; ok=false when an atom has no rendering for the kind.
func build(c Case) (*ref.SNode, []ref.RuleAtom, bool) {
	n := &ref.SNode{}
	isDate := false
	for _, a := range c.Rules {
		if a.Name == "type" && a.Variant == "date" {
			isDate = true
		}
	}
	exNum := ""
	switch c.Kind {
	case ref.NKObject:
		n.Kind = ref.SObj
		n.Props = []ref.SProp{{Key: "k", KeyTok: `"k"`, Val: &ref.SNode{Kind: ref.SLit, Lit: ref.KNumber, Tok: "1"}}}
	case ref.NKEmptyObject:
		n.Kind = ref.SObj
	case ref.NKArray:
		n.Kind = ref.SArr
		n.Items = []*ref.SNode{{Kind: ref.SLit, Lit: ref.KNumber, Tok: "1"}, {Kind: ref.SLit, Lit: ref.KNumber, Tok: "2"}}
	case ref.NKEmptyArray:
		n.Kind = ref.SArr
	case ref.NKString:
		n.Kind, n.Lit, n.Tok, n.Str = ref.SLit, ref.KString, `"abc"`, "abc"
		if isDate {
			n.Tok, n.Str = `"2021-01-01"`, "2021-01-01"
		}
	case ref.NKInteger:
		n.Kind, n.Lit, n.Tok = ref.SLit, ref.KNumber, "5"
		exNum = "5"
	case ref.NKFloat:
		n.Kind, n.Lit, n.Tok = ref.SLit, ref.KNumber, "5.5"
		exNum = "5.5"
	case ref.NKBoolean:
		n.Kind, n.Lit, n.Tok = ref.SLit, ref.KTrue, "true"
	case ref.NKNull:
		n.Kind, n.Lit, n.Tok = ref.SLit, ref.KNull, "null"
	case ref.NKRef:
		n.Kind, n.Names = ref.SRef, []string{"@t"}
		for _, a := range c.Rules {
			if a.Name == "type" && strings.HasPrefix(a.Variant, "mixed") {
				n.Names = []string{"@t", "@tstring"} // "mixed" is the type of a list of types
			}
		}
	}
	frac := ""
	if c.Kind == ref.NKFloat {
		frac = ".5"
	}
	resolved := make([]ref.RuleAtom, len(c.Rules))
	for i, a := range c.Rules {
		r := ref.SRule{Name: a.Name, ValKind: ref.RVScalar}
		switch a.Name {
		case "min":
			r.Tok = "4" + frac
			if a.Variant == "eq" {
				r.Tok = "5" + frac
			}
			if exNum == "" {
				r.Tok = "0"
			}
		case "max":
			r.Tok = "6" + frac
			switch a.Variant {
			case "eq":
				r.Tok = "5" + frac
			case "disordered":
				r.Tok = "3" + frac
			}
			if exNum == "" && a.Variant == "" {
				r.Tok = "100"
			}
		case "exclusiveMinimum", "exclusiveMaximum", "optional", "nullable", "const":
			r.Tok = a.Variant
		case "precision":
			r.Tok = "2"
			if a.Variant == "huge" {
				r.Tok = "18446744073709551617" // 2^64+1: as precision 1 it would exclude the example 5.5? no - it must not be read as 1 at all
			}
		case "minLength":
			r.Tok = "1"
			if a.Variant == "huge" {
				r.Tok = "18446744073709551616" // 2^64: no string is that long, and it is above every maxLength
			}
		case "maxLength":
			r.Tok = "12"
			if a.Variant == "disordered" {
				r.Tok = "0"
			}
		case "regex":
			r.Tok = `"^[a2]"`
			if a.Variant == "escaped" {
				r.Tok = `"^[\u00612]"` // the same pattern, one character written as an escape
			}
		case "minItems":
			r.Tok = "1"
			if a.Variant == "huge" {
				r.Tok = "18446744073709551617"
			}
		case "maxItems":
			r.Tok = "5"
			if a.Variant == "disordered" {
				r.Tok = "0"
			}
		case "additionalProperties":
			r.Tok = "true"
		case "allOf":
			r.ValKind, r.AllOf = ref.RVAllOf, []string{"@p"}
			if a.Variant == "empty-parent" {
				r.AllOf = []string{"@e"} // a parent type that contributes nothing
			}
		case "enum":
			r.ValKind = ref.RVEnum
			ex := ref.EnumItem{Kind: n.Lit, Tok: n.Tok, Str: n.Str}
			if n.Kind != ref.SLit {
				ex = ref.EnumItem{Kind: ref.KNumber, Tok: "1"}
			}
			r.Enum = []ref.EnumItem{ex, {Kind: ref.KString, Tok: `"zz"`, Str: "zz"}}
		case "or":
			r.ValKind = ref.RVOr
			kn := kindName(c.Kind)
			if n.Kind != ref.SLit {
				kn = "string"
			}
			other := "null"
			if kn == "null" {
				other = "boolean"
			}
			r.Or = []ref.OrItem{{Name: kn}, {Name: other}}
			switch a.Variant {
			case "disordered-set": // an alternative rule set whose own pair is out of order
				pair := []ref.SRule{gen.TokRule("min", "5"), gen.TokRule("max", "1")}
				if c.Kind == ref.NKInteger || c.Kind == ref.NKFloat {
					pair = []ref.SRule{gen.TokRule("minLength", "5"), gen.TokRule("maxLength", "1")}
				}
				r.Or = []ref.OrItem{{Rules: pair}, {Rules: []ref.SRule{gen.StrRule("type", kn)}}}
			case "ref-nullable-set": // a reference to a type of another kind than the example, written as a rule set that also admits null
				other := "@tinteger"
				if c.Kind == ref.NKInteger {
					other = "@tstring"
				}
				r.Or = []ref.OrItem{{Rules: []ref.SRule{gen.StrRule("type", other), gen.BoolRule("nullable", true)}}, {Rules: []ref.SRule{gen.StrRule("type", kn)}}}
			case "ref-optional-set": // optional has no place inside an alternative
				r.Or = []ref.OrItem{{Rules: []ref.SRule{gen.StrRule("type", "@tinteger"), gen.BoolRule("optional", true)}}, {Rules: []ref.SRule{gen.StrRule("type", kn)}}}
			case "format-with-length-set": // an alternative rule set that puts a length rule next to a format type
				r.Or = []ref.OrItem{{Rules: []ref.SRule{gen.StrRule("type", "email"), gen.TokRule("minLength", "3")}}, {Rules: []ref.SRule{gen.StrRule("type", kn)}}}
			case "exclusive-empty-set": // min == max with an exclusive flag: the interval is empty
				flag := gen.BoolRule("exclusiveMinimum", true)
				if c.Kind == ref.NKString {
					flag = gen.BoolRule("exclusiveMaximum", true)
				}
				r.Or = []ref.OrItem{{Rules: []ref.SRule{gen.StrRule("type", "integer"), gen.TokRule("min", "1"), flag, gen.TokRule("max", "1")}}, {Rules: []ref.SRule{gen.StrRule("type", kn)}}}
			case "exclusive-ok-set":
				r.Or = []ref.OrItem{{Rules: []ref.SRule{gen.TokRule("max", "2"), gen.StrRule("type", "integer"), gen.TokRule("min", "1"), gen.BoolRule("exclusiveMinimum", true)}}, {Rules: []ref.SRule{gen.StrRule("type", kn)}}}
			case "foreign-kind-set": // a rule that does not apply to the kind the rule set declares
				bad := []ref.SRule{gen.StrRule("type", "integer"), gen.TokRule("minLength", "1")}
				if c.Kind == ref.NKInteger || c.Kind == ref.NKFloat {
					bad = []ref.SRule{gen.TokRule("min", "1"), gen.StrRule("type", "string")}
				}
				r.Or = []ref.OrItem{{Rules: bad}, {Rules: []ref.SRule{gen.StrRule("type", kn)}}}
			case "foreign-rule-same-kind-set": // the rule set declares the kind of the example itself and carries a rule for another kind
				bad := []ref.SRule{gen.StrRule("type", kn), gen.TokRule("minLength", "1")}
				if c.Kind == ref.NKString {
					bad = []ref.SRule{gen.TokRule("minItems", "0"), gen.StrRule("type", kn)}
				}
				r.Or = []ref.OrItem{{Rules: bad}, {Name: other}}
			case "foreign-rule-same-kind-admitted-set": // the same, and another alternative admits the example: the rule set is wrong all the same
				bad := []ref.SRule{gen.StrRule("type", kn), gen.TokRule("minLength", "1")}
				if c.Kind == ref.NKString {
					bad = []ref.SRule{gen.TokRule("minItems", "0"), gen.StrRule("type", kn)}
				}
				r.Or = []ref.OrItem{{Rules: bad}, {Name: kn}}
			case "huge-length-set": // 2^64 as a length bound: above every maxLength
				r.Or = []ref.OrItem{{Rules: []ref.SRule{gen.StrRule("type", "string"), gen.TokRule("minLength", "18446744073709551616"), gen.TokRule("maxLength", "5")}}, {Rules: []ref.SRule{gen.StrRule("type", kn)}}}
			case "with-any": // the bare name "any" next to a kind the example is not of
				r.Or = []ref.OrItem{{Name: "any"}, {Name: other}}
			case "inert-only-set": // a rule set made of rules that ask nothing (value false), next to the example's kind
				r.Or = []ref.OrItem{{Rules: []ref.SRule{gen.BoolRule("nullable", false)}}, {Name: kn}}
			case "inert-false-in-set": // nullable: false / const: false written next to the type of a rule set
				r.Or = []ref.OrItem{{Rules: []ref.SRule{gen.StrRule("type", kn), gen.BoolRule("nullable", false)}}, {Rules: []ref.SRule{gen.BoolRule("const", false), gen.StrRule("type", other)}}}
			case "two-kinds-typeless-set": // a rule set that names no type and holds rules for two different kinds: whatever kind it stands for, one of them does not apply
				pairs := [][]ref.SRule{{gen.TokRule("min", "1"), gen.TokRule("minLength", "1")}, {gen.TokRule("minItems", "1"), gen.StrRule("regex", "a")}, {gen.TokRule("maxLength", "9"), gen.TokRule("maxItems", "3")},
					{gen.TokRule("additionalProperties", "true"), gen.TokRule("max", "9")}, {gen.TokRule("minLength", "0"), gen.TokRule("max", "1")}}
				pair := pairs[(len(c.Rules)+len(kn))%len(pairs)]
				r.Or = []ref.OrItem{{Rules: pair}, {Name: kn}}
			case "ordered-set":
				pair := []ref.SRule{gen.TokRule("min", "1"), gen.TokRule("max", "5")}
				if c.Kind == ref.NKInteger || c.Kind == ref.NKFloat {
					pair = []ref.SRule{gen.TokRule("minLength", "1"), gen.TokRule("maxLength", "5")}
				}
				r.Or = []ref.OrItem{{Rules: pair}, {Rules: []ref.SRule{gen.StrRule("type", kn)}}}
			}
		case "type":
			switch a.Variant {
			case "kind":
				if c.Kind == ref.NKRef {
					return nil, nil, false
				}
				r.Tok = `"` + kindName(c.Kind) + `"`
			case "kind-escaped": // the kind name with one character written as an escape sequence
				if c.Kind == ref.NKRef {
					return nil, nil, false
				}
				kn := kindName(c.Kind)
				r.Tok = `"` + kn[:1] + fmt.Sprintf(`\u%04x`, kn[1]) + kn[2:] + `"`
			case "enum":
				r.Tok = `"enum"`
			case "enum-escaped":
				r.Tok = `"\u0065num"`
			case "any":
				r.Tok = `"any"`
			case "ref":
				if n.Kind != ref.SLit {
					r.Tok = `"@t"`
				} else {
					r.Tok = `"@t` + kindName(c.Kind) + `"`
				}
			case "mixed", "mixed-again": // what a list of types written as a shortcut stands for
				if c.Kind != ref.NKRef {
					return nil, nil, false
				}
				r.Tok = `"mixed"`
			case "decimal":
				r.Tok = `"decimal"`
			case "date":
				if c.Kind != ref.NKString {
					return nil, nil, false
				}
				r.Tok = `"date"`
			}
		case "foo":
			r.Tok = "1"
		}
		n.Rules = append(n.Rules, r)
		resolved[i] = a
		resolved[i].Tok = r.Tok
	}
	root := n
	if c.IsProp {
		root = &ref.SNode{Kind: ref.SObj, Props: []ref.SProp{{Key: "p", KeyTok: `"p"`, Val: n}}}
	}
	return root, resolved, true
}

func verdict(c Case) (accepted bool, res lib.Res, schema string, ok bool) {
	root, _, ok := build(c)
	if !ok {
		return false, lib.Res{}, "", false
	}
	schema = string(gen.PrintSchema(root, nil))
	s, add := lib.Build(lib.Spec{Schema: schema, Types: types})
	_ = add
	res = lib.Check(s)
	return res.OK, res, schema, true
}

// verdictAsType: the same text used as a user type that two root schemas share (the type object is
// also checked on its own first in half of the cases): what Check says about the rules of a text
// does not depend on whether it is the root or a type of the root, nor on how often the type object
// has been compiled before. Returns the three verdicts (type alone, root 1, root 2).
func verdictAsType(schema string, checkTypeFirst bool) (alone, r1, r2 lib.Res) {
	ty := js.New("@case", schema)
	for _, n := range types {
		n := n
		lib.Safe(func() error { return ty.AddType(n.Name, js.New(n.Name, n.Text)) })
	}
	alone = lib.Res{OK: true}
	if checkTypeFirst {
		alone = lib.Check(ty)
	}
	mk := func(name string) lib.Res {
		root := js.New(name, "@case")
		if a := lib.Safe(func() error { return root.AddType("@case", ty) }); !a.OK {
			return a
		}
		for _, n := range types {
			n := n
			lib.Safe(func() error { return root.AddType(n.Name, js.New(n.Name, n.Text)) })
		}
		return lib.Check(root)
	}
	return alone, mk("root1"), mk("root2")
}

func permutations(n int) [][]int {
	if n == 0 {
		return [][]int{{}}
	}
	var out [][]int
	var rec func(cur []int, used []bool)
	rec = func(cur []int, used []bool) {
		if len(cur) == n {
			out = append(out, append([]int(nil), cur...))
			return
		}
		for i := 0; i < n; i++ {
			if !used[i] {
				used[i] = true
				rec(append(cur, i), used)
				used[i] = false
			}
		}
	}
	rec(nil, make([]bool, n))
	return out
}

// checkAllOrders runs the rule set in every order (allPerms) or in the given order plus two more.
func checkAllOrders(t run.TB, c Case, allPerms bool) (judged bool) {
	_, resolved, ok := build(c)
	if !ok {
		return false
	}
	want, judged, why := ref.Applicable(c.Kind, c.IsProp, resolved)
	perms := permutations(len(c.Rules))
	var first *bool
	var firstOrder string
	for _, p := range perms {
		pc := Case{Kind: c.Kind, IsProp: c.IsProp}
		for _, i := range p {
			pc.Rules = append(pc.Rules, c.Rules[i])
		}
		acc, res, schema, _ := verdict(pc)
		if res.Panic != "" {
			run.Fail(t, chk, pc, "Check panicked on %q: %s", schema, res.Panic)
		}
		if judged && acc && !want && twoMixedTypeRules(pc) && run.MatchKnown("C08-type-mixed-twice-on-a-type-list") {
			return false
		}
		if judged && acc != want {
			run.Fail(t, chk, pc, "Check(%q) accepted=%v (%v); the applicability clauses say accept=%v (%s)", schema, acc, res, want, why)
		}
		if !pc.IsProp || true {
			// as a shared user type (roots see the type's own root node: "optional" has no property to
			// sit on there, so such cases are judged as non-properties are)
			hasOptional := false
			for _, a := range pc.Rules {
				hasOptional = hasOptional || a.Name == "optional"
			}
			if !hasOptional || pc.IsProp {
				alone, v1, v2 := verdictAsType(schema, len(schema)%2 == 0)
				for _, v := range []lib.Res{alone, v1, v2} {
					if v.Panic != "" {
						run.Fail(t, chk, pc, "Check panicked on %q used as a shared type: %s", schema, v.Panic)
					}
				}
				if v1.OK != acc || v2.OK != acc || (len(schema)%2 == 0 && alone.OK != acc) {
					run.Fail(t, chk, pc, "Check(%q) accepted=%v as a root, but as a type shared by two roots: checked alone %v, root 1 %v, root 2 %v", schema, acc, alone, v1, v2)
				}
			}
		}
		if first == nil {
			a := acc
			first, firstOrder = &a, schema
		} else if *first != acc {
			if shortcutWithManualTypeRules(pc) && run.MatchKnown("C08-type-shortcut-with-manual-type-and-or-order") {
				return false
			}
			if twoMixedTypeRules(pc) && run.MatchKnown("C08-type-mixed-twice-on-a-type-list") {
				return false
			}
			run.Fail(t, chk, pc, "verdict depends on rule order: %q accepted=%v but %q accepted=%v (%v)", firstOrder, *first, schema, acc, res)
		}
		if acc {
			run.Label("accepted")
		} else {
			run.Label("rejected")
		}
	}
	if !judged {
		run.Excluded("no-clause:" + strings.SplitN(why, ":", 2)[0])
	}
	return judged
}

// shortcutWithManualTypeRules: narrow matcher of the recorded finding – a type shortcut (@t)
// annotated with both a manual `type` rule and an `or` rule.
// twoMixedTypeRules: the recorded finding - a list of types with the rule type: "mixed" written twice.
func twoMixedTypeRules(c Case) bool {
	n, mixed := 0, 0
	for _, r := range c.Rules {
		if r.Name == "type" {
			n++
			if strings.HasPrefix(r.Variant, "mixed") {
				mixed++
			}
		}
	}
	return c.Kind == ref.NKRef && n >= 2 && mixed >= 1
}

func shortcutWithManualTypeRules(c Case) bool {
	hasType, hasOr := false, false
	for _, r := range c.Rules {
		if r.Name == "type" {
			hasType = true
		}
		if r.Name == "or" {
			hasOr = true
		}
	}
	return c.Kind == ref.NKRef && hasType && hasOr
}

func key(c Case) string {
	var names []string
	for _, r := range c.Rules {
		names = append(names, r.Name+"/"+r.Variant)
	}
	sort.Strings(names)
	return fmt.Sprint(c.Kind, c.IsProp, names)
}

func TestExhaustiveSmallSets(t *testing.T) {
	run.SkipIfReplaying(t)
	defer run.Done(t, chk)
	maxSize := run.Scale(2, 3)
	shard, shards := run.Shard(), run.Shards()
	var n int64
	var rec func(start int, cur []ref.RuleAtom, k ref.NodeKind, isProp bool)
	rec = func(start int, cur []ref.RuleAtom, k ref.NodeKind, isProp bool) {
		if len(cur) > 0 {
			c := Case{Kind: k, IsProp: isProp, Rules: append([]ref.RuleAtom(nil), cur...)}
			if _, _, ok := build(c); ok {
				judged := checkAllOrders(t, c, true)
				nt := len(cur) >= 2 || (judged && len(cur) == 1)
				run.Eval(chk, nt, key(c))
				n++
				if n%997 == 0 {
					run.Sample(chk, c)
				}
			}
		}
		if len(cur) == maxSize {
			return
		}
		for i := start; i < len(atoms); i++ {
			rec(i+1, append(cur, atoms[i]), k, isProp)
		}
	}
	idx := 0
	for _, k := range kinds {
		for _, isProp := range []bool{false, true} {
			if idx%shards == shard {
				rec(0, nil, k, isProp)
			}
			idx++
		}
	}
	run.LabelN("exhaustive-rule-sets", n)
	run.Exhaustive(chk, fmt.Sprintf("every subset of size 1..%d of the %d rule atoms x %d node kinds x {root, object property} x all permutations", maxSize, len(atoms), len(kinds)))
}

// Every triple of rules that belong together (all numeric, all about strings, all about arrays,
// all about objects), on the kinds they are about: the three-rule interactions (a flag whose
// bound is missing next to another bound, a format type next to two length rules ...).
func TestExhaustiveRelatedTriples(t *testing.T) {
	run.SkipIfReplaying(t)
	defer run.Done(t, chk)
	generic := map[string]bool{"type": true, "const": true, "nullable": true, "optional": true, "or": true, "enum": true}
	families := []struct {
		names map[string]bool
		kinds []ref.NodeKind
	}{
		{map[string]bool{"min": true, "max": true, "exclusiveMinimum": true, "exclusiveMaximum": true, "precision": true}, []ref.NodeKind{ref.NKInteger, ref.NKFloat}},
		{map[string]bool{"minLength": true, "maxLength": true, "regex": true}, []ref.NodeKind{ref.NKString}},
		{map[string]bool{"minItems": true, "maxItems": true}, []ref.NodeKind{ref.NKArray, ref.NKEmptyArray}},
		{map[string]bool{"additionalProperties": true, "allOf": true}, []ref.NodeKind{ref.NKObject, ref.NKEmptyObject}},
	}
	shard, shards := run.Shard(), run.Shards()
	var n int64
	idx := 0
	for _, fam := range families {
		var pool []ref.RuleAtom
		for _, a := range atoms {
			if fam.names[a.Name] || generic[a.Name] {
				pool = append(pool, a)
			}
		}
		for _, k := range fam.kinds {
			for _, isProp := range []bool{false, true} {
				idx++
				if idx%shards != shard {
					continue
				}
				for i := 0; i < len(pool); i++ {
					for j := i + 1; j < len(pool); j++ {
						for l := j + 1; l < len(pool); l++ {
							own := 0
							for _, a := range []ref.RuleAtom{pool[i], pool[j], pool[l]} {
								if fam.names[a.Name] {
									own++
								}
							}
							if own == 0 {
								continue // three generic rules: covered per kind by the sampled larger sets
							}
							c := Case{Kind: k, IsProp: isProp, Rules: []ref.RuleAtom{pool[i], pool[j], pool[l]}}
							if _, _, ok := build(c); !ok {
								continue
							}
							checkAllOrders(t, c, true)
							run.Eval(chk, true, key(c))
							n++
							if n%1999 == 0 {
								run.Sample(chk, c)
							}
						}
					}
				}
			}
		}
	}
	run.LabelN("exhaustive-related-triples", n)
	run.Exhaustive(chk, "every 3-subset of the rule atoms of one family (numeric bounds+flags+precision / string lengths+regex / item counts / object rules, each together with type, const, nullable, optional, or, enum atoms) on the node kinds of that family x {root, object property} x all 6 orders")
}

func TestRandomLargerSets(t *testing.T) {
	run.SkipIfReplaying(t)
	defer run.Done(t, chk)
	rapid.Check(t, func(t *rapid.T) {
		k := rapid.SampledFrom(kinds).Draw(t, "kind")
		isProp := rapid.Bool().Draw(t, "prop")
		size := rapid.IntRange(3, 5).Draw(t, "size")
		perm := rapid.Permutation(atoms).Draw(t, "atoms")
		// bias towards sets that can be accepted: drop atoms that do not apply to the kind half of the time
		var chosen []ref.RuleAtom
		for _, a := range perm {
			if len(chosen) == size {
				break
			}
			if ok, j, _ := ref.Applicable(k, isProp, append(append([]ref.RuleAtom(nil), chosen...), a)); j && !ok && rapid.IntRange(0, 3).Draw(t, "keepBad") > 0 {
				continue
			}
			chosen = append(chosen, a)
		}
		c := Case{Kind: k, IsProp: isProp, Rules: chosen}
		if _, _, ok := build(c); !ok {
			return
		}
		judged := checkAllOrders(t, c, true)
		run.Eval(chk, true, key(c))
		run.Sample(chk, c)
		if judged {
			run.Label("judged-by-table")
		} else {
			run.Label("order-independence-only")
		}
	})
}

// A type added after the schema has been used: either AddType refuses it, or Check's next verdict
// is about the schema including that type. A verdict frozen at the first call while AddType keeps
// reporting success would make "Check succeeds iff every rule applies" false.
const chkLate = "type-added-after-first-use"

type LateCase struct {
	Root  string `json:"root"`
	First string `json:"first_use"` // check | ast | example | validate | len
	Name  string `json:"type_name"`
	Type  string `json:"type_text"`
	Valid bool   `json:"type_is_valid"`
}

func init() {
	run.RegisterReplay(chkLate, func(t run.TB, raw json.RawMessage) {
		var c LateCase
		if err := json.Unmarshal(raw, &c); err != nil {
			t.Fatalf("bad case: %v", err)
		}
		checkLate(t, c)
	})
}

func checkLate(t run.TB, c LateCase) {
	// the reference: the same objects, the type added before the first use
	early := js.New("root", c.Root)
	addEarly := lib.Safe(func() error { return early.AddType(c.Name, js.New(c.Name, c.Type)) })
	want := lib.Check(early)
	if !addEarly.OK {
		want = addEarly
	}
	late := js.New("root", c.Root)
	switch c.First {
	case "check":
		lib.Check(late)
	case "ast":
		lib.AST(late)
	case "example":
		lib.Example(late)
	case "validate":
		lib.Validate(late, []byte("1"))
	case "len":
		lib.Safe(func() error { _, err := late.Len(); return err })
	}
	add := lib.Safe(func() error { return late.AddType(c.Name, js.New(c.Name, c.Type)) })
	if add.Panic != "" {
		run.Fail(t, chkLate, c, "AddType after %s panicked: %s", c.First, add.Panic)
	}
	if !add.OK {
		return // refused: the caller knows the type is not part of the schema
	}
	got := lib.Check(late)
	if got.OK != want.OK {
		run.Fail(t, chkLate, c, "AddType after %s reports success, but Check then says %v; with the type added first it says %v", c.First, got, want)
	}
}

func TestLateAddType(t *testing.T) {
	run.SkipIfReplaying(t)
	defer run.Done(t, chkLate)
	rapid.Check(t, func(t *rapid.T) {
		c := LateCase{First: rapid.SampledFrom([]string{"check", "check", "ast", "example", "validate", "len"}).Draw(t, "first")}
		uses := rapid.Bool().Draw(t, "rootUsesType")
		c.Name = "@late"
		c.Root = rapid.SampledFrom([]string{"{\n  \"id\": 1\n}", "[1, 2]", "\"s\" // {minLength: 1}"}).Draw(t, "root")
		if uses {
			c.Root = rapid.SampledFrom([]string{"{\n  \"id\": @late\n}", "@late", "[@late]", "1 // {type: \"@late\"}"}).Draw(t, "rootWithRef")
		}
		c.Valid = rapid.Bool().Draw(t, "valid")
		if c.Valid {
			c.Type = rapid.SampledFrom([]string{"1 // {min: 0}", "\"x\"", "{\n  \"k\": true\n}"}).Draw(t, "type")
		} else {
			c.Type = rapid.SampledFrom([]string{"\"x\" // {min: 1}", "1 // {minLength: 2}", "5 // {max: 1}", "{ // {minItems: 1}\n  \"k\": 1\n}", "1 // {foo: 1}"}).Draw(t, "badType")
		}
		checkLate(t, c)
		run.Eval(chkLate, true, c.Root, c.First, c.Type)
		run.Label("late-type:first-use-" + c.First)
		run.Sample(chkLate, c)
	})
}

func TestReplay(t *testing.T) { run.TestReplay(t) }
