package c09

import (
	"encoding/json"
	"fmt"
	"os"
	"regexp"
	"runtime"
	"sort"
	"strings"
	"testing"
	"time"

	"pgregory.net/rapid"

	js "github.com/jsightapi/jsight-schema-go-library/notations/jschema"

	"verif/gen"
	"verif/lib"
	"verif/ref"
	"verif/run"
)

func TestMain(m *testing.M) { gen.Avoided = run.Avoided; run.Main(m, "C09") }

const chk = "type-graph"

type Case struct {
	Spec  lib.Spec   `json:"spec"`
	Graph *ref.Graph `json:"graph"`
	Docs  []string   `json:"docs,omitempty"`
}

func init() {
	run.RegisterReplay(chk, func(t run.TB, raw json.RawMessage) {
		var c Case
		if err := json.Unmarshal(raw, &c); err != nil {
			t.Fatalf("bad case: %v", err)
		}
		check(t, c)
	})
}

// writeAhead records the case before the library is entered, so that a fatal crash (stack
// overflow on a wrongly accepted graph) is attributed to it by the driver.
func writeAhead(c Case) {
	out := os.Getenv("VERIF_OUT")
	if out == "" {
		return
	}
	raw, _ := json.Marshal(c)
	b, _ := json.Marshal(run.Failure{Check: chk, Case: raw})
	os.WriteFile(out+".current", b, 0o644)
}

func clearAhead() {
	if out := os.Getenv("VERIF_OUT"); out != "" {
		os.Remove(out + ".current")
	}
}

func timed(what string, budget time.Duration, f func()) string {
	done := make(chan struct{})
	go func() { defer close(done); f() }()
	select {
	case <-done:
		return ""
	case <-time.After(budget):
		return what + " did not return within " + budget.String()
	}
}

// timedMem: timed, and the heap is watched while f runs (a walk of all paths that builds something
// exhausts the memory long before the time).
func timedMem(what string, budget time.Duration, maxHeap uint64, f func()) string {
	done := make(chan struct{})
	go func() { defer close(done); f() }()
	deadline := time.After(budget)
	tick := time.NewTicker(20 * time.Millisecond)
	defer tick.Stop()
	var ms runtime.MemStats
	runtime.ReadMemStats(&ms)
	base := ms.HeapAlloc
	for {
		select {
		case <-done:
			return ""
		case <-deadline:
			return what + " did not return within " + budget.String()
		case <-tick.C:
			runtime.ReadMemStats(&ms)
			if ms.HeapAlloc > base+maxHeap {
				return fmt.Sprintf("%s had not returned after allocating more than %d MiB", what, maxHeap>>20)
			}
		}
	}
}

// class: "A" all types inhabited, "B" the root itself is uninhabited, "C" otherwise.
func classify(g *ref.Graph) string {
	types, root := g.Inhabited()
	if !root {
		return "B"
	}
	for name := range g.Types {
		if !types[name] {
			return "C"
		}
	}
	return "A"
}

// libWalkDetects simulates, on the abstract model, the one root cause recorded as
// C09-cycle-beyond-first-level: the recursion walk follows references from the root text into
// the types it names, but from inside those types every further lookup comes back empty, so
// only a reference back to a type already on the path (the first-level type itself) is seen.
// The matcher is "this walk accepts although the graph is uninhabited".
func libWalkDetects(g *ref.Graph) bool {
	visited := map[string]bool{}
	var mergedGroups func(n *ref.SNode, keysOpt bool, seen map[string]bool) [][]string
	mergedGroups = func(n *ref.SNode, keysOpt bool, seen map[string]bool) [][]string {
		var out [][]string
		if n.Kind == ref.SRef {
			return [][]string{n.Names}
		}
		if n.Kind != ref.SObj {
			return nil
		}
		if r := n.Rule("allOf"); r != nil {
			for _, a := range r.AllOf {
				if p := g.Types[a]; p != nil && !seen[a] {
					seen[a] = true
					out = append(out, mergedGroups(p, g.OptTypes[a], seen)...)
				}
			}
		}
		for i := range n.Props {
			req := !keysOpt
			if v, ok := n.Props[i].Val.BoolRule("optional"); ok {
				req = !v
			}
			if req {
				out = append(out, mergedGroups(n.Props[i].Val, keysOpt, seen)...)
			}
		}
		return out
	}
	var detect func(n *ref.SNode, depth int, keysOpt bool) bool
	detect = func(n *ref.SNode, depth int, keysOpt bool) bool {
		for _, grp := range mergedGroups(n, keysOpt, map[string]bool{}) {
			errs := 0
			for _, name := range grp {
				if visited[name] {
					errs++
					continue
				}
				if depth == 0 && g.Types[name] != nil {
					visited[name] = true
					if detect(g.Types[name], 1, g.OptTypes[name]) {
						errs++
					}
					delete(visited, name)
				}
			}
			if errs == len(grp) {
				return true
			}
		}
		return false
	}
	return detect(g.Root, 0, g.KeysOptional)
}

// allOfCycle: some type is its own (transitive) allOf parent. That is decided by a separate
// mechanism (error 703) which the recorded finding about the recursion walk does not cover.
func allOfCycle(g *ref.Graph) bool {
	parents := func(n *ref.SNode) []string {
		// allOf rules of the type's root and of every object below it
		var out []string
		n.Walk(func(m *ref.SNode) {
			if r := m.Rule("allOf"); r != nil {
				out = append(out, r.AllOf...)
			}
		})
		return out
	}
	state := map[string]int{}
	var dfs func(string) bool
	dfs = func(u string) bool {
		state[u] = 1
		if t := g.Types[u]; t != nil {
			for _, v := range parents(t) {
				if state[v] == 1 || (state[v] == 0 && dfs(v)) {
					return true
				}
			}
		}
		state[u] = 2
		return false
	}
	for name := range g.Types {
		if state[name] == 0 && dfs(name) {
			return true
		}
	}
	return false
}

// orRuleCycle: some scalar type reaches itself through the or / type rules of scalar types only
// (the narrow matcher of C09-or-rule-cycle-with-terminating-alternative-rejected).
func orRuleCycle(g *ref.Graph) bool {
	next := func(n *ref.SNode) []string {
		if n == nil || n.Kind != ref.SLit {
			return nil
		}
		var out []string
		if r := n.Rule("or"); r != nil {
			for _, it := range r.Or {
				if strings.HasPrefix(it.Name, "@") {
					out = append(out, it.Name)
				}
			}
		}
		if tn := n.TypeName(); strings.HasPrefix(tn, "@") {
			out = append(out, tn)
		}
		return out
	}
	state := map[string]int{}
	var dfs func(string) bool
	dfs = func(u string) bool {
		state[u] = 1
		for _, v := range next(g.Types[u]) {
			if state[v] == 1 || (state[v] == 0 && dfs(v)) {
				return true
			}
		}
		state[u] = 2
		return false
	}
	for name := range g.Types {
		if state[name] == 0 && dfs(name) {
			return true
		}
	}
	return false
}

type outcome struct {
	class    string
	accepted bool
	judged   bool
}

func check(t run.TB, c Case) outcome {
	g := c.Graph
	writeAhead(c)
	defer clearAhead()
	s, add := lib.Build(c.Spec)
	var cr lib.Res
	t0 := time.Now()
	if msg := timed("Check", 20*time.Second, func() { cr = lib.Check(s) }); msg != "" {
		run.FailAndExit(chk, c, "%s", msg)
	}
	if d := time.Since(t0); d > 500*time.Millisecond {
		run.Note("slow Check (%v) for %s %v", d, c.Spec.Schema, c.Spec.Types)
	}
	if add.Panic != "" || cr.Panic != "" {
		run.Fail(t, chk, c, "panic: add=%v check=%v", add, cr)
	}
	miss := g.Missing()
	class := classify(g)
	o := outcome{class: class, accepted: cr.OK}

	// (2) UsedUserTypes: exactly the names the root text references, each once
	used, ur := lib.Used(s)
	if ur.Panic != "" {
		run.Fail(t, chk, c, "UsedUserTypes panicked: %s", ur.Panic)
	}
	if ur.OK {
		want := ref.RefNames(g.Root)
		got := append([]string(nil), used...)
		sort.Strings(got)
		w := append([]string(nil), want...)
		sort.Strings(w)
		if strings.Join(got, ",") != strings.Join(w, ",") {
			run.Fail(t, chk, c, "UsedUserTypes()=%v, the root text references %v", used, want)
		}
	}

	// (1) missing types
	if len(miss) > 0 {
		if class == "A" {
			o.judged = true
			if cr.OK {
				run.Fail(t, chk, c, "types %v are referenced but were not added, yet Check succeeds", miss)
			}
			named := false
			for _, m := range miss {
				if strings.Contains(cr.Msg, m) {
					named = true
				}
			}
			if !cr.OK && cr.Code == 703 && allOfCycle(g) {
				// two defects at once (a missing type and inheritance from an enclosing type): which
				// one is reported first is not specified
				run.Label("missing-type-and-allOf-cycle")
			} else if !cr.OK && cr.Code == 1303 && orRuleCycle(g) && run.MatchKnown("C09-or-rule-cycle-with-terminating-alternative-rejected") {
				// a missing type next to the recorded or-rule cycle: the other defect is reported first
				run.Label("missing-type-and-or-rule-cycle")
			} else if !named {
				// ("fails naming the missing type": the number of the error is the library's business)
				run.Fail(t, chk, c, "types %v are missing: expected an error naming one of them, got %v", miss, cr)
			}
		}
		return o
	}
	if !cr.OK && cr.Code == 1302 {
		run.Fail(t, chk, c, "every referenced type was added but Check reports a missing type: %v", cr)
	}

	// (3) recursion
	switch class {
	case "A":
		if !cr.OK && cr.Code == 703 && allOfCycle(g) {
			// an object that inherits (allOf) from a type enclosing it, behind an optional property or
			// an array: the value set is well-founded but the inherited property list is not (allOf is
			// resolved by copying properties when the schema is compiled); the statement's recursion
			// clause does not say which of the two counts
			run.Excluded("unspecified:allOf-cycle-through-an-optional-position")
			return o
		}
		o.judged = true
		if !cr.OK {
			if cr.Code == 1303 && orRuleCycle(g) && run.MatchKnown("C09-or-rule-cycle-with-terminating-alternative-rejected") {
				o.judged = false
				return o
			}
			run.Fail(t, chk, c, "every cycle passes through an optional property, an array or a terminating alternative, but Check rejects: %v", cr)
		}
	case "B":
		o.judged = true
		if cr.OK {
			if !allOfCycle(g) && !libWalkDetects(g) && run.MatchKnown("C09-cycle-beyond-first-level") {
				o.judged = false
			} else {
				run.Fail(t, chk, c, "the root requires a type on a cycle of required references (no finite inhabitant) but Check accepts")
			}
		} else {
			run.Label(fmt.Sprintf("class-B-rejected-with-code-%d", cr.Code))
		}
	default:
		run.Excluded("unspecified:uninhabited-type-only-behind-optional-or-array")
	}

	// (4) termination on accepted graphs
	if cr.OK {
		t1 := time.Now()
		defer func() {
			if d := time.Since(t1); d > 500*time.Millisecond {
				run.Note("slow Validate/Example (%v) for %s %v docs of %d bytes", d, c.Spec.Schema, c.Spec.Types, len(strings.Join(c.Docs, "")))
			}
		}()
		msg := timed("Validate/Example", 20*time.Second, func() {
			for _, d := range c.Docs {
				lib.Validate(s, []byte(d))
			}
			lib.Example(s)
		})
		if msg != "" {
			run.FailAndExit(chk, c, "accepted graph: %s", msg)
		}
	}
	return o
}

func hasCycle(g *ref.Graph) bool {
	// any reference cycle among named types (through any edge form)
	adj := map[string][]string{}
	for name, t := range g.Types {
		adj[name] = ref.RefNames(t)
	}
	state := map[string]int{}
	var dfs func(string) bool
	dfs = func(u string) bool {
		state[u] = 1
		for _, v := range adj[u] {
			if state[v] == 1 || (state[v] == 0 && g.Types[v] != nil && dfs(v)) {
				return true
			}
		}
		state[u] = 2
		return false
	}
	for name := range g.Types {
		if state[name] == 0 && dfs(name) {
			return true
		}
	}
	return false
}

func TestTypeGraphs(t *testing.T) {
	run.SkipIfReplaying(t)
	defer run.Done(t, chk)
	rapid.Check(t, func(t *rapid.T) {
		gc := gen.GenRefGraph(t, "g")
		gc.G.KeysOptional = rapid.IntRange(0, 5).Draw(t, "opt") == 0
		selfRoot := ""
		if rapid.IntRange(0, 3).Draw(t, "selfRoot") == 0 {
			// the checked schema is itself one of the named types (s.AddType("@t0", s))
			selfRoot = gc.Order[rapid.IntRange(0, len(gc.Order)-1).Draw(t, "selfRootIdx")]
			if gc.G.Types[selfRoot].Kind == ref.SLit {
				selfRoot = ""
			} else {
				gc.G.Root = gc.G.Types[selfRoot]
				gc.G.KeysOptional = false
			}
		}
		// types that are themselves created with KeysAreOptionalByDefault: their unmarked properties
		// are optional, so a cycle through one of them is no infinite recursion
		if selfRoot == "" && rapid.IntRange(0, 3).Draw(t, "optTypes") == 0 {
			gc.G.OptTypes = map[string]bool{}
			for _, name := range gc.Order {
				if gc.G.Types[name].Kind == ref.SObj && rapid.Bool().Draw(t, "optType") {
					gc.G.OptTypes[name] = true
				}
			}
			run.Label("types-with-optional-keys-by-default")
		}
		pg := gc.Print(nil)
		sp := lib.Spec{Schema: pg.Schema, KeysOptional: gc.G.KeysOptional, SelfName: selfRoot}
		if selfRoot == "" && rapid.IntRange(0, 2).Draw(t, "typesKnowTypes") == 0 {
			// every type object is also given all the other types (the way an API description wires
			// them): the recursion walk can then follow references from inside a type
			sp.TypesKnowTypes = true
			run.Label("types-know-each-other")
		}
		for _, ty := range pg.Types {
			if ty.Name != selfRoot {
				sp.Types = append(sp.Types, lib.Named{Name: ty.Name, Text: ty.Text, KeysOptional: gc.G.OptTypes[ty.Name]})
			}
		}
		if selfRoot != "" {
			run.Label("root-is-a-named-type")
		}
		c := Case{Spec: sp, Graph: gc.G}
		if len(gc.G.Missing()) == 0 {
			for i := 0; i < 3; i++ {
				doc := gc.Instance(t, gc.G.Root, gc.G.KeysOptional, 4, "inst")
				if i > 0 {
					doc, _ = gen.Mutate(t, doc, []string{"p0", "p1", "in", "kab"}, "mut")
				}
				c.Docs = append(c.Docs, string(gen.Print(doc, nil)))
			}
		}
		o := check(t, c)
		cyc := hasCycle(gc.G)
		nt := o.judged && (cyc || len(gc.G.Missing()) > 0) && len(gc.G.Types) >= 2
		run.Eval(chk, nt, fmt.Sprint(sp))
		run.Label("class:" + o.class)
		if len(gc.G.Missing()) > 0 {
			run.Label("has-missing-type")
		}
		if cyc {
			run.Label("has-cycle")
		}
		if o.accepted {
			run.Label("check-accepted")
		} else {
			run.Label("check-rejected")
		}
		if nt {
			run.Sample(chk, map[string]any{"schema": sp.Schema, "types": sp.Types, "class": o.class, "check_accepted": o.accepted})
		}
	})
}

// ---------------------------------------------------------------------------------------
// Layered acyclic graphs: n levels, a few types per level, every type refers to several types of
// the next level (in several positions: properties, alternatives, key shortcuts, or rules). The
// number of paths doubles with every level, the number of types grows by a constant: Check,
// Validate and Example have to terminate on them ("on every accepted graph Check, Validate and
// Example terminate") - with 30..44 levels a walk of all paths needs years, a walk of all types
// needs microseconds, so the 20 s budget is no timing oracle.

const chkLayered = "layered-type-graph"

type LayeredCase struct {
	Spec lib.Spec `json:"spec"`
	Doc  string   `json:"doc"`
	Form string   `json:"form"`
}

func init() {
	run.RegisterReplay(chkLayered, func(t run.TB, raw json.RawMessage) {
		var c LayeredCase
		if err := json.Unmarshal(raw, &c); err != nil {
			t.Fatalf("bad case: %v", err)
		}
		checkLayered(t, c)
	})
}

func checkLayered(t run.TB, c LayeredCase) {
	s, add := lib.Build(c.Spec)
	if add.Panic != "" || !add.OK {
		run.Fail(t, chkLayered, c, "AddType: %v", add)
	}
	var cr, vr, er lib.Res
	var ex []byte
	// (a call that does not return keeps its goroutine busy, and every attempt to make the case
	// smaller would wait for it again: the process is ended with the case recorded)
	if msg := timed("Check", 20*time.Second, func() { cr = lib.Check(s) }); msg != "" {
		run.FailAndExit(chkLayered, c, "%s (an acyclic graph of %d types)", msg, len(c.Spec.Types))
	}
	if !cr.OK {
		run.Fail(t, chkLayered, c, "Check refuses an acyclic graph whose types are all defined: %v", cr)
	}
	if msg := timed("Validate", 20*time.Second, func() { vr = lib.Validate(s, []byte(c.Doc)) }); msg != "" {
		run.FailAndExit(chkLayered, c, "%s (an acyclic graph of %d types, document %s)", msg, len(c.Spec.Types), c.Doc)
	}
	if vr.Panic != "" {
		run.Fail(t, chkLayered, c, "Validate panicked: %v", vr)
	}
	// a call that does not return keeps allocating: the process is ended with the case recorded
	if msg := timedMem("Example", 20*time.Second, 1<<30, func() { ex, er = lib.Example(s) }); msg != "" {
		run.FailAndExit(chkLayered, c, "%s (a graph of %d small types)", msg, len(c.Spec.Types))
	}
	if !er.OK {
		run.Fail(t, chkLayered, c, "Example fails on an accepted graph: %v", er)
	}
	if len(ex) > 1<<20 {
		run.Fail(t, chkLayered, c, "Example of a graph of %d small types is %d bytes long", len(c.Spec.Types), len(ex))
	}
}

func TestLayeredGraphs(t *testing.T) {
	run.SkipIfReplaying(t)
	defer run.Done(t, chkLayered)
	rapid.Check(t, func(t *rapid.T) {
		form := rapid.SampledFrom([]string{"key-shortcut-alternatives", "key-shortcut-or-rule", "object-properties", "object-properties-optional", "scalar-alternatives", "array-items", "ladder-with-back-edges", "dag-above-a-legal-cycle", "dag-back-to-the-first-level", "arrays-with-min-items-0"}).Draw(t, "form")
		n := rapid.IntRange(30, 44).Draw(t, "levels")
		know := rapid.Bool().Draw(t, "typesKnowTypes")
		sp := lib.Spec{TypesKnowTypes: know}
		name := func(p string, i int) string { return fmt.Sprintf("@%s%d", p, i) }
		doc := "1"
		switch form {
		case "ladder-with-back-edges", "dag-above-a-legal-cycle", "dag-back-to-the-first-level":
			// accepted graphs WITH cycles: every cycle runs through an alternative whose siblings
			// terminate, so nothing is infinite - and the number of types is 2n+1, the number of
			// paths 2^n. Only Check is asked (what the example of such a graph looks like is the
			// cut-off's business).
			back := rapid.SampledFrom([]string{"first", "last", "middle"}).Draw(t, "backEdgeAt")
			alts := func(a, b, z string) string {
				switch back {
				case "first":
					return z + " | " + a + " | " + b
				case "middle":
					return a + " | " + z + " | " + b
				}
				return a + " | " + b + " | " + z
			}
			if form == "ladder-with-back-edges" {
				for i := 0; i < n; i++ {
					sp.Types = append(sp.Types, lib.Named{Name: name("t", i), Text: fmt.Sprintf("{\n  \"p\": %s\n}", alts(name("t", i+1), name("s", i), "@t0"))})
					sp.Types = append(sp.Types, lib.Named{Name: name("s", i), Text: fmt.Sprintf("{\n  \"x\": %s\n}", name("t", i+1))})
				}
				sp.Types = append(sp.Types, lib.Named{Name: name("t", n), Text: "1"})
				sp.Schema = "@t0"
			} else if form == "dag-back-to-the-first-level" {
				// every level lists the two types of the next one, the last level is the first one again:
				// below the root every walk fails (it closes on @l0), the root itself has the alternative
				// @ok - the graph is accepted, and a walk that forgets what failed needs 2^n steps
				obj := rapid.Bool().Draw(t, "asObjects")
				wrap := func(list string) string {
					if obj {
						return "{\n  \"p\": " + list + "\n}"
					}
					return list
				}
				for i := 0; i < n-1; i++ {
					for _, p := range []string{"l", "m"} {
						sp.Types = append(sp.Types, lib.Named{Name: name(p, i), Text: wrap(name("l", i+1) + " | " + name("m", i+1))})
					}
				}
				for _, p := range []string{"l", "m"} {
					sp.Types = append(sp.Types, lib.Named{Name: name(p, n-1), Text: wrap("@l0")})
				}
				sp.Types = append(sp.Types, lib.Named{Name: "@ok", Text: `"ok"`})
				sp.Schema = "@l0 | @ok"
				if back == "first" {
					sp.Schema = "@ok | @l0"
				}
			} else {
				for i := 0; i < n; i++ {
					for _, p := range []string{"l", "m"} {
						text := name("l", i+1) + " | " + name("m", i+1)
						if i == n-2 {
							text = alts(name("l", i+1), name("m", i+1), "@l0")
						}
						if i == n-1 {
							text = `"x"`
						}
						sp.Types = append(sp.Types, lib.Named{Name: name(p, i), Text: text})
					}
				}
				sp.Schema = "{\n  \"k\": @l0\n}"
			}
			c := LayeredCase{Spec: sp, Doc: doc, Form: form}
			s, add := lib.Build(sp)
			if add.Panic != "" || !add.OK {
				run.Fail(t, chkLayered, c, "AddType: %v", add)
			}
			var cr lib.Res
			if msg := timed("Check", 20*time.Second, func() { cr = lib.Check(s) }); msg != "" {
				run.FailAndExit(chkLayered, c, "%s (a graph of %d small types, each cycle of which has a terminating alternative)", msg, len(sp.Types))
			}
			if !cr.OK {
				run.Fail(t, chkLayered, c, "Check refuses a graph whose types are all defined and whose cycles all run through alternatives with a terminating sibling: %v", cr)
			}
			run.Eval(chkLayered, true, form, fmt.Sprint(n), fmt.Sprint(know), back)
			run.Label("layered:" + form)
			if know {
				run.Label("layered:types-know-types")
			}
			return
		case "arrays-with-min-items-0":
			// k types, each with k properties "pj": [@tj] whose array says minItems: 0 (or has a
			// maxItems, or no rule): `{"p0": [], ...}` is a document of every one of them, Check accepts
			// the graph, and the example has to come back
			k := rapid.IntRange(5, 7).Draw(t, "mutualTypes")
			rule := rapid.SampledFrom([]string{" // {minItems: 0}", " // {minItems: 0, maxItems: 10}", "", " // {maxItems: 3}",
				// ... or the rule asks for an item, and the item has a terminating alternative; or no array
				// at all: a required property with such a list
				" // {minItems: 1}", " /* {minItems: 1} */", "required-list"}).Draw(t, "arrayRule")
			doc := `{"p0":[]}`
			for i := 0; i < k; i++ {
				text := "{"
				for j := 0; j < k; j++ {
					if j > 0 {
						text += ","
					}
					switch {
					case rule == "required-list":
						text += fmt.Sprintf("\n  \"p%d\": %s | @leaf", j, name("t", j))
					case strings.Contains(rule, "minItems: 1"):
						text += fmt.Sprintf("\n  \"p%d\": [%s\n    %s | @leaf\n  ]", j, rule, name("t", j))
					default:
						text += fmt.Sprintf("\n  \"p%d\": [%s\n    %s\n  ]", j, rule, name("t", j))
					}
				}
				sp.Types = append(sp.Types, lib.Named{Name: name("t", i), Text: text + "\n}"})
			}
			if rule == "required-list" || strings.Contains(rule, "minItems: 1") {
				sp.Types = append(sp.Types, lib.Named{Name: "@leaf", Text: "1"})
				doc = "{}"
			}
			sp.Schema = "@t0"
			sp.TypesKnowTypes = false
			c := LayeredCase{Spec: sp, Doc: doc, Form: form}
			checkLayered(t, c)
			run.Eval(chkLayered, true, form, fmt.Sprint(k), rule)
			run.Label("layered:" + form)
			return
		}
		for i := 0; i < n; i++ {
			for _, p := range []string{"l", "m"} {
				var text string
				last := i == n-1
				a, b := name("l", i+1), name("m", i+1)
				switch form {
				case "key-shortcut-alternatives":
					text = a + " | " + b
					if last {
						text = `"k"`
					}
				case "key-shortcut-or-rule":
					text = fmt.Sprintf(`"k" // {or: [%q, %q]}`, a, b)
					if last {
						text = `"k"`
					}
				case "object-properties":
					text = fmt.Sprintf("{\n  \"a\": %s,\n  \"b\": %s\n}", a, b)
					if last {
						text = "1"
					}
				case "object-properties-optional":
					text = fmt.Sprintf("{\n  \"a\": %s, // {optional: true}\n  \"b\": %s // {optional: true}\n}", a, b)
					if last {
						text = "1"
					}
				case "scalar-alternatives":
					text = a + " | " + b
					if last {
						text = map[string]string{"l": "1", "m": `"s"`}[p]
					}
				case "array-items":
					text = fmt.Sprintf("[\n  %s,\n  %s\n]", a, b)
					if last {
						text = "1"
					}
				}
				sp.Types = append(sp.Types, lib.Named{Name: name(p, i), Text: text})
			}
		}
		switch form {
		case "key-shortcut-alternatives", "key-shortcut-or-rule":
			sp.Schema = "{\n  @l0: 1\n}"
			doc = rapid.SampledFrom([]string{`{"k":1}`, `{"k":1,"other":1}`, `{"x":1}`}).Draw(t, "doc")
		case "object-properties", "object-properties-optional":
			sp.Schema = "@l0"
			doc = rapid.SampledFrom([]string{`{}`, `{"a":{}}`, `{"a":{"a":{"b":{}}},"b":{}}`, `1`}).Draw(t, "doc")
		case "scalar-alternatives":
			sp.Schema = "@l0 | @m0"
			doc = rapid.SampledFrom([]string{`1`, `"s"`, `true`, `{}`}).Draw(t, "doc")
		case "array-items":
			sp.Schema = "@l0"
			doc = rapid.SampledFrom([]string{`[]`, `[[],[]]`, `[[[1]]]`, `1`}).Draw(t, "doc")
		}
		c := LayeredCase{Spec: sp, Doc: doc, Form: form}
		if form == "object-properties" || form == "array-items" {
			// every path is part of the one document such a schema describes: its example has 2^n
			// leaves, nothing to terminate early - only Check is asked
			s, add := lib.Build(sp)
			if add.Panic != "" || !add.OK {
				run.Fail(t, chkLayered, c, "AddType: %v", add)
			}
			var cr lib.Res
			if msg := timed("Check", 20*time.Second, func() { cr = lib.Check(s) }); msg != "" {
				run.FailAndExit(chkLayered, c, "%s (an acyclic graph of %d types)", msg, len(sp.Types))
			}
			if !cr.OK {
				run.Fail(t, chkLayered, c, "Check refuses an acyclic graph whose types are all defined: %v", cr)
			}
		} else {
			checkLayered(t, c)
		}
		run.Eval(chkLayered, true, form, fmt.Sprint(n), fmt.Sprint(know), doc)
		run.Label("layered:" + form)
		if know {
			run.Label("layered:types-know-types")
		}
		if n == 30 {
			run.Sample(chkLayered, map[string]any{"form": form, "levels": n, "schema": sp.Schema, "first_type": sp.Types[0]})
		}
	})
}

// ---------------------------------------------------------------------------------------
// Inherited properties in cycles: a property a type inherits through allOf is as required as one
// written in it. The same graph is built twice - with the allOf rule, and with the parent's
// properties written out in the heir - and Check has to give the same verdict on both (types know
// each other or not; the cycle closes through the inherited property, or the inherited property is
// optional / an array and nothing is infinite).
const chkHeir = "inherited-property-in-a-cycle"

type HeirCase struct {
	WithAllOf lib.Spec `json:"with_allOf"`
	Plain     lib.Spec `json:"parent_properties_written_out"`
}

func init() {
	run.RegisterReplay(chkHeir, func(t run.TB, raw json.RawMessage) {
		var c HeirCase
		if err := json.Unmarshal(raw, &c); err != nil {
			t.Fatalf("bad case: %v", err)
		}
		checkHeir(t, c)
	})
}

func checkHeir(t run.TB, c HeirCase) (accepted bool) {
	verdict := func(sp lib.Spec) lib.Res {
		s, add := lib.Build(sp)
		if add.Panic != "" || !add.OK {
			run.Fail(t, chkHeir, c, "AddType: %v", add)
		}
		var cr lib.Res
		if msg := timed("Check", 20*time.Second, func() { cr = lib.Check(s) }); msg != "" {
			run.FailAndExit(chkHeir, c, "%s", msg)
		}
		if cr.Panic != "" {
			run.Fail(t, chkHeir, c, "Check panicked: %v", cr)
		}
		return cr
	}
	a, b := verdict(c.WithAllOf), verdict(c.Plain)
	if a.OK != b.OK {
		run.Fail(t, chkHeir, c, "with the allOf rule Check says %v, with the parent's properties written out in the heir it says %v", a, b)
	}
	return a.OK
}

var typeNameRe = regexp.MustCompile(`@[a-z]+`)

func TestInheritedCycles(t *testing.T) {
	run.SkipIfReplaying(t)
	defer run.Done(t, chkHeir)
	rapid.Check(t, func(t *rapid.T) {
		// @a -> @b, @b inherits from @c (directly, or through @m), the inherited "z" leads back to @a
		back := rapid.SampledFrom([]string{"@a", "@a // {optional: true}", "[@a]", "@a | @leaf", "@b"}).Draw(t, "inherited")
		own := rapid.SampledFrom([]string{"\"y\": 1", "\"y\": @leaf", "\"y\": @leaf // {optional: true}"}).Draw(t, "own")
		ownComma := own + ","
		if i := strings.Index(own, " //"); i >= 0 {
			ownComma = own[:i] + "," + own[i:] // (the comma stands in front of the annotation)
		}
		chain := rapid.Bool().Draw(t, "twoLevels")
		nested := rapid.Bool().Draw(t, "heirIsNested")
		parentProps := "\"z\": " + back
		cText := "{\n  " + parentProps + "\n}"
		mText := "{ // {allOf: \"@c\"}\n  \"w\": 2\n}"
		mPlain := "{\n  \"w\": 2,\n  " + parentProps + "\n}"
		parent, inherited := "@c", parentProps
		if chain {
			parent, inherited = "@m", "\"w\": 2,\n  "+parentProps
		}
		bAll := "{ // {allOf: \"" + parent + "\"}\n  " + own + "\n}"
		bPlain := "{\n  " + ownComma + "\n  " + inherited + "\n}"
		if nested {
			// the heir is an object inside @b, not @b itself
			bAll = "{\n  \"in\": { // {allOf: \"" + parent + "\"}\n    " + own + "\n  }\n}"
			bPlain = "{\n  \"in\": {\n    " + ownComma + "\n    " + inherited + "\n  }\n}"
		}
		aText := rapid.SampledFrom([]string{"{\n  \"x\": @b\n}", "{\n  \"x\": @b,\n  \"n\": 1\n}", "{\n  \"x\": @b | @b\n}"}).Draw(t, "a")
		root := rapid.SampledFrom([]string{"@a", "{\n  \"r\": @a\n}", "[@a]", "{\n  \"r\": @b\n}"}).Draw(t, "root")
		wiring := rapid.SampledFrom([]string{"all", "all", "flat", "own-names"}).Draw(t, "wiring")
		know := wiring == "all"
		wire := func(sp *lib.Spec) {
			if wiring == "own-names" {
				// every type object is given exactly the types its own text names (objects of their own,
				// equal in text to the ones the root gets): what a type inherits names types its own
				// table may not hold
				texts := map[string]string{}
				for _, ty := range sp.Types {
					texts[ty.Name] = ty.Text
				}
				var own func(name string, depth int) []lib.Named
				own = func(name string, depth int) []lib.Named {
					if depth == 0 {
						return nil
					}
					var in []lib.Named
					seen := map[string]bool{name: true}
					for _, nm := range typeNameRe.FindAllString(texts[name], -1) {
						if !seen[nm] {
							seen[nm] = true
							in = append(in, lib.Named{Name: nm, Text: texts[nm], Inner: own(nm, depth-1)})
						}
					}
					return in
				}
				for i := range sp.Types {
					sp.Types[i].Inner = own(sp.Types[i].Name, 5) // (deeper than the longest cycle)
				}
			}
		}
		mk := func(b, m string) lib.Spec {
			sp := lib.Spec{Schema: root, TypesKnowTypes: know, Types: []lib.Named{{Name: "@a", Text: aText}, {Name: "@b", Text: b}, {Name: "@c", Text: cText}, {Name: "@m", Text: m}, {Name: "@leaf", Text: "1"}}}
			if rapid.Bool().Draw(t, "order") {
				for i, j := 0, len(sp.Types)-1; i < j; i, j = i+1, j-1 {
					sp.Types[i], sp.Types[j] = sp.Types[j], sp.Types[i]
				}
			}
			return sp
		}
		c := HeirCase{WithAllOf: mk(bAll, mText)}
		c.Plain = c.WithAllOf
		c.Plain.Types = append([]lib.Named{}, c.WithAllOf.Types...)
		for i := range c.Plain.Types {
			switch c.Plain.Types[i].Name {
			case "@b":
				c.Plain.Types[i].Text = bPlain
			case "@m":
				c.Plain.Types[i].Text = mPlain
			}
		}
		wire(&c.WithAllOf)
		wire(&c.Plain)
		acc := checkHeir(t, c)
		run.Eval(chkHeir, true, fmt.Sprint(c.WithAllOf))
		run.Label(fmt.Sprintf("heir:accepted=%v:wiring=%s", acc, wiring))
		run.Sample(chkHeir, c)
	})
}

// ---------------------------------------------------------------------------------------
// Example on ladders with cycles: n levels of small types, the last level refers back to the first,
// one alternative of the first level terminates. The example is a few hundred bytes whatever n is;
// with 30-44 levels a builder that tries the alternatives of every level again for every choice
// above them needs 2^n steps (years), one that remembers what failed needs microseconds - the 20 s
// budget is no timing oracle. A call that does not return ends the process with the case recorded.
const chkGrowth = "example-on-cyclic-ladders"

type GrowthCase struct {
	Form   string   `json:"form"`
	Levels int      `json:"levels"`
	Leaf   string   `json:"terminating_alternative_at"`
	Wired  bool     `json:"types_know_types"`
	Sample lib.Spec `json:"spec_of_a_ladder_of_3_levels"`
}

func init() {
	run.RegisterReplay(chkGrowth, func(t run.TB, raw json.RawMessage) {
		var c GrowthCase
		if err := json.Unmarshal(raw, &c); err != nil {
			t.Fatalf("bad case: %v", err)
		}
		checkGrowth(t, c)
	})
}

func cyclicLadder(form string, n int, leafAt string, wired bool) lib.Spec {
	sp := lib.Spec{Schema: "@t0", TypesKnowTypes: wired}
	name := func(p string, i int) string { return fmt.Sprintf("@%s%d", p, i%n) }
	for i := 0; i < n; i++ {
		list := name("u", i) + " | " + name("v", i)
		if form == "three-alternatives" {
			list += " | " + name("w", i)
		}
		if i == 0 {
			switch leafAt {
			case "first":
				list = "@leaf | " + list
			default:
				list += " | @leaf"
			}
		}
		switch form {
		case "bare-lists":
			sp.Types = append(sp.Types, lib.Named{Name: name("t", i), Text: list})
		default:
			sp.Types = append(sp.Types, lib.Named{Name: name("t", i), Text: "{\n  \"p\": " + list + "\n}"})
		}
		sp.Types = append(sp.Types, lib.Named{Name: name("u", i), Text: "{\n  \"x\": " + name("t", i+1) + "\n}"})
		sp.Types = append(sp.Types, lib.Named{Name: name("v", i), Text: "{\n  \"y\": " + name("t", i+1) + "\n}"})
		if form == "three-alternatives" {
			sp.Types = append(sp.Types, lib.Named{Name: name("w", i), Text: "{\n  \"z\": " + name("t", i+1) + ",\n  \"n\": 1\n}"})
		}
	}
	sp.Types = append(sp.Types, lib.Named{Name: "@leaf", Text: "1"})
	return sp
}

func checkGrowth(t run.TB, c GrowthCase) {
	n := c.Levels
	sp := cyclicLadder(c.Form, n, c.Leaf, c.Wired)
	s, add := lib.Build(sp)
	if add.Panic != "" || !add.OK {
		run.Fail(t, chkGrowth, c, "AddType: %v", add)
	}
	var cr, er lib.Res
	if msg := timed("Check", 20*time.Second, func() { cr = lib.Check(s) }); msg != "" {
		run.FailAndExit(chkGrowth, c, "%s (a ladder of %d levels, %d small types)", msg, n, len(sp.Types))
	}
	if !cr.OK {
		run.Fail(t, chkGrowth, c, "Check refuses a ladder of %d levels whose first level has a terminating alternative: %v", n, cr)
	}
	var ex []byte
	if msg := timedMem("Example", 20*time.Second, 1<<30, func() { ex, er = lib.Example(s) }); msg != "" {
		run.FailAndExit(chkGrowth, c, "%s (a ladder of %d levels, %d small types; the example of such a ladder is a few hundred bytes)", msg, n, len(sp.Types))
	}
	if !er.OK {
		run.Fail(t, chkGrowth, c, "Example fails on an accepted ladder of %d levels: %v", n, er)
	}
	var vr lib.Res
	if msg := timed("Validate", 20*time.Second, func() { vr = lib.Validate(s, ex) }); msg != "" {
		run.FailAndExit(chkGrowth, c, "%s (the example %s of a ladder of %d levels)", msg, ex, n)
	}
	if !vr.OK {
		run.Fail(t, chkGrowth, c, "the example %s of the ladder of %d levels is rejected by its own schema: %v", ex, n, vr)
	}
}

func TestExampleGrowth(t *testing.T) {
	run.SkipIfReplaying(t)
	defer run.Done(t, chkGrowth)
	rapid.Check(t, func(t *rapid.T) {
		c := GrowthCase{
			Form:   rapid.SampledFrom([]string{"objects-with-alternatives", "three-alternatives", "bare-lists"}).Draw(t, "form"),
			Levels: rapid.IntRange(30, 44).Draw(t, "levels"),
			Leaf:   rapid.SampledFrom([]string{"first", "last"}).Draw(t, "leafAt"),
			Wired:  rapid.IntRange(0, 3).Draw(t, "wired") == 0,
		}
		c.Sample = cyclicLadder(c.Form, 3, c.Leaf, c.Wired)
		checkGrowth(t, c)
		run.Eval(chkGrowth, true, c.Form, fmt.Sprint(c.Levels), c.Leaf, fmt.Sprint(c.Wired))
		run.Label("ladder:" + c.Form)
		run.Sample(chkGrowth, c)
	})
}

// ---------------------------------------------------------------------------------------
// One name, two tables: a type object may be given a definition of a name of its own (added to
// that type object), next to another definition of the same name elsewhere. A chain of required
// references is followed through the table of the type that writes the reference - whatever other
// type of that name was walked before, and in whichever order the root lists its properties.

const chkNames = "one-name-two-tables"

type NamesCase struct {
	Root      string `json:"root"`
	HarmlessX string `json:"x_of_A"`
	CyclicX   string `json:"x_of_B"`
	Chain     int    `json:"extra_types_on_the_cycle"`
	Required  bool   `json:"the_cycle_is_made_of_required_references"`
}

func init() {
	run.RegisterReplay(chkNames, func(t run.TB, raw json.RawMessage) {
		var c NamesCase
		if err := json.Unmarshal(raw, &c); err != nil {
			t.Fatalf("bad case: %v", err)
		}
		checkNames(t, c)
	})
}

func checkNames(t run.TB, c NamesCase) {
	must := func(err error) {
		if err != nil {
			t.Fatalf("harness: AddType: %v", err)
		}
	}
	x1 := js.New("@X", c.HarmlessX)
	x2 := js.New("@X", c.CyclicX)
	a := js.New("@A", "{\n  \"x\": @X\n}")
	b := js.New("@B", "{\n  \"x\": @X\n}")
	must(a.AddType("@X", x1))
	must(b.AddType("@X", x2))
	// the cycle: X2 -> @Y0 -> ... -> @B (each type knows the next one)
	prev := x2
	for i := 0; i < c.Chain; i++ {
		name := fmt.Sprintf("@Y%d", i)
		next := "@B"
		if i+1 < c.Chain {
			next = fmt.Sprintf("@Y%d", i+1)
		}
		y := js.New(name, "{\n  \"n\": "+next+"\n}")
		must(prev.AddType(name, y))
		prev = y
	}
	must(prev.AddType("@B", b))
	r := js.New("root", c.Root)
	must(r.AddType("@A", a))
	must(r.AddType("@B", b))
	must(r.AddType("@X", x2))
	var cr lib.Res
	if msg := timed("Check", 20*time.Second, func() { cr = lib.Check(r) }); msg != "" {
		run.FailAndExit(chkNames, c, "%s", msg)
	}
	if cr.Panic != "" {
		run.Fail(t, chkNames, c, "Check panicked: %s", cr.Panic)
	}
	if c.Required && cr.OK {
		run.Fail(t, chkNames, c, "@B requires @X (the one of its own table), which requires its way back to @B: no finite document exists, yet Check accepts")
	}
	if !c.Required && !cr.OK {
		run.Fail(t, chkNames, c, "the cycle @B -> @X -> ... -> @B passes through an optional property, yet Check rejects: %v", cr)
	}
}

func TestOneNameTwoTables(t *testing.T) {
	run.SkipIfReplaying(t)
	defer run.Done(t, chkNames)
	rapid.Check(t, func(t *rapid.T) {
		c := NamesCase{Chain: rapid.IntRange(0, 2).Draw(t, "chain"), Required: rapid.IntRange(0, 2).Draw(t, "required") != 0}
		c.Root = rapid.SampledFrom([]string{"{\n  \"a\": @A,\n  \"b\": @B\n}", "{\n  \"b\": @B,\n  \"a\": @A\n}", "{\n  \"a\": @A,\n  \"z\": [@A],\n  \"b\": @B\n}", "[\n  @A,\n  @B\n]"}).Draw(t, "root")
		c.HarmlessX = rapid.SampledFrom([]string{"{\n  \"v\": 1\n}", "1", "\"s\" // {minLength: 1}", "[]"}).Draw(t, "harmless")
		next := "@B"
		if c.Chain > 0 {
			next = "@Y0"
		}
		c.CyclicX = "{\n  \"b\": " + next + "\n}"
		if !c.Required {
			c.CyclicX = "{\n  \"b\": " + next + " // {optional: true}\n}"
		}
		if strings.HasPrefix(c.Root, "[") && !c.Required {
			// (array items are no required references: both variants are accepted there)
		}
		if strings.HasPrefix(c.Root, "[") {
			c.Required = false // reached through array items only: the statement's accepting clause
		}
		checkNames(t, c)
		run.Eval(chkNames, true, c.Root, c.HarmlessX, c.CyclicX, fmt.Sprint(c.Chain))
		if c.Required {
			run.Label("names:required-cycle-behind-a-reused-name")
		} else {
			run.Label("names:broken-cycle-behind-a-reused-name")
		}
	})
}

func TestReplay(t *testing.T) { run.TestReplay(t) }
