package c18

import (
	"encoding/json"
	"fmt"
	"regexp"
	"strings"
	"testing"

	"pgregory.net/rapid"

	js "github.com/jsightapi/jsight-schema-go-library/notations/jschema"
	libregex "github.com/jsightapi/jsight-schema-go-library/notations/regex"
	"github.com/jsightapi/jsight-schema-go-library/rules/enum"

	"verif/gen"
	"verif/lib"
	"verif/ref"
	"verif/run"
)

func TestMain(m *testing.M) { gen.Avoided = run.Avoided; run.Main(m, "C18") }

const (
	chkEnum  = "named-enum"
	chkRegex = "regex-type"
)

type Item struct {
	Kind    ref.Kind `json:"kind"`
	Tok     string   `json:"tok"`
	Str     string   `json:"str"`
	Comment string   `json:"comment,omitempty"`
}

type EnumCase struct {
	Text   string   `json:"enum_text"`
	Items  []Item   `json:"items"`
	Probes []string `json:"probes"`
	// LenFirst: Len() is called on the rule object before Check()
	LenFirst bool `json:"len_before_check,omitempty"`
	// ClosingComment: a comment follows the closing bracket; which item (if any) it is attached
	// to is not stated, so the last item's comment is not compared
	ClosingComment bool `json:"comment_after_closing_bracket,omitempty"`
	// Early: which call a schema saw before its rule was added (0 Check, 1 UsedUserTypes, 2 AddType)
	Early int `json:"call_before_the_rule_was_added,omitempty"`
}

type RegexCase struct {
	Pattern string   `json:"pattern"`
	Tail    string   `json:"tail"`
	Probes  []string `json:"probes"` // decoded strings
}

func init() {
	run.RegisterReplay(chkEnum, func(t run.TB, raw json.RawMessage) {
		var c EnumCase
		if err := json.Unmarshal(raw, &c); err != nil {
			t.Fatalf("bad case: %v", err)
		}
		checkEnum(t, c)
	})
	run.RegisterReplay(chkRegex, func(t run.TB, raw json.RawMessage) {
		var c RegexCase
		if err := json.Unmarshal(raw, &c); err != nil {
			t.Fatalf("bad case: %v", err)
		}
		checkRegex(t, c)
	})
}

func itemKey(it Item) string {
	switch it.Kind {
	case ref.KString:
		return "s:" + it.Str
	case ref.KNumber:
		// numbers are the same item when they denote the same number in the same kind of spelling
		// (integer / with a fraction): 1.5 and 1.50, 0 and -0
		if d, ok := ref.ParseDecimal(it.Tok); ok {
			return fmt.Sprintf("n:%v:%s", ref.ExampleIsInteger(it.Tok), d.Expansion())
		}
		return "n:" + it.Tok
	}
	return "l:" + it.Tok
}

func schemaTypeOf(it Item) string {
	switch it.Kind {
	case ref.KString:
		return "string"
	case ref.KTrue, ref.KFalse:
		return "boolean"
	case ref.KNull:
		return "null"
	}
	if ref.ExampleIsInteger(it.Tok) {
		return "integer"
	}
	return "float"
}

func safe(f func() error) (err error, p any) {
	defer func() {
		if r := recover(); r != nil {
			p = r
		}
	}()
	return f(), nil
}

func checkEnum(t run.TB, c EnumCase) (dup bool) {
	seen := map[string]bool{}
	for _, it := range c.Items {
		if seen[itemKey(it)] {
			dup = true
		}
		seen[itemKey(it)] = true
	}
	e := enum.New("@E", c.Text)
	if c.LenFirst {
		// the rule is measured before it is checked (the order an API description parser uses)
		if _, p := safe(func() error { _, err := e.Len(); return err }); p != nil {
			run.Fail(t, chkEnum, c, "enum.Len panicked: %v", p)
		}
	}
	err, p := safe(e.Check)
	if p != nil {
		run.Fail(t, chkEnum, c, "enum.Check panicked: %v", p)
	}
	if (err != nil) != dup {
		run.Fail(t, chkEnum, c, "enum rule %q: Check error=%v, has duplicate values=%v", c.Text, err, dup)
	}
	if dup {
		return true
	}
	// Values(): literals in source order with kinds and attached comments
	vals, verr := e.Values()
	if verr != nil {
		run.Fail(t, chkEnum, c, "Values() fails on a checked rule: %v", verr)
	}
	var lits []enum.Value
	for _, v := range vals {
		if v.Value != nil {
			lits = append(lits, v)
		}
	}
	if len(lits) != len(c.Items) {
		run.Fail(t, chkEnum, c, "Values() lists %d literals, the rule text has %d", len(lits), len(c.Items))
	}
	for i, it := range c.Items {
		if string(lits[i].Value) != it.Tok || string(lits[i].Type) != schemaTypeOf(it) {
			run.Fail(t, chkEnum, c, "Values()[%d] = (%s,%s), source item %d is (%s,%s)", i, lits[i].Value, lits[i].Type, i, it.Tok, schemaTypeOf(it))
		}
		if lits[i].Comment != it.Comment && !(c.ClosingComment && i == len(c.Items)-1) {
			run.Fail(t, chkEnum, c, "Values()[%d] comment %q, the item's comment is %q", i, lits[i].Comment, it.Comment)
		}
	}
	valsText := fmt.Sprint(vals)
	// what Values() hands out is the caller's: writing into it must not reach the rule
	if scr, err := e.Values(); err == nil {
		for i := range scr {
			for k := range scr[i].Value {
				scr[i].Value[k] = '7'
			}
		}
	}
	ast, aerr := e.GetAST()
	if aerr != nil {
		run.Fail(t, chkEnum, c, "GetAST fails on a checked rule: %v", aerr)
	}
	k := 0
	for _, ch := range ast.Children {
		if ch.SchemaType == "comment" {
			continue
		}
		if k >= len(c.Items) {
			run.Fail(t, chkEnum, c, "GetAST lists more literals than the rule text has")
		}
		it := c.Items[k]
		wantVal := it.Tok
		if ch.Value != wantVal || ch.SchemaType != schemaTypeOf(it) || (ch.Comment != it.Comment && !(c.ClosingComment && k == len(c.Items)-1)) {
			run.Fail(t, chkEnum, c, "GetAST child %d = {%q %s %q}, source item is {%q %s %q}", k, ch.Value, ch.SchemaType, ch.Comment, wantVal, schemaTypeOf(it), it.Comment)
		}
		k++
	}
	if k != len(c.Items) {
		run.Fail(t, chkEnum, c, "GetAST lists %d literals, the rule text has %d", k, len(c.Items))
	}
	if len(c.Items) == 0 {
		return false
	}
	// equivalence with the inline form
	ex := c.Items[0].Tok
	var toks []string
	for _, it := range c.Items {
		toks = append(toks, it.Tok)
	}
	// the same rule object that was inspected above is added, and the schema uses it twice
	a := js.New("a", "[\n  "+ex+", // {enum: @E}\n  "+ex+" // {enum: @E}\n]")
	if err, p := safe(func() error { return a.AddRule("@E", e) }); err != nil || p != nil {
		run.Fail(t, chkEnum, c, "AddRule of a checked rule fails: %v %v", err, p)
	}
	inl := "[" + strings.Join(toks, ", ") + "]"
	b := js.New("b", "[\n  "+ex+", // {enum: "+inl+"}\n  "+ex+" // {enum: "+inl+"}\n]")
	ca, cb := lib.Check(a), lib.Check(b)
	// using the rule must not change what it lists
	if vals2, err := e.Values(); err != nil || fmt.Sprint(vals2) != valsText {
		run.Fail(t, chkEnum, c, "Values() changed after the rule was used by a schema (and after an earlier result of Values() was overwritten by the caller): before %v, after %v (err %v)", valsText, vals2, err)
	}
	// a second schema sharing the rule object behaves the same
	a2 := js.New("a2", ex+" // {enum: @E}")
	if err, p := safe(func() error { return a2.AddRule("@E", e) }); err != nil || p != nil {
		run.Fail(t, chkEnum, c, "AddRule of an already used rule fails: %v %v", err, p)
	}
	if r := lib.Check(a2); !r.OK {
		run.Fail(t, chkEnum, c, "a second schema using the same rule object is rejected: %v", r)
	}
	// a schema that was looked at before its rule arrived: AddRule either refuses the late rule or
	// the schema uses it - a rule that was taken (nil) and is then "not found" is neither
	a3 := js.New("a3", ex+" // {enum: @E}")
	early := c.Early % 3
	switch early {
	case 0:
		lib.Check(a3)
	case 1:
		lib.Used(a3)
	case 2:
		safe(func() error { return a3.AddType("@unused", js.New("@unused", "1")) })
	}
	if err, p := safe(func() error { return a3.AddRule("@E", e) }); p != nil {
		run.Fail(t, chkEnum, c, "AddRule after an earlier call panicked: %v", p)
	} else if err == nil {
		if r := lib.Check(js.New("fresh", ex+" // {enum: "+inl+"}")); r.OK {
			if r3 := lib.Check(a3); !r3.OK {
				run.Fail(t, chkEnum, c, "AddRule returned nil after an earlier call (kind %d) on the schema, but the schema does not use the rule: Check = %v", early, r3)
			}
		}
	}
	if ca.OK != cb.OK {
		run.Fail(t, chkEnum, c, "Check differs: named rule %v, inline list %v", ca, cb)
	}
	if !ca.OK {
		run.Fail(t, chkEnum, c, "schema with a member as example is rejected: %v", ca)
	}
	for _, p := range c.Probes {
		doc := "[" + p + "," + ex + "," + p + "]"
		va, vb := lib.Validate(a, []byte(doc)), lib.Validate(b, []byte(doc))
		if va.OK != vb.OK {
			run.Fail(t, chkEnum, c, "probe %s: {enum: @E} gives %v, the inline list gives %v", p, va, vb)
		}
		// and both agree with type-sensitive membership
		pv, _ := ref.Parse([]byte(p))
		var items []ref.EnumItem
		for _, it := range c.Items {
			items = append(items, ref.EnumItem{Kind: it.Kind, Tok: it.Tok, Str: it.Str})
		}
		if pv != nil && pv.Kind != ref.KObject && pv.Kind != ref.KArray {
			if member, u := ref.EnumMember(items, pv); u == "" && member != va.OK {
				run.Fail(t, chkEnum, c, "probe %s: validation says %v, membership in the value list is %v", p, va, member)
			}
		}
	}
	return false
}

func TestNamedEnum(t *testing.T) {
	run.SkipIfReplaying(t)
	defer run.Done(t, chkEnum)
	pool := []Item{
		{Kind: ref.KNumber, Tok: "1"}, {Kind: ref.KString, Tok: `"1"`, Str: "1"}, {Kind: ref.KTrue, Tok: "true"}, {Kind: ref.KString, Tok: `"true"`, Str: "true"},
		{Kind: ref.KNull, Tok: "null"}, {Kind: ref.KString, Tok: `"null"`, Str: "null"}, {Kind: ref.KNumber, Tok: "1.5"}, {Kind: ref.KNumber, Tok: "-2"},
		{Kind: ref.KFalse, Tok: "false"}, {Kind: ref.KString, Tok: `""`, Str: ""}, {Kind: ref.KString, Tok: `"a b"`, Str: "a b"}, {Kind: ref.KNumber, Tok: "100"},
		{Kind: ref.KString, Tok: `"é"`, Str: "é"}, {Kind: ref.KString, Tok: `"\n"`, Str: "\n"}, {Kind: ref.KNumber, Tok: "0.25"}, {Kind: ref.KString, Tok: `"//x"`, Str: "//x"},
		{Kind: ref.KString, Tok: `"a,b]"`, Str: "a,b]"}, {Kind: ref.KString, Tok: `"q\"r"`, Str: `q"r`},
		{Kind: ref.KString, Tok: `"1.0"`, Str: "1.0"}, {Kind: ref.KString, Tok: `"1.5"`, Str: "1.5"}, {Kind: ref.KString, Tok: `"1.50"`, Str: "1.50"}, {Kind: ref.KString, Tok: `"0"`, Str: "0"}, {Kind: ref.KString, Tok: `"-0"`, Str: "-0"},
		{Kind: ref.KNumber, Tok: "1.50"}, {Kind: ref.KNumber, Tok: "0"}, {Kind: ref.KNumber, Tok: "-0"}, {Kind: ref.KNumber, Tok: "0.250"}, {Kind: ref.KNumber, Tok: "-2.0"},
	}
	rapid.Check(t, func(t *rapid.T) {
		if rapid.IntRange(0, 24).Draw(t, "noList") == 0 {
			// rule texts that hold no value list, or a list followed by a lone slash: the inline
			// spellings ({enum: }, {enum: [1, 2] /}) are refused, so must these be when the rule is checked
			text := rapid.SampledFrom([]string{"", " \n\t", "// [1, 2]", "/* pets */", "// a\n// b", "/* a */ // b", "[1, 2] /", "[1, 2]/", "[]\n/"}).Draw(t, "noListText")
			c := EnumCase{Text: text}
			e := enum.New("@E", text)
			err, p := safe(e.Check)
			if p != nil {
				run.Fail(t, chkEnum, c, "enum.Check panicked: %v", p)
			}
			if err == nil {
				run.Fail(t, chkEnum, c, "the rule text %q is no value list, yet Check accepts it", text)
			}
			run.Eval(chkEnum, true, "no-list", text)
			run.Label("enum:text-without-a-complete-list")
			return
		}
		n := rapid.IntRange(0, 8).Draw(t, "n")
		var items []Item
		for i := 0; i < n; i++ {
			it := rapid.SampledFrom(pool).Draw(t, "item")
			if it.Kind == ref.KString && rapid.IntRange(0, 3).Draw(t, "respell") == 0 {
				it.Tok = gen.Respell(t, it.Str, "rs") // same string, other escape spelling
			}
			items = append(items, it)
		}
		// layout
		nl := rapid.SampledFrom([]string{"\n", "\n", "\r\n"}).Draw(t, "nl")
		var b strings.Builder
		ws := func() string { return rapid.SampledFrom([]string{"", "", " ", "  ", "\t"}).Draw(t, "ws") }
		hasComment := false
		switch rapid.IntRange(0, 9).Draw(t, "leadComment") {
		case 0: // a comment before the opening bracket
			b.WriteString(ws() + "// pets" + nl)
			hasComment = true
		case 1:
			b.WriteString(ws() + "/* pets */" + rapid.SampledFrom([]string{" ", nl, ""}).Draw(t, "leadSep"))
			hasComment = true
		}
		b.WriteString(ws() + "[")
		multi := rapid.Bool().Draw(t, "multiline")
		if multi {
			b.WriteString(nl)
		}
		for i := range items {
			if multi && rapid.IntRange(0, 4).Draw(t, "ownLineComment") == 0 {
				switch rapid.IntRange(0, 2).Draw(t, "blockComment") {
				case 0:
					b.WriteString(ws() + "/* block" + nl + "  comment */" + nl)
				case 1:
					b.WriteString(ws() + "// interline comment" + nl)
				default:
					b.WriteString(ws() + "//" + ws() + nl) // an empty comment: the line break ends it
				}
				hasComment = true
			}
			b.WriteString(ws() + items[i].Tok + ws())
			if i < len(items)-1 {
				b.WriteString(",")
			}
			if multi {
				switch rapid.IntRange(0, 6).Draw(t, "itemComment") {
				case 2: // an empty comment after the item
					b.WriteString(rapid.SampledFrom([]string{" //", "//", " // ", " //\t", " /**/"}).Draw(t, "emptyComment"))
					hasComment = true
				case 0:
					items[i].Comment = fmt.Sprintf("comment %d", i)
					b.WriteString(" // " + items[i].Comment)
					hasComment = true
				case 1:
					items[i].Comment = fmt.Sprintf("ml %d", i)
					b.WriteString(" /* " + items[i].Comment + " */")
					hasComment = true
				}
				b.WriteString(nl)
			} else {
				b.WriteString(ws())
			}
		}
		b.WriteString(ws() + "]")
		// what follows the closing bracket: nothing, blanks, a line break, a comment that the end of
		// the text closes, a comment followed by a line break
		switch rapid.IntRange(0, 7).Draw(t, "tail") {
		case 0, 1:
			b.WriteString(nl)
		case 2:
			b.WriteString(" // closing note")
			hasComment = true
		case 3:
			b.WriteString(" // closing note" + nl)
			hasComment = true
		case 4:
			b.WriteString(" /* closing note */")
			hasComment = true
		case 5:
			b.WriteString("  ")
		}
		c := EnumCase{Text: b.String(), Items: items, LenFirst: rapid.IntRange(0, 2).Draw(t, "lenFirst") == 0, Early: rapid.IntRange(0, 2).Draw(t, "early"),
			ClosingComment: strings.Contains(b.String(), "closing note")}
		for _, it := range pool {
			c.Probes = append(c.Probes, it.Tok)
		}
		c.Probes = append(c.Probes, `"zz"`, "7", `"A"`, "1.50", "1e0")
		dup := checkEnum(t, c)
		kinds := map[ref.Kind]bool{}
		for _, it := range items {
			k := it.Kind
			if k == ref.KFalse {
				k = ref.KTrue
			}
			kinds[k] = true
		}
		run.Eval(chkEnum, len(kinds) >= 2 || hasComment, c.Text)
		if dup {
			run.Label("enum:has-duplicate")
		} else {
			run.Label("enum:distinct")
		}
		if hasComment {
			run.Label("enum:has-comment")
		}
		run.Sample(chkEnum, map[string]any{"enum_text": c.Text, "duplicate": dup})
	})
}

func checkRegex(t run.TB, c RegexCase) {
	re, cerr := regexp.Compile(c.Pattern)
	if cerr != nil {
		t.Fatalf("harness bug: pattern %q does not compile", c.Pattern)
	}
	token := "/" + c.Pattern + "/"
	rs := libregex.New("@T", token+c.Tail)
	var pat string
	err, p := safe(func() (e error) { pat, e = rs.Pattern(); return })
	if p != nil || err != nil {
		run.Fail(t, chkRegex, c, "Pattern() of %q: err=%v panic=%v", token+c.Tail, err, p)
	}
	if pat != c.Pattern {
		run.Fail(t, chkRegex, c, "Pattern()=%q, the token holds %q", pat, c.Pattern)
	}
	var l uint
	if err, p := safe(func() (e error) { l, e = rs.Len(); return }); err != nil || p != nil || int(l) != len(token) {
		run.Fail(t, chkRegex, c, "Len()=%d err=%v panic=%v, the /P/ token is %d bytes", l, err, p, len(token))
	}
	var ex []byte
	if err, p := safe(func() (e error) { ex, e = rs.Example(); return }); err != nil || p != nil {
		if p == nil && mostlySurrogateGap(c.Pattern) && lib.Canon(err).Code == 1503 && run.MatchKnown("C18-no-example-for-ranges-in-the-surrogate-gap") {
			return
		}
		run.Fail(t, chkRegex, c, "Example(): err=%v panic=%v", err, p)
	}
	if !re.Match(ex) {
		run.Fail(t, chkRegex, c, "Example()=%q does not match the pattern %q", ex, c.Pattern)
	}
	// as an added type vs inline {regex: P}
	a := js.New("a", "{\n  \"k\": @T\n}")
	if err, p := safe(func() error { return a.AddType("@T", libregex.New("@T", token+c.Tail)) }); err != nil || p != nil {
		run.Fail(t, chkRegex, c, "AddType of the regex type fails: err=%v panic=%v", err, p)
	}
	b := js.New("b", "{\n  \"k\": "+gen.Quote(string(ex))+" // {regex: "+gen.JSONEscape(c.Pattern)+"}\n}")
	ca, cb := lib.Check(a), lib.Check(b)
	if !ca.OK || !cb.OK {
		run.Fail(t, chkRegex, c, "Check: regex type %v, inline rule %v", ca, cb)
	}
	for _, s := range c.Probes {
		doc := `{"k":` + gen.Quote(s) + `}`
		va, vb := lib.Validate(a, []byte(doc)), lib.Validate(b, []byte(doc))
		if va.OK != vb.OK {
			run.Fail(t, chkRegex, c, "string %q: regex type says %v, inline {regex} says %v", s, va, vb)
		}
		if va.OK != re.MatchString(s) {
			run.Fail(t, chkRegex, c, "string %q: validation says %v, RE2 search says %v", s, va, re.MatchString(s))
		}
	}
}

// mostlySurrogateGap: the matcher of the recorded finding - a repeated class whose range lies half
// inside U+D800..U+DFFF, where the generator's draws are no characters.
func mostlySurrogateGap(pattern string) bool {
	return strings.Contains(pattern, `[\x{D000}-\x{E000}]{`)
}

func TestRegexType(t *testing.T) {
	run.SkipIfReplaying(t)
	defer run.Done(t, chkRegex)
	rapid.Check(t, func(t *rapid.T) {
		re := gen.GenRegex(t, rapid.IntRange(1, 3).Draw(t, "depth"), "re")
		pat := strings.ReplaceAll(re.Pattern(), "/", `\/`)
		endsWithBackslash := rapid.IntRange(0, 5).Draw(t, "escBackslash") == 0
		if endsWithBackslash {
			pat += `\\`
		}
		switch rapid.IntRange(0, 3).Draw(t, "anchor") {
		case 0:
			pat = "^" + pat + "$"
		case 1:
			pat = "^" + pat
		}
		tail := rapid.SampledFrom([]string{"", " ", "\n", " // note", "/", " /x/", "\nGET /cats"}).Draw(t, "tail")
		c := RegexCase{Pattern: pat, Tail: tail}
		if rapid.IntRange(0, 7).Draw(t, "curated") == 0 {
			// patterns whose examples need care: zero-width assertions, classes without printable ASCII
			cur := rapid.SampledFrom([][]string{
				{``, "", "abc", " "}, // the empty pattern: the token is //
				{`\Bfoo`, "afoo", "foo", "xfoox", " foo"}, {`[a-z]+\B`, "ua", "u", "ab c", "a"}, {`\b-\b`, "a-a", "-", " - ", "a-"},
				{`foo\B`, "fooa", "foo", "foo ", "xfoob"}, {`[^\x00-\x7f]`, "\u00e9", "e", "", "a\u00e9"}, {`[^ -~\s]`, "\u00a1", "a", " ", "\u0001"},
				{`[\x{80}-\x{10ffff}]`, "\u00e9", "e", "\U0001F600", ""}, {`[^\x00-\x7f\d]+`, "\u00e9\u00e9", "12", "x", "\u00e9"},
				{`^\w\b.$`, "a-", "ab", "a", "--"}, {`\bcat\b`, "cat", "a cat.", "cats", "concat"},
				// several such classes in different sub-expressions; ranges that span the surrogate gap
				{`[^\x00-\x7f]-[^\x00-\x7f]`, "\u00e9-\u00e9", "a-b", "\u00e9-", "-"}, {`[^\x00-\x7f]+@[^\x00-\x7f]+`, "\u00e9\u00e9@\u00fc", "a@b", "@", "\u00e9@"},
				{`[\x{3000}-\x{EFFF}]{10}`, "\u4e00\u4e01\u4e02\u4e03\u4e04\u4e05\u4e06\u4e07\u4e08\u4e09", "abcdefghij", "\u4e00", ""}, {`id-[\x{A000}-\x{F8FF}]{4}`, "id-\ua000\ua001\ua002\ua003", "id-abcd", "id-", "\ua000"},
				// assertions in the middle of the pattern that only one kind of character satisfies: the line feed a
				// multi-line ^ or $ asks for, the word (or non-word) character behind \b and \B
				{`(?ms)^BEGIN$.*^END$`, "BEGIN\nEND", "BEGINEND", "BEGIN\nx\nEND", ""}, {`(?m)^a$[\s\S]*^b$`, "a\nb", "ab", "a\n\nb", "a b"},
				{`(?m)^a$\W^b$`, "a\nb", "a b", "ab", "a\n"}, {`\d\B\pL+`, "1a", "1-", "1", "a1"},
				// two assertions that need different kinds of characters in one pattern; a non-word character that
				// is no printable ASCII one
				{`(?m)^a$\W^\d\B\pL+`, "a\n1b", "a 1b", "a\n1", "a\nb"}, {`\d\B\pL\b\PL`, "1a ", "1a", "1 a", "a1 "},
				{`a\b[\w\t]\bb`, "a\tb", "aab", "ab", "a b"}, {`\d\b[0-9\x{b0}]\B$`, "1\u00b0", "11", "1", "\u00b01"},
				// many classes that all need the same kind of character (more combinations than a search
				// over the classes one by one tries)
				{`(?s)a\B.\B.\B.\B.\B.\B.\B.\B.\Ba`, "abbbbbbbba", "a-bbbbbbba", "aa", "abbbbbbbb"},
				{`a\B[^b]\B[^b]\B[^b]\B[^b]\B[^b]\B[^b]\B[^b]\B[^b]\B[^b]\B[^b]\Ba`, "acccccccccca", "abbbbbbbbbba", "a c c c c c a", "aa"},
				{`[\x{D000}-\x{E000}]{6}`, "\ud000\ud001\ud002\ud003\ud004\ud005", "abcdef", "", "\ud000"},
			}).Draw(t, "curatedPattern")
			c = RegexCase{Pattern: cur[0], Tail: tail, Probes: cur[1:]}
			checkRegex(t, c)
			run.Eval(chkRegex, true, c.Pattern, tail)
			run.Label("regex:curated-assertions-and-classes")
			return
		}
		for i := 0; i < 4; i++ {
			m := re.Sample(t, "m")
			if endsWithBackslash {
				m += `\`
			}
			c.Probes = append(c.Probes, m)
			if len(m) > 0 {
				pos := rapid.IntRange(0, len(m)-1).Draw(t, "edPos")
				c.Probes = append(c.Probes, m[:pos]+rapid.SampledFrom([]string{"", "x", "Q", "9"}).Draw(t, "ed")+m[pos+1:])
			}
		}
		c.Probes = append(c.Probes, "", "zz")
		checkRegex(t, c)
		run.Eval(chkRegex, strings.ContainsAny(pat, `[](){}*+?|^$.\`), pat, tail)
		run.Sample(chkRegex, c)
	})
}

func TestReplay(t *testing.T) { run.TestReplay(t) }
