// Package omap is the C19 engine: a reference insertion-ordered map (slice of pairs), an
// operation vocabulary, an exhaustive enumerator, a rapid state machine and a concurrent
// stress, all parametrised by an adapter over the map type under test.
package omap

import (
	"encoding/json"
	"errors"
	"fmt"
	"runtime"
	"sort"
	"strings"
	"sync"
	"sync/atomic"
	"time"

	"pgregory.net/rapid"

	"verif/run"
)

// Map is the adapter over one generated ordered-map type: int keys, string values.
type Map interface {
	Set(k int, v string)
	Update(k int, fn func(string) string)
	GetValue(k int) string
	Get(k int) (string, bool)
	Has(k int) bool
	Len() int
	Delete(k int)
	Filter(fn func(k int, v string) bool)
	Find(fn func(k int, v string) bool) (int, string, bool)
	Each(fn func(k int, v string) error) error
	EachSafe(fn func(k int, v string))
	Map(fn func(k int, v string) (string, error)) error
	MarshalJSON() ([]byte, error)
	// KeyJSON / ValJSON say how one key / value is rendered by MarshalJSON (so that the expected
	// text can be assembled from the reference model alone).
	KeyJSON(k int) string
	ValJSON(v string) string
}

// ---------------------------------------------------------------------------------------
// reference model (written from the C19 statement)

type pair struct {
	k int
	v string
}

type Model struct{ p []pair }

func (m *Model) idx(k int) int {
	for i, e := range m.p {
		if e.k == k {
			return i
		}
	}
	return -1
}
func (m *Model) Set(k int, v string) {
	if i := m.idx(k); i >= 0 {
		m.p[i].v = v
		return
	}
	m.p = append(m.p, pair{k, v})
}
func (m *Model) Delete(k int) {
	if i := m.idx(k); i >= 0 {
		m.p = append(m.p[:i:i], m.p[i+1:]...)
	}
}

// ---------------------------------------------------------------------------------------
// operations

type Op struct {
	Kind string `json:"op"` // set update delete filter map
	K    int    `json:"k,omitempty"`
	V    string `json:"v,omitempty"`
	P    int    `json:"p,omitempty"` // predicate / function number
}

func (o Op) String() string {
	switch o.Kind {
	case "set":
		return fmt.Sprintf("Set(%d,%s)", o.K, o.V)
	case "update":
		return fmt.Sprintf("Update(%d)", o.K)
	case "delete":
		return fmt.Sprintf("Delete(%d)", o.K)
	case "filter":
		return fmt.Sprintf("Filter(p%d)", o.P)
	case "map":
		return fmt.Sprintf("Map(f%d)", o.P)
	case "panic":
		return fmt.Sprintf("%s(callback panics)", []string{"EachSafe", "Each", "Find"}[o.P%3])
	}
	return o.Kind
}

// predicates: p0 keeps entries whose key != 0; p1 keeps entries whose value starts with "a";
// p2 keeps nothing; p3 keeps entries with an odd key.
func pred(p int, k int, v string) bool {
	switch p {
	case 0:
		return k != 0
	case 1:
		return strings.HasPrefix(v, "a")
	case 2:
		return false
	default:
		return k%2 == 1
	}
}

var errStop = errors.New("stop")

// map functions: f0 toggles the first letter a<->b; f1 does the same but fails at key 1.
func mapFn(p int, k int, v string) (string, error) {
	if p == 1 && k == 1 {
		return "", errStop
	}
	if strings.HasPrefix(v, "a") {
		return "b" + v[1:], nil
	}
	if strings.HasPrefix(v, "b") {
		return "a" + v[1:], nil
	}
	return v, nil
}

func updFn(v string) string {
	if len(v) > 6 {
		return v[:1]
	}
	return v + "'"
}

// Apply executes op on both, comparing the callback traces. Returns "" or a deviation.
func Apply(o Op, impl Map, m *Model) string {
	_, modelOnly := impl.(nopMap) // (no callbacks come from it: nothing to compare, the model just moves on)
	switch o.Kind {
	case "set":
		impl.Set(o.K, o.V)
		m.Set(o.K, o.V)
	case "update":
		calls := 0
		got := ""
		impl.Update(o.K, func(v string) string { calls++; got = v; return updFn(v) })
		if i := m.idx(o.K); i >= 0 {
			if !modelOnly && (calls != 1 || got != m.p[i].v) {
				return fmt.Sprintf("Update(%d): callback called %d times with %q, want once with %q", o.K, calls, got, m.p[i].v)
			}
			m.p[i].v = updFn(m.p[i].v)
		} else if calls != 0 {
			return fmt.Sprintf("Update(%d) on an absent key called the callback", o.K)
		}
	case "delete":
		impl.Delete(o.K)
		m.Delete(o.K)
	case "panic":
		// a read-only walk whose callback panics; the caller recovers. The map is the caller's to
		// use afterwards, unchanged.
		func() {
			defer func() { _ = recover() }()
			switch o.P % 3 {
			case 0:
				impl.EachSafe(func(int, string) { panic("callback") })
			case 1:
				_ = impl.Each(func(int, string) error { panic("callback") })
			default:
				impl.Find(func(int, string) bool { panic("callback") })
			}
		}()
	case "filter":
		var trace []pair
		impl.Filter(func(k int, v string) bool { trace = append(trace, pair{k, v}); return pred(o.P, k, v) })
		if d := sameTrace("Filter", trace, m.p); d != "" && !modelOnly {
			return d
		}
		var keep []pair
		for _, e := range m.p {
			if pred(o.P, e.k, e.v) {
				keep = append(keep, e)
			}
		}
		m.p = keep
	case "map":
		var trace []pair
		err := impl.Map(func(k int, v string) (string, error) { trace = append(trace, pair{k, v}); return mapFn(o.P, k, v) })
		var want []pair
		var wantErr error
		for i := range m.p {
			want = append(want, m.p[i])
			nv, e := mapFn(o.P, m.p[i].k, m.p[i].v)
			if e != nil {
				wantErr = e
				break
			}
			m.p[i].v = nv
		}
		if d := sameTrace("Map", trace, want); d != "" && !modelOnly {
			return d
		}
		if !modelOnly && (err != nil) != (wantErr != nil) {
			return fmt.Sprintf("Map returned %v, want %v", err, wantErr)
		}
	}
	return ""
}

func sameTrace(what string, got, want []pair) string {
	if len(got) != len(want) {
		return fmt.Sprintf("%s visited %v, want exactly %v (each entry once, in order)", what, got, want)
	}
	for i := range got {
		if got[i] != want[i] {
			return fmt.Sprintf("%s visited %v, want exactly %v (each entry once, in order)", what, got, want)
		}
	}
	return ""
}

// Observe compares the full observable state. keys is the key universe (plus one absent key).
func Observe(impl Map, m *Model, keys []int) string {
	if impl.Len() != len(m.p) {
		return fmt.Sprintf("Len()=%d, reference has %d entries %v", impl.Len(), len(m.p), m.p)
	}
	for _, k := range keys {
		i := m.idx(k)
		v, ok := impl.Get(k)
		if ok != (i >= 0) || (ok && v != m.p[i].v) {
			return fmt.Sprintf("Get(%d)=(%q,%v), reference %v", k, v, ok, m.p)
		}
		if impl.Has(k) != (i >= 0) {
			return fmt.Sprintf("Has(%d)=%v, reference %v", k, impl.Has(k), m.p)
		}
		gv := impl.GetValue(k)
		if i >= 0 && gv != m.p[i].v || i < 0 && gv != "" {
			return fmt.Sprintf("GetValue(%d)=%q, reference %v", k, gv, m.p)
		}
	}
	var tr []pair
	impl.EachSafe(func(k int, v string) { tr = append(tr, pair{k, v}) })
	if d := sameTrace("EachSafe", tr, m.p); d != "" {
		return d
	}
	tr = nil
	if err := impl.Each(func(k int, v string) error { tr = append(tr, pair{k, v}); return nil }); err != nil {
		return "Each returned " + err.Error()
	}
	if d := sameTrace("Each", tr, m.p); d != "" {
		return d
	}
	// Each stops at the first error
	if len(m.p) > 0 {
		n := 0
		err := impl.Each(func(k int, v string) error { n++; return errStop })
		if err != errStop || n != 1 {
			return fmt.Sprintf("Each with a failing callback: %d calls, err=%v", n, err)
		}
	}
	for p := 0; p < 2; p++ {
		var want *pair
		for i := range m.p {
			if pred(p, m.p[i].k, m.p[i].v) {
				want = &m.p[i]
				break
			}
		}
		k, v, ok := impl.Find(func(k int, v string) bool { return pred(p, k, v) })
		if ok != (want != nil) || (ok && (k != want.k || v != want.v)) {
			return fmt.Sprintf("Find(p%d)=(%d,%q,%v), reference %v", p, k, v, ok, m.p)
		}
	}
	var sb strings.Builder
	sb.WriteByte('{')
	for i, e := range m.p {
		if i > 0 {
			sb.WriteByte(',')
		}
		sb.WriteString(impl.KeyJSON(e.k))
		sb.WriteByte(':')
		sb.WriteString(impl.ValJSON(e.v))
	}
	sb.WriteByte('}')
	b, err := impl.MarshalJSON()
	if err != nil || string(b) != sb.String() {
		return fmt.Sprintf("MarshalJSON=%s (%v), want %s", b, err, sb.String())
	}
	lastJSON = b
	return ""
}

// lastJSON is the slice returned by the MarshalJSON call of the latest successful Observe (the
// caller may keep it: a result handed out must not change when the map is used again).
var lastJSON []byte

type keptJSON struct {
	b    []byte
	snap string
	step int
}

// ---------------------------------------------------------------------------------------
// case + replay

type Case struct {
	Type string `json:"map_type"`
	Ops  []Op   `json:"ops"`
}

var Factories = map[string]func() Map{}

// TwinFactories: map types that are built from arguments handed in by the caller. The factory
// returns two maps built from the SAME arguments and the Set ops that describe their initial
// content; the second map is the one that is used "in between" - what happens to it must not
// show in the first.
var TwinFactories = map[string]func() (Map, Map, []Op){}

const Chk = "omap-sequence"

func init() {
	run.RegisterReplay(Chk, func(t run.TB, raw json.RawMessage) {
		var c Case
		if err := json.Unmarshal(raw, &c); err != nil {
			t.Fatalf("bad case: %v", err)
		}
		RunCase(t, c, true)
	})
}

// RunCase replays ops from scratch, observing after every step (everyStep) or only the last.
func RunCase(t run.TB, c Case, everyStep bool) {
	f := Factories[c.Type]
	if f == nil {
		t.Fatalf("unknown map type %q", c.Type)
	}
	impl, m := f(), &Model{}
	other := f() // a second map of the same type, used in between
	if tf := TwinFactories[c.Type]; tf != nil {
		var init []Op
		impl, other, init = tf()
		for _, o := range init {
			Apply(o, nopMap{}, m)
		}
	}
	other.Set(98, "other")
	keys := []int{0, 1, 2, 3, 4, 5, 6, 7, 99}
	var kept []keptJSON
	var d string
	guarded := false
	for _, o := range c.Ops {
		guarded = guarded || o.Kind == "panic"
	}
	body := func(f func()) { f() }
	if guarded {
		// (an operation that never returns - a lock left behind by a walk that was left by a panic -
		// cannot be reported through the test framework: the process ends with the case recorded)
		body = func(f func()) {
			done := make(chan struct{})
			go func() { defer close(done); f() }()
			select {
			case <-done:
			case <-time.After(20 * time.Second):
				run.FailAndExit(Chk, c, "an operation did not return within 20 s after a read-only walk (EachSafe / Each / Find) had been left by a panic of its callback")
			}
		}
	}
	body(func() {
		defer func() {
			if r := recover(); r != nil {
				d = fmt.Sprintf("panic: %v", r)
			}
		}()
		for i, o := range c.Ops {
			if d = Apply(o, impl, m); d != "" {
				d = fmt.Sprintf("step %d %v: %s", i, o, d)
				return
			}
			// the other map lives on: a key comes, a key goes, the oldest key goes
			switch i % 3 {
			case 0:
				other.Set(97, "x")
			case 1:
				other.Delete(97)
			case 2:
				first, seen := 0, false
				other.EachSafe(func(k int, _ string) {
					if !seen {
						first, seen = k, true
					}
				})
				if seen {
					other.Delete(first)
				}
			}
			if everyStep || i == len(c.Ops)-1 {
				if d = Observe(impl, m, keys); d != "" {
					d = fmt.Sprintf("after step %d %v (and changes to another map): %s", i, o, d)
					return
				}
				kept = append(kept, keptJSON{lastJSON, string(lastJSON), i})
				other.MarshalJSON()
				for _, k := range kept {
					if string(k.b) != k.snap {
						d = fmt.Sprintf("the bytes returned by MarshalJSON after step %d were %s; after step %d %v (and a MarshalJSON of another map) the same slice holds %s", k.step, k.snap, i, o, k.b)
						return
					}
				}
			}
		}
	})
	if d != "" {
		run.Fail(t, Chk, c, "%s", d)
	}
}

func Nontrivial(ops []Op) bool {
	live := map[int]bool{}
	deleted := map[int]bool{}
	m := &Model{}
	for _, o := range ops {
		switch o.Kind {
		case "delete":
			if !live[o.K] {
				return true // delete of an absent key
			}
			deleted[o.K] = true
			delete(live, o.K)
		case "set":
			if deleted[o.K] {
				return true // set after delete of the same key
			}
			live[o.K] = true
		case "filter":
			for i, e := range m.p {
				if !pred(o.P, e.k, e.v) && i != len(m.p)-1 {
					return true // filter rejects an entry that is not the last
				}
			}
		}
		Apply(o, nopMap{}, m)
		live = map[int]bool{}
		for _, e := range m.p {
			live[e.k] = true
		}
	}
	return false
}

// nopMap lets Apply advance the model alone.
type nopMap struct{}

func (nopMap) Set(int, string)                                 {}
func (nopMap) Update(int, func(string) string)                 {}
func (nopMap) GetValue(int) string                             { return "" }
func (nopMap) Get(int) (string, bool)                          { return "", false }
func (nopMap) Has(int) bool                                    { return false }
func (nopMap) Len() int                                        { return 0 }
func (nopMap) Delete(int)                                      {}
func (nopMap) Filter(func(int, string) bool)                   {}
func (nopMap) Find(func(int, string) bool) (int, string, bool) { return 0, "", false }
func (nopMap) Each(func(int, string) error) error              { return nil }
func (nopMap) EachSafe(func(int, string))                      {}
func (nopMap) Map(func(int, string) (string, error)) error     { return nil }
func (nopMap) MarshalJSON() ([]byte, error)                    { return nil, nil }
func (nopMap) KeyJSON(int) string                              { return "" }
func (nopMap) ValJSON(string) string                           { return "" }

// Vocabulary of the exhaustive tier: 3 keys, 2 values, 2 predicates, 2 map functions = 16 ops.
func Vocabulary() []Op {
	var ops []Op
	for k := 0; k < 3; k++ {
		for _, v := range []string{"a", "b"} {
			ops = append(ops, Op{Kind: "set", K: k, V: v})
		}
	}
	for k := 0; k < 3; k++ {
		ops = append(ops, Op{Kind: "update", K: k})
	}
	for k := 0; k < 3; k++ {
		ops = append(ops, Op{Kind: "delete", K: k})
	}
	ops = append(ops, Op{Kind: "filter", P: 0}, Op{Kind: "filter", P: 1}, Op{Kind: "map", P: 0}, Op{Kind: "map", P: 1})
	return ops
}

// Exhaustive enumerates every sequence of 1..maxLen vocabulary ops whose first op index is
// congruent to shard mod shards. Every node of the prefix tree is executed from scratch and
// observed after its last step (all shorter prefixes are nodes of their own).
func Exhaustive(t run.TB, typ string, maxLen, shard, shards int) int64 {
	voc := Vocabulary()
	var n int64
	seq := make([]Op, 0, maxLen)
	// by increasing length, so that the first failing sequence is a shortest one
	for L := 1; L <= maxLen; L++ {
		var rec func()
		rec = func() {
			for i, o := range voc {
				if len(seq) == 0 && i%shards != shard {
					continue
				}
				seq = append(seq, o)
				if len(seq) < L {
					rec()
				} else {
					c := Case{Type: typ, Ops: append([]Op(nil), seq...)}
					RunCase(t, c, false)
					n++
					if n%200003 == 0 || n == 77 {
						run.Sample(Chk, c)
					}
					if len(seq) <= 4 || n%16 == 0 { // non-triviality is classified on a subset (cost)
						run.Eval(Chk, Nontrivial(seq), typ, fmt.Sprint(seq))
					} else {
						run.Eval(Chk, false)
					}
				}
				seq = seq[:len(seq)-1]
			}
		}
		rec()
	}
	return n
}

// RandomOp draws an op over a pool of 8 keys.
func RandomOp(t *rapid.T) Op {
	switch rapid.IntRange(0, 10).Draw(t, "op") {
	case 10:
		return Op{Kind: "panic", P: rapid.IntRange(0, 2).Draw(t, "walk")}
	case 0, 1, 2, 3:
		return Op{Kind: "set", K: rapid.IntRange(0, 7).Draw(t, "k"), V: rapid.SampledFrom([]string{"a", "b", "ax", "by", "c"}).Draw(t, "v")}
	case 4:
		return Op{Kind: "update", K: rapid.IntRange(0, 7).Draw(t, "k")}
	case 5, 6:
		return Op{Kind: "delete", K: rapid.IntRange(0, 7).Draw(t, "k")}
	case 7, 8:
		return Op{Kind: "filter", P: rapid.IntRange(0, 3).Draw(t, "p")}
	}
	return Op{Kind: "map", P: rapid.IntRange(0, 1).Draw(t, "f")}
}

// Concurrent: goroutines run random ops (no re-entrant calls from callbacks) on one map; the
// race detector is the main oracle; afterwards Len must equal the number of keys EachSafe sees
// and every such key must be present.
func Concurrent(f func() Map, plans [][]Op) string {
	return ConcurrentOn([]Map{f()}, plans)
}

// ConcurrentOn: the same with several maps, goroutine i works on map i mod len(maps) - maps that
// were built from the same arguments are maps of their own, their users need no common lock.
func ConcurrentOn(maps []Map, plans [][]Op) string {
	var wg sync.WaitGroup
	var bad atomic.Value
	for i, plan := range plans {
		plan := plan
		impl := maps[i%len(maps)]
		wg.Add(1)
		go func() {
			defer wg.Done()
			for _, o := range plan {
				switch o.Kind {
				case "set":
					impl.Set(o.K, o.V)
				case "update":
					impl.Update(o.K, updFn)
				case "delete":
					impl.Delete(o.K)
				case "filter":
					impl.Filter(func(k int, v string) bool { return pred(o.P, k, v) })
				case "map":
					impl.Map(func(k int, v string) (string, error) { return mapFn(o.P, k, v) })
				}
				impl.Len()
				impl.Has(o.K)
				impl.Get(o.K)
				impl.EachSafe(func(int, string) {})
				// the result is read (a reader of a buffer that went back to a pool races with its next user)
				if b, err := impl.MarshalJSON(); err == nil && !json.Valid(b) {
					bad.Store(string(b))
				}
			}
		}()
	}
	wg.Wait()
	if v := bad.Load(); v != nil {
		return fmt.Sprintf("MarshalJSON during concurrent use returned a text that is not JSON: %s", v)
	}
	for _, impl := range maps {
		if d := consistent(impl); d != "" {
			return d
		}
	}
	return ""
}

func consistent(impl Map) string {
	seen := map[int]int{}
	n := 0
	impl.EachSafe(func(k int, v string) { seen[k]++; n++ })
	if impl.Len() != n {
		return fmt.Sprintf("after concurrent use Len()=%d but EachSafe visits %d entries", impl.Len(), n)
	}
	for k, c := range seen {
		if c != 1 || !impl.Has(k) {
			return fmt.Sprintf("after concurrent use key %d is iterated %d times, Has=%v", k, c, impl.Has(k))
		}
	}
	return ""
}

// Linearizable runs the plans (one goroutine each, few operations over three keys) on one map and
// compares the final state with the final states of all interleavings of the same operations on the
// reference model: an operation takes effect at one moment between its call and its return, so the
// outcome has to be the outcome of SOME order (per goroutine the written one). Predicates and map
// functions dawdle a little (they run inside the operation), which widens whatever window an
// operation leaves open between looking and acting.
func Linearizable(f func() Map, init []Op, plans [][]Op) string {
	impl := f()
	for _, o := range init {
		Apply(o, impl, &Model{})
	}
	dawdle := func() {
		for i := 0; i < 3; i++ {
			runtime.Gosched()
		}
	}
	var wg sync.WaitGroup
	start := make(chan struct{})
	for _, plan := range plans {
		plan := plan
		wg.Add(1)
		go func() {
			defer wg.Done()
			<-start
			for _, o := range plan {
				switch o.Kind {
				case "set":
					impl.Set(o.K, o.V)
				case "update":
					impl.Update(o.K, updFn)
				case "delete":
					impl.Delete(o.K)
				case "filter":
					impl.Filter(func(k int, v string) bool { dawdle(); return pred(o.P, k, v) })
				case "map":
					impl.Map(func(k int, v string) (string, error) { dawdle(); return mapFn(o.P, k, v) })
				}
			}
		}()
	}
	close(start)
	wg.Wait()
	var got []pair
	impl.EachSafe(func(k int, v string) { got = append(got, pair{k, v}) })
	// all interleavings on the model
	finals := map[string]bool{}
	idx := make([]int, len(plans))
	var rec func(m Model)
	rec = func(m Model) {
		done := true
		for g := range plans {
			if idx[g] < len(plans[g]) {
				done = false
				m2 := Model{p: append([]pair(nil), m.p...)}
				Apply(plans[g][idx[g]], nopMap{}, &m2)
				idx[g]++
				rec(m2)
				idx[g]--
			}
		}
		if done {
			finals[fmt.Sprint(m.p)] = true
		}
	}
	m0 := Model{}
	for _, o := range init {
		Apply(o, nopMap{}, &m0)
	}
	rec(m0)
	if !finals[fmt.Sprint(got)] {
		var all []string
		for k := range finals {
			all = append(all, k)
		}
		sort.Strings(all)
		return fmt.Sprintf("final state %v is the outcome of no order of the operations; the possible outcomes are %v", got, all)
	}
	return ""
}
