package c15

import (
	stdjson "encoding/json"
	"fmt"
	"os"
	"regexp"
	"strconv"
	"strings"
	"testing"

	"pgregory.net/rapid"

	js "github.com/jsightapi/jsight-schema-go-library/notations/jschema"

	"verif/gen"
	"verif/lib"
	"verif/ref"
	"verif/run"
)

func TestMain(m *testing.M) { gen.Avoided = run.Avoided; run.Main(m, "C15") }

const chk = "example"

type Case struct {
	Spec  lib.Spec `json:"spec"`
	Plain string   `json:"expected_plain_json,omitempty"` // set when the schema's example is plain JSON
	// Cyclic: the type graph has a reference cycle (the recursion cut-off of the example builder can fire)
	Cyclic bool `json:"type_graph_has_a_cycle,omitempty"`
	// Graph: the abstract type graph (graph families only); used to decide whether a rejected
	// example is the recorded cut-off finding or something else
	Graph *ref.Graph `json:"graph,omitempty"`
}

func init() {
	run.RegisterReplay(chk, func(t run.TB, raw stdjson.RawMessage) {
		var c Case
		if err := stdjson.Unmarshal(raw, &c); err != nil {
			t.Fatalf("bad case: %v", err)
		}
		check(t, c)
	})
}

func check(t run.TB, c Case) bool {
	s, add := lib.Build(c.Spec)
	cr := lib.Check(s)
	if add.Panic != "" || cr.Panic != "" || !add.OK || !cr.OK {
		return false
	}
	ex, r := lib.Example(s)
	if r.Panic != "" {
		run.Fail(t, chk, c, "Example panicked: %s", r.Panic)
	}
	if !r.OK {
		run.Fail(t, chk, c, "Check accepts the schema but Example fails: %v", r)
	}
	if !stdjson.Valid(ex) || !ref.Valid(ex) {
		run.Fail(t, chk, c, "Example() is not well-formed JSON: %s", ex)
	}
	if v := lib.Validate(s, ex); !v.OK {
		// 205 / 204: a required key is missing (204: inside an alternative list); 608: an array item
		// that minItems requires. The recorded finding is narrower than that: the omitted position
		// refers to types that have already been entered twice on the path from the root (the
		// builder's recursion cut-off), and nothing else is missing.
		// (inside an alternative list the reported code is that of whichever alternative failed last,
		// e.g. 206 for a key the other alternative does not know,
		// so the code is not used)
		cutoff := c.Cyclic && c.Graph != nil
		if cutoff {
			if doc, perr := ref.Parse(ex); perr != nil || !cutoffExplains(c.Graph, doc) {
				cutoff = false
			}
		}
		if cutoff && run.MatchKnown("C15-cutoff-omits-required-property") {
			return true
		}
		// the other recorded finding: the key written for a key shortcut (the example of its type) is
		// the same as another key of the same object, so the example has one key twice
		if doc, perr := ref.Parse(ex); perr == nil && duplicateKey(doc) && hasShortcut(c.Spec) && run.MatchKnown("C15-shortcut-key-example-collides") {
			return true
		}
		run.Fail(t, chk, c, "Example() %s is rejected by its own schema: %v", ex, v)
	}
	if c.Plain != "" && string(ex) != c.Plain {
		run.Fail(t, chk, c, "plain-JSON schema: Example()=%s, the example without annotations and blanks is %s", ex, c.Plain)
	}
	// a second call returns the same bytes
	ex2, _ := lib.Example(s)
	if string(ex2) != string(ex) {
		run.Fail(t, chk, c, "second Example() call returns %s, first returned %s", ex2, ex)
	}
	return true
}

// duplicateKey: some object of the document has two members with the same (decoded) key.
func duplicateKey(v *ref.Value) bool {
	seen := map[string]bool{}
	for _, m := range v.Members {
		if seen[m.Key] || duplicateKey(m.Val) {
			return true
		}
		seen[m.Key] = true
	}
	for _, it := range v.Items {
		if duplicateKey(it) {
			return true
		}
	}
	return false
}

var reShortcutKey = regexp.MustCompile(`(?m)^\s*@[A-Za-z0-9_]+\s*:`)

func hasShortcut(sp lib.Spec) bool {
	if reShortcutKey.MatchString(sp.Schema) {
		return true
	}
	for _, t := range sp.Types {
		if reShortcutKey.MatchString(t.Text) {
			return true
		}
	}
	return false
}

// graphs for this property: optional recursion placed first / middle / last among the properties
func recursionGraph(t *rapid.T) lib.Spec {
	pos := rapid.IntRange(0, 2).Draw(t, "selfPos")
	props := []string{`"x": 1`, `"y": "s"`}
	self := `"t": @r // {optional: true}`
	switch rapid.IntRange(0, 5).Draw(t, "selfForm") {
	case 1:
		self = `"t": [@r]`
	case 2:
		self = `"t": @r | @leaf // {optional: true}`
	case 3: // the recursive element is followed by elements of other kinds
		self = "\"t\": [\n    @r,\n    \"leaf\"\n  ]"
	case 4:
		self = "\"t\": [\n    7,\n    @r,\n    true\n  ]"
	case 5:
		self = "\"t\": [\n    @r,\n    @leaf,\n    @r\n  ] // {optional: true}"
	}
	var lines []string
	for i := 0; i <= 2; i++ {
		if i == pos {
			lines = append(lines, self)
		}
		if i < 2 {
			lines = append(lines, props[i])
		}
	}
	text := "{\n"
	for i, l := range lines {
		// the comma goes before an annotation
		if i < len(lines)-1 {
			if k := indexOf(l, " //"); k >= 0 {
				l = l[:k] + "," + l[k:]
			} else {
				l += ","
			}
		}
		text += "  " + l + "\n"
	}
	text += "}"
	root := rapid.SampledFrom([]string{"@r", "{\n  \"a\": 1,\n  \"b\": @r\n}", "[\n  @r,\n  2\n]", "{\n  \"b\": @r,\n  \"z\": true\n}"}).Draw(t, "root")
	return lib.Spec{Schema: root, Types: []lib.Named{{Name: "@r", Text: text}, {Name: "@leaf", Text: "5"}}}
}

// cutoffExplains walks the example along the type graph and reports whether (a) something
// required is missing and (b) every missing required position names only types that were already
// entered twice on the path to it - the documented cut-off ("a type is not processed more than
// twice") firing below a required position. Anything else missing is not the recorded finding.
func cutoffExplains(g *ref.Graph, doc *ref.Value) bool {
	found, other := 0, 0
	// absorbers: places above the current value that may be left out as a whole - an optional
	// property, an item of an array without minItems, an alternative that is not the last one. Since
	// 8df6aa6 a required property cut off below such a place makes that place go, so a missing
	// required property there is no longer the recorded finding.
	absorbers := 0
	var walk func(n *ref.SNode, v *ref.Value, keysOpt bool, counts map[string]int, depth int)
	// cutName: the builder yields nothing for this name - it has been entered twice already, or it
	// is a pure reference / list all of whose members yield nothing
	var cutName func(nm string, counts map[string]int, depth int) bool
	cutName = func(nm string, counts map[string]int, depth int) bool {
		if counts[nm] >= 2 {
			return true
		}
		t := g.Types[nm]
		if t == nil || t.Kind != ref.SRef || depth > 20 {
			return false
		}
		counts[nm]++
		defer func() { counts[nm]-- }()
		for _, m := range t.Names {
			if !cutName(m, counts, depth+1) {
				return false
			}
		}
		return true
	}
	cut := func(n *ref.SNode, counts map[string]int) bool {
		if n.Kind != ref.SRef {
			return false
		}
		for _, nm := range n.Names {
			if !cutName(nm, counts, 0) {
				return false
			}
		}
		return true
	}
	var props func(n *ref.SNode, keysOpt bool, seen map[string]bool) []struct {
		p   *ref.SProp
		opt bool
	}
	props = func(n *ref.SNode, keysOpt bool, seen map[string]bool) (out []struct {
		p   *ref.SProp
		opt bool
	}) {
		for i := range n.Props {
			out = append(out, struct {
				p   *ref.SProp
				opt bool
			}{&n.Props[i], keysOpt})
		}
		if r := n.Rule("allOf"); r != nil {
			for _, a := range r.AllOf {
				if t := g.Types[a]; t != nil && !seen[a] {
					seen[a] = true
					out = append(out, props(t, false, seen)...)
				}
			}
		}
		return out
	}
	walk = func(n *ref.SNode, v *ref.Value, keysOpt bool, counts map[string]int, depth int) {
		if depth > 60 || v == nil {
			return
		}
		if v.Kind == ref.KNull {
			// null where the schema says so (a null literal, nullable: true): nothing below it;
			// anywhere else it is not what the builder writes for this node
			b, ok := n.BoolRule("nullable")
			switch {
			case ok && b, n.Kind == ref.SLit:
			case n.Kind == ref.SRef:
				// a reference to scalar types may stand for null (a null literal, an enum that lists it);
				// one to containers only does not
				scalar := false
				for _, nm := range n.Names {
					if t := g.Types[nm]; t == nil || t.Kind == ref.SLit || t.Kind == ref.SRef {
						scalar = true
					}
				}
				if !scalar {
					other++
				}
			default:
				other++
			}
			return
		}
		if n.Kind == ref.SRef {
			// the alternative whose root kind fits the value
			for idx, nm := range n.Names {
				t := g.Types[nm]
				if t == nil || (len(n.Names) > 1 && cutName(nm, counts, 0)) {
					continue // the builder takes the first alternative that still yields something
				}
				fits := t.Kind == ref.SRef || (t.Kind == ref.SObj && v.Kind == ref.KObject) || (t.Kind == ref.SArr && v.Kind == ref.KArray) ||
					(t.Kind == ref.SLit && v.Kind != ref.KObject && v.Kind != ref.KArray)
				if fits {
					counts[nm]++
					if idx < len(n.Names)-1 { // (by position: a list may name a type twice)
						// an alternative that is not the last one is a place that may go: what is cut off
						// below it makes the builder give it up and try the next one
						f0, o0 := found, other
						absorbers++
						walk(t, v, false, counts, depth+1)
						absorbers--
						counts[nm]--
						if found != f0 || other != o0 {
							found, other = f0, o0
							continue
						}
						return
					}
					walk(t, v, false, counts, depth+1)
					counts[nm]--
					return
				}
			}
			other++ // no alternative of the list is of the value's kind: not what the builder writes
			return
		}
		switch n.Kind {
		case ref.SLit:
			if v.Kind == ref.KObject || v.Kind == ref.KArray {
				other++
			}
		case ref.SObj:
			if v.Kind != ref.KObject {
				other++
				return
			}
			all := props(n, keysOpt, map[string]bool{})
			for _, pr := range all {
				if pr.p.Shortcut {
					// members that no literal key names belong to the shortcut entry
					for i := range v.Members {
						named := false
						for _, q := range all {
							named = named || (!q.p.Shortcut && q.p.Key == v.Members[i].Key)
						}
						if ok, _ := ref.KeyTypeAccepts(g, pr.p.Key, v.Members[i].Key); !named && ok {
							walk(pr.p.Val, v.Members[i].Val, pr.opt, counts, depth+1)
						}
					}
					continue
				}
				var mv *ref.Value
				for i := range v.Members {
					if v.Members[i].Key == pr.p.Key {
						mv = v.Members[i].Val
					}
				}
				req := !pr.opt
				if b, ok := pr.p.Val.BoolRule("optional"); ok {
					req = !b
				}
				if mv == nil {
					if req {
						if cut(pr.p.Val, counts) && absorbers == 0 {
							found++
						} else {
							other++
						}
					}
					continue
				}
				if !req {
					absorbers++
				}
				walk(pr.p.Val, mv, pr.opt, counts, depth+1)
				if !req {
					absorbers--
				}
			}
		case ref.SArr:
			if v.Kind != ref.KArray {
				other++
				return
			}
			minItems := 0
			if r := n.Rule("minItems"); r != nil {
				minItems, _ = strconv.Atoi(r.Tok)
			}
			if len(v.Items) > len(n.Items) {
				other++ // (the builder writes one item per item of the schema, never more)
			}
			for i, it := range n.Items {
				if i >= len(v.Items) {
					if minItems > len(v.Items) {
						// (since 790bd41 / the repair of round 12 an array that cannot get the items its
						// rule asks for is given up as a whole when a place above it may go)
						if cut(it, counts) && absorbers == 0 {
							found++
						} else {
							other++
						}
					}
					break
				}
				// the items beyond the ones minItems asks for may be left out
				if i >= minItems {
					absorbers++
				}
				walk(it, v.Items[i], keysOpt, counts, depth+1)
				if i >= minItems {
					absorbers--
				}
			}
		}
	}
	walk(g.Root, doc, g.KeysOptional, map[string]int{}, 0)
	if os.Getenv("C15_DEBUG") != "" {
		fmt.Fprintf(os.Stderr, "cutoffExplains: found=%d other=%d\n", found, other)
	}
	return found > 0 && other == 0
}

// hasCycle: some named type reaches itself through references of any form.
func hasCycle(g *ref.Graph) bool {
	state := map[string]int{}
	var dfs func(string) bool
	dfs = func(u string) bool {
		state[u] = 1
		for _, v := range ref.RefNames(g.Types[u]) {
			if g.Types[v] == nil {
				continue
			}
			if state[v] == 1 || (state[v] == 0 && dfs(v)) {
				return true
			}
		}
		state[u] = 2
		return false
	}
	for name := range g.Types {
		if state[name] == 0 && dfs(name) {
			return true
		}
	}
	return false
}

func indexOf(s, sub string) int {
	for i := 0; i+len(sub) <= len(s); i++ {
		if s[i:i+len(sub)] == sub {
			return i
		}
	}
	return -1
}

func TestExample(t *testing.T) {
	run.SkipIfReplaying(t)
	defer run.Done(t, chk)
	rapid.Check(t, func(t *rapid.T) {
		var c Case
		feature := false
		fam := rapid.IntRange(0, 12).Draw(t, "family")
		if fam > 9 {
			fam = 5 // (reference topologies yield a case in one of four draws only: they are drawn more often)
		}
		switch fam {
		case 8: // a key shortcut whose string type refers to other types: the key written has to be one they accept
			sText := rapid.SampledFrom([]string{`"abc"`, `"abc" // {minLength: 2}`, `@s2`, `"abc" // {regex: "^a"}`, `@s2 | @s3`}).Draw(t, "s")
			kText := rapid.SampledFrom([]string{`"xyz" // {type: "@s"}`, `"xyz" // {or: ["@s", "@s2"]}`, `@s`, `"xyz" // {or: [{type: "string", minLength: 5}, "@s"]}`,
				`"xyz" // {or: ["@s2", {type: "string", regex: "^x"}]}`, `@s | @s2`}).Draw(t, "k")
			s2 := rapid.SampledFrom([]string{`"def"`, `"de" // {enum: ["de", "fg"]}`, `"defg" // {maxLength: 4}`}).Draw(t, "s2")
			root := rapid.SampledFrom([]string{"{\n  @k: 1\n}", "{\n  @k: 1, // {optional: true}\n  \"id\": 2\n}", "[\n  {\n    @k: [1]\n  }\n]", "{\n  \"m\": {\n    @k: @s\n  }\n}"}).Draw(t, "root")
			c = Case{Spec: lib.Spec{Schema: root, Types: []lib.Named{{Name: "@k", Text: kText}, {Name: "@s", Text: sText}, {Name: "@s2", Text: s2}, {Name: "@s3", Text: `"ghi"`}}}}
			feature = true
			run.Label("family:key-type-refers-to-types")
		case 9: // arrays whose rule does not reach the item that is left out at the recursion cut-off
			node := rapid.SampledFrom([]string{"{\n  \"v\": 1,\n  \"next\": @node // {nullable: true}\n}", "{\n  \"v\": 1,\n  \"next\": @node // {optional: true}\n}",
				"{\n  \"v\": 1,\n  \"kids\": [@node]\n}", "{\n  \"v\": 1,\n  \"kids\": [ // {minItems: 0}\n    @node\n  ]\n}"}).Draw(t, "node")
			root := rapid.SampledFrom([]string{"[ // {minItems: 0}\n  @node\n]", "[ // {minItems: 1}\n  1,\n  @node\n]", "{\n  \"items\": [ // {minItems: 0, maxItems: 10}\n    @node\n  ]\n}",
				"[ // {maxItems: 5}\n  @node\n]", "[ // {minItems: 2}\n  1,\n  2,\n  @node\n]", "{\n  \"a\": [ // {minItems: 1}\n    \"s\",\n    @node\n  ],\n  \"b\": @node // {optional: true}\n}"}).Draw(t, "root")
			c = Case{Spec: lib.Spec{Schema: root, Types: []lib.Named{{Name: "@node", Text: node}}}}
			feature = true
			run.Label("family:array-rule-beside-the-cut-off")
		case 6: // types the root knows only through other types (they were added to a type, not to the root)
			id := lib.Named{Name: "@id", Text: rapid.SampledFrom([]string{"1 // {min: 1}", "\"abc\" // {minLength: 2}", "\"kab\" // {regex: \"^k\"}"}).Draw(t, "innerId")}
			base := lib.Named{Name: "@base", Text: "{\n  \"created\": \"2021-01-01\", // {type: \"date\"}\n  \"by\": @id // {optional: true}\n}", Inner: []lib.Named{id}}
			pet := lib.Named{Name: "@pet", Text: "{\n  \"id\": @id,\n  \"tags\": [@id]\n}", Inner: []lib.Named{id}}
			root := "{\n  \"pet\": @pet\n}"
			switch rapid.IntRange(0, 3).Draw(t, "innerShape") {
			case 1: // two levels
				owner := lib.Named{Name: "@owner", Text: "{\n  \"pets\": [@pet],\n  @id: 1 // {optional: true}\n}", Inner: []lib.Named{pet, id}}
				c = Case{Spec: lib.Spec{Schema: "[@owner]", Types: []lib.Named{owner}}}
			case 2: // through an allOf parent
				pet.Text = "{ // {allOf: \"@base\"}\n  \"id\": @id\n}"
				pet.Inner = []lib.Named{id, base}
				c = Case{Spec: lib.Spec{Schema: root, Types: []lib.Named{pet}}}
			case 3: // the root inherits from a type that brings its own types
				c = Case{Spec: lib.Spec{Schema: "{ // {allOf: \"@base\"}\n  \"n\": 1\n}", Types: []lib.Named{base}}}
			default:
				c = Case{Spec: lib.Spec{Schema: root, Types: []lib.Named{pet}}}
			}
			if rapid.Bool().Draw(t, "innerLate") {
				// the inner types are added after their host has been added to the root
				for i := range c.Spec.Types {
					c.Spec.Types[i].InnerLate = true
				}
			}
			feature = true
			run.Label("family:types-known-through-types")
		case 7: // many expansions of user types in one example: wide objects, sheets, families of types
			var b strings.Builder
			types := []lib.Named{{Name: "@id", Text: "1 // {min: 0}"}, {Name: "@cell", Text: "{\n  \"v\": @id,\n  \"note\": \"n\" // {optional: true}\n}"}}
			switch rapid.IntRange(0, 3).Draw(t, "manyShape") {
			case 3: // many references to a type whose array has to hold items (minItems) that are no literals
				n := rapid.IntRange(95, 160).Draw(t, "nLists")
				min := rapid.IntRange(1, 2).Draw(t, "minItems")
				types = append(types, lib.Named{Name: "@list", Text: fmt.Sprintf("{\n  \"xs\": [ // {minItems: %d}\n    @cell,\n    {\"w\": @id}\n  ]\n}", min)})
				b.WriteString("{\n")
				for i := 0; i < n; i++ {
					fmt.Fprintf(&b, "  \"p%03d\": @list", i)
					if i < n-1 {
						b.WriteString(",")
					}
					b.WriteString("\n")
				}
				b.WriteString("}")
			case 0: // a flat object with n references, the last ones required like the first
				n := rapid.IntRange(900, 1500).Draw(t, "nRefs")
				b.WriteString("{\n")
				for i := 0; i < n; i++ {
					fmt.Fprintf(&b, "  \"p%d\": @id", i)
					if i < n-1 {
						b.WriteString(",")
					}
					b.WriteString("\n")
				}
				b.WriteString("}")
			case 1: // a sheet: rows of cells
				rows, cols := rapid.IntRange(20, 45).Draw(t, "rows"), rapid.IntRange(20, 35).Draw(t, "cols")
				b.WriteString("[\n")
				for r := 0; r < rows; r++ {
					b.WriteString("  [")
					for k := 0; k < cols; k++ {
						if k > 0 {
							b.WriteString(", ")
						}
						b.WriteString("@cell")
					}
					b.WriteString("]")
					if r < rows-1 {
						b.WriteString(",")
					}
					b.WriteString("\n")
				}
				b.WriteString("]")
			default: // a family of mutually (optionally) recursive types, each ending in a required reference
				k := rapid.IntRange(3, 4).Draw(t, "familySize")
				for i := 0; i < k; i++ {
					var tb strings.Builder
					tb.WriteString("{\n")
					for j := 0; j < k; j++ {
						fmt.Fprintf(&tb, "  \"f%d\": @f%d, // {optional: true}\n", j, j)
					}
					tb.WriteString("  \"id\": @id\n}")
					types = append(types, lib.Named{Name: fmt.Sprintf("@f%d", i), Text: tb.String()})
				}
				b.WriteString("@f0")
			}
			c = Case{Spec: lib.Spec{Schema: b.String(), Types: types}}
			feature = true
			run.Label("family:many-type-expansions")
		case 5: // reference topologies: cycles through optional properties, arrays and alternatives
			gc := gen.GenRefGraph(t, "rg")
			if len(gc.G.Missing()) > 0 {
				return
			}
			if rapid.Bool().Draw(t, "wideRoot") {
				// a root that uses the same few types at several required positions (what one position
				// leaves behind in the builder is seen by the next)
				root := &ref.SNode{Kind: ref.SObj}
				for k, n := 0, rapid.IntRange(3, 6).Draw(t, "wideN"); k < n; k++ {
					key := fmt.Sprintf("w%d", k)
					root.Props = append(root.Props, ref.SProp{Key: key, KeyTok: `"` + key + `"`,
						Val: &ref.SNode{Kind: ref.SRef, Names: []string{rapid.SampledFrom(gc.Order).Draw(t, "wideT")}}})
				}
				gc.G.Root = root
			}
			types, root := gc.G.Inhabited()
			all := root
			for name := range gc.G.Types {
				all = all && types[name]
			}
			if !all {
				return // only graphs in which every type has a finite inhabitant
			}
			hasShortcut := false
			for _, ty := range gc.G.Types {
				ty.Walk(func(n *ref.SNode) {
					for _, p := range n.Props {
						if p.Shortcut {
							hasShortcut = true
						}
					}
				})
			}
			if hasShortcut {
				return // the key types of this generator overlap; shortcuts are covered by the type-graph family
			}
			pg := gc.Print(nil)
			sp := lib.Spec{Schema: pg.Schema}
			for _, ty := range pg.Types {
				sp.Types = append(sp.Types, lib.Named{Name: ty.Name, Text: ty.Text})
			}
			c = Case{Spec: sp, Cyclic: true, Graph: gc.G}
			feature = true
			run.Label("family:reference-topology")
		case 0:
			m := gen.RuledTree(t, rapid.IntRange(1, 3).Draw(t, "depth"), false, "m")
			ex, _ := gen.ExampleJSON(m)
			c = Case{Spec: lib.Spec{Schema: string(gen.PrintSchema(m, nil))}, Plain: string(ex)}
			m.Walk(func(n *ref.SNode) {
				if n.Rule("enum") != nil {
					feature = true
				}
				for _, p := range n.Props {
					if p.KeyTok != `"`+p.Key+`"` {
						feature = true
					}
				}
			})
			run.Label("family:ruled-tree")
		case 1:
			m := gen.ShapeSchema(t, gen.ShapeOpts{Depth: 3, Width: 4}, "m")
			if m.Kind == ref.SObj && rapid.IntRange(0, 5).Draw(t, "big") == 0 {
				// one container whose example is several KiB long, somewhere among the others (buffers
				// that grew are handled differently from fresh ones by pools and builders)
				big := &ref.SNode{Kind: ref.SArr}
				unit := strings.Repeat("x", rapid.SampledFrom([]int{10, 100, 600}).Draw(t, "bigUnit"))
				for total := rapid.SampledFrom([]int{600, 3000, 5000, 9000, 40000}).Draw(t, "bigTotal"); total > 0; total -= len(unit) + 3 {
					big.Items = append(big.Items, &ref.SNode{Kind: ref.SLit, Lit: ref.KString, Tok: `"` + unit + `"`, Str: unit})
				}
				pos := rapid.IntRange(0, len(m.Props)).Draw(t, "bigPos")
				np := append([]ref.SProp{}, m.Props[:pos]...)
				np = append(np, ref.SProp{Key: "big", KeyTok: `"big"`, Val: big})
				m.Props = append(np, m.Props[pos:]...)
				feature = true
				run.Label("shape:with-a-large-container")
			}
			ex, _ := gen.ExampleJSON(m)
			c = Case{Spec: lib.Spec{Schema: string(gen.PrintSchema(m, nil))}, Plain: string(ex)}
			m.Walk(func(n *ref.SNode) {
				for _, p := range n.Props {
					if p.KeyTok != `"`+p.Key+`"` || p.Key == "" {
						feature = true
					}
				}
			})
			run.Label("family:shape")
		case 2:
			c = Case{Spec: recursionGraph(t)}
			feature = true
			run.Label("family:recursion-cutoff")
		default:
			gc := gen.GenGraph(t, gen.GraphOpts{MaxTypes: 5, Recursion: true, MixedRule: true}, "g")
			pg := gc.Print(nil)
			sp := lib.Spec{Schema: pg.Schema, KeysOptional: gc.G.KeysOptional}
			for _, ty := range pg.Types {
				sp.Types = append(sp.Types, lib.Named{Name: ty.Name, Text: ty.Text})
			}
			c = Case{Spec: sp, Cyclic: hasCycle(gc.G), Graph: gc.G}
			feature = true
			run.Label("family:type-graph")
		}
		ok := check(t, c)
		run.Eval(chk, ok && feature, fmt.Sprint(c.Spec))
		if ok {
			run.Label("check-accepted")
			if feature {
				run.Sample(chk, c)
			}
		} else {
			run.Label("check-rejected(discarded)")
		}
	})
}

// Type objects shared between two roots that define one referenced type differently: each
// root's example is built against that root's own registry, whatever the other root did before.
type SharedCase struct {
	Spec     lib.Spec `json:"spec"`          // root 1
	Replaced string   `json:"replaced_type"` // the one type root 2 defines differently
	NewText  string   `json:"its_text_in_root_2"`
}

const chkShared = "example-with-shared-type-objects"

func init() {
	run.RegisterReplay(chkShared, func(t run.TB, raw stdjson.RawMessage) {
		var c SharedCase
		if err := stdjson.Unmarshal(raw, &c); err != nil {
			t.Fatalf("bad case: %v", err)
		}
		checkShared(t, c)
	})
}

func checkShared(t run.TB, c SharedCase) bool {
	var oo []js.Option
	if c.Spec.KeysOptional {
		oo = append(oo, js.KeysAreOptionalByDefault())
	}
	build := func(objs map[string]*js.Schema, second bool) (*js.Schema, lib.Res) {
		r := js.New("root", c.Spec.Schema, oo...)
		first := lib.Res{OK: true}
		for _, ty := range c.Spec.Types {
			var o *js.Schema
			switch {
			case second && ty.Name == c.Replaced:
				o = js.New(ty.Name, c.NewText)
			case objs != nil:
				o = objs[ty.Name]
			default:
				o = js.New(ty.Name, ty.Text)
			}
			if a := lib.Safe(func() error { return r.AddType(ty.Name, o) }); !a.OK && first.OK {
				first = a
			}
		}
		return r, first
	}
	// reference: root 2 from fresh objects
	f2, a := build(nil, true)
	if !a.OK || !lib.Check(f2).OK {
		return false
	}
	want, wr := lib.Example(f2)
	if !wr.OK {
		return false // judged by the main check
	}
	objs := map[string]*js.Schema{}
	for _, ty := range c.Spec.Types {
		objs[ty.Name] = js.New(ty.Name, ty.Text)
	}
	r1, a1 := build(objs, false)
	if a1.Panic != "" {
		run.Fail(t, chkShared, c, "AddType panicked: %v", a1)
	}
	if a1.OK && lib.Check(r1).OK {
		if _, r := lib.Example(r1); r.Panic != "" {
			run.Fail(t, chkShared, c, "root 1: Example panicked: %s", r.Panic)
		}
	}
	r2, a2 := build(objs, true)
	cr := lib.Check(r2)
	if !a2.OK || !cr.OK {
		run.Fail(t, chkShared, c, "root 2 built from fresh objects passes Check; with type objects shared with root 1: add=%v check=%v", a2, cr)
	}
	got, gr := lib.Example(r2)
	if gr.Panic != "" || !gr.OK {
		run.Fail(t, chkShared, c, "root 2: Example fails with shared type objects: %v", gr)
	}
	if string(got) != string(want) {
		run.Fail(t, chkShared, c, "root 2: Example()=%s after root 1 (sharing type objects) built its example; a root built from fresh objects gives %s", got, want)
	}
	return true
}

func TestExampleSharedTypes(t *testing.T) {
	run.SkipIfReplaying(t)
	defer run.Done(t, chkShared)
	rapid.Check(t, func(t *rapid.T) {
		gc := gen.GenGraph(t, gen.GraphOpts{MaxTypes: 5, Recursion: true, MixedRule: true}, "g")
		pg := gc.Print(nil)
		sp := lib.Spec{Schema: pg.Schema, KeysOptional: gc.G.KeysOptional}
		var scalars []string
		for _, ty := range pg.Types {
			sp.Types = append(sp.Types, lib.Named{Name: ty.Name, Text: ty.Text})
			if n := gc.G.Types[ty.Name]; n != nil && n.Kind == ref.SLit && !strings.HasPrefix(ty.Name, "@k") {
				scalars = append(scalars, ty.Name)
			}
		}
		if len(scalars) == 0 {
			return
		}
		c := SharedCase{Spec: sp, Replaced: rapid.SampledFrom(scalars).Draw(t, "replaced"),
			NewText: rapid.SampledFrom([]string{`"other"`, "12345", "false", "null", `"x" // {minLength: 1}`, "0.25", `{"z": 1}`, `[7]`}).Draw(t, "newText")}
		ok := checkShared(t, c)
		run.Eval(chkShared, ok, fmt.Sprint(c.Spec), c.Replaced, c.NewText)
		if ok {
			run.Label("shared:judged")
			run.Sample(chkShared, c)
		} else {
			run.Label("shared:root-2-not-accepted(discarded)")
		}
	})
}

func TestReplay(t *testing.T) { run.TestReplay(t) }
