package c15

import (
	stdjson "encoding/json"
	"fmt"
	"testing"

	"pgregory.net/rapid"

	"verif/gen"
	"verif/lib"
	"verif/ref"
	"verif/run"
)

func TestMain(m *testing.M) { gen.Avoided = run.Avoided; run.Main(m, "C15") }

const chk = "example"

type Case struct {
	Spec  lib.Spec `json:"spec"`
	Plain string   `json:"expected_plain_json,omitempty"` // set when the schema's example is plain JSON
	// Cyclic: the type graph has a reference cycle (the recursion cut-off of the example builder can fire)
	Cyclic bool `json:"type_graph_has_a_cycle,omitempty"`
}

func init() {
	run.RegisterReplay(chk, func(t run.TB, raw stdjson.RawMessage) {
		var c Case
		if err := stdjson.Unmarshal(raw, &c); err != nil {
			t.Fatalf("bad case: %v", err)
		}
		check(t, c)
	})
}

func check(t run.TB, c Case) bool {
	s, add := lib.Build(c.Spec)
	cr := lib.Check(s)
	if add.Panic != "" || cr.Panic != "" || !add.OK || !cr.OK {
		return false
	}
	ex, r := lib.Example(s)
	if r.Panic != "" {
		run.Fail(t, chk, c, "Example panicked: %s", r.Panic)
	}
	if !r.OK {
		run.Fail(t, chk, c, "Check accepts the schema but Example fails: %v", r)
	}
	if !stdjson.Valid(ex) || !ref.Valid(ex) {
		run.Fail(t, chk, c, "Example() is not well-formed JSON: %s", ex)
	}
	if v := lib.Validate(s, ex); !v.OK {
		if (v.Code == 205 || v.Code == 204) && c.Cyclic && run.MatchKnown("C15-cutoff-omits-required-property") {
			// 204: the missing required key sits inside an alternative list
			return true
		}
		run.Fail(t, chk, c, "Example() %s is rejected by its own schema: %v", ex, v)
	}
	if c.Plain != "" && string(ex) != c.Plain {
		run.Fail(t, chk, c, "plain-JSON schema: Example()=%s, the example without annotations and blanks is %s", ex, c.Plain)
	}
	// a second call returns the same bytes
	ex2, _ := lib.Example(s)
	if string(ex2) != string(ex) {
		run.Fail(t, chk, c, "second Example() call returns %s, first returned %s", ex2, ex)
	}
	return true
}

// graphs for this property: optional recursion placed first / middle / last among the properties
func recursionGraph(t *rapid.T) lib.Spec {
	pos := rapid.IntRange(0, 2).Draw(t, "selfPos")
	props := []string{`"x": 1`, `"y": "s"`}
	self := `"t": @r // {optional: true}`
	switch rapid.IntRange(0, 5).Draw(t, "selfForm") {
	case 1:
		self = `"t": [@r]`
	case 2:
		self = `"t": @r | @leaf // {optional: true}`
	case 3: // the recursive element is followed by elements of other kinds
		self = "\"t\": [\n    @r,\n    \"leaf\"\n  ]"
	case 4:
		self = "\"t\": [\n    7,\n    @r,\n    true\n  ]"
	case 5:
		self = "\"t\": [\n    @r,\n    @leaf,\n    @r\n  ] // {optional: true}"
	}
	var lines []string
	for i := 0; i <= 2; i++ {
		if i == pos {
			lines = append(lines, self)
		}
		if i < 2 {
			lines = append(lines, props[i])
		}
	}
	text := "{\n"
	for i, l := range lines {
		// the comma goes before an annotation
		if i < len(lines)-1 {
			if k := indexOf(l, " //"); k >= 0 {
				l = l[:k] + "," + l[k:]
			} else {
				l += ","
			}
		}
		text += "  " + l + "\n"
	}
	text += "}"
	root := rapid.SampledFrom([]string{"@r", "{\n  \"a\": 1,\n  \"b\": @r\n}", "[\n  @r,\n  2\n]", "{\n  \"b\": @r,\n  \"z\": true\n}"}).Draw(t, "root")
	return lib.Spec{Schema: root, Types: []lib.Named{{Name: "@r", Text: text}, {Name: "@leaf", Text: "5"}}}
}

func indexOf(s, sub string) int {
	for i := 0; i+len(sub) <= len(s); i++ {
		if s[i:i+len(sub)] == sub {
			return i
		}
	}
	return -1
}

func TestExample(t *testing.T) {
	run.SkipIfReplaying(t)
	defer run.Done(t, chk)
	rapid.Check(t, func(t *rapid.T) {
		var c Case
		feature := false
		switch rapid.IntRange(0, 5).Draw(t, "family") {
		case 5: // reference topologies: cycles through optional properties, arrays and alternatives
			gc := gen.GenRefGraph(t, "rg")
			if len(gc.G.Missing()) > 0 {
				return
			}
			types, root := gc.G.Inhabited()
			all := root
			for name := range gc.G.Types {
				all = all && types[name]
			}
			if !all {
				return // only graphs in which every type has a finite inhabitant
			}
			hasShortcut := false
			for _, ty := range gc.G.Types {
				ty.Walk(func(n *ref.SNode) {
					for _, p := range n.Props {
						if p.Shortcut {
							hasShortcut = true
						}
					}
				})
			}
			if hasShortcut {
				return // the key types of this generator overlap; shortcuts are covered by the type-graph family
			}
			pg := gc.Print(nil)
			sp := lib.Spec{Schema: pg.Schema}
			for _, ty := range pg.Types {
				sp.Types = append(sp.Types, lib.Named{Name: ty.Name, Text: ty.Text})
			}
			c = Case{Spec: sp, Cyclic: true}
			feature = true
			run.Label("family:reference-topology")
		case 0:
			m := gen.RuledTree(t, rapid.IntRange(1, 3).Draw(t, "depth"), false, "m")
			ex, _ := gen.ExampleJSON(m)
			c = Case{Spec: lib.Spec{Schema: string(gen.PrintSchema(m, nil))}, Plain: string(ex)}
			m.Walk(func(n *ref.SNode) {
				if n.Rule("enum") != nil {
					feature = true
				}
				for _, p := range n.Props {
					if p.KeyTok != `"`+p.Key+`"` {
						feature = true
					}
				}
			})
			run.Label("family:ruled-tree")
		case 1:
			m := gen.ShapeSchema(t, gen.ShapeOpts{Depth: 3, Width: 4}, "m")
			ex, _ := gen.ExampleJSON(m)
			c = Case{Spec: lib.Spec{Schema: string(gen.PrintSchema(m, nil))}, Plain: string(ex)}
			m.Walk(func(n *ref.SNode) {
				for _, p := range n.Props {
					if p.KeyTok != `"`+p.Key+`"` || p.Key == "" {
						feature = true
					}
				}
			})
			run.Label("family:shape")
		case 2:
			c = Case{Spec: recursionGraph(t)}
			feature = true
			run.Label("family:recursion-cutoff")
		default:
			gc := gen.GenGraph(t, gen.GraphOpts{MaxTypes: 5, Recursion: true}, "g")
			pg := gc.Print(nil)
			sp := lib.Spec{Schema: pg.Schema, KeysOptional: gc.G.KeysOptional}
			for _, ty := range pg.Types {
				sp.Types = append(sp.Types, lib.Named{Name: ty.Name, Text: ty.Text})
			}
			c = Case{Spec: sp}
			feature = true
			run.Label("family:type-graph")
		}
		ok := check(t, c)
		run.Eval(chk, ok && feature, fmt.Sprint(c.Spec))
		if ok {
			run.Label("check-accepted")
			if feature {
				run.Sample(chk, c)
			}
		} else {
			run.Label("check-rejected(discarded)")
		}
	})
}

func TestReplay(t *testing.T) { run.TestReplay(t) }
