package c13

import (
	"encoding/json"
	"fmt"
	"sort"
	"strings"
	"testing"

	"pgregory.net/rapid"

	"verif/gen"
	"verif/lib"
	"verif/ref"
	"verif/run"
)

func TestMain(m *testing.M) { gen.Avoided = run.Avoided; gen.LoneSurrogates = true; run.Main(m, "C13") }

const (
	chkSchema = "schema-respelling"
	chkDoc    = "document-respelling"
)

type SchemaCase struct {
	A       lib.Spec `json:"canonical"`
	B       lib.Spec `json:"respelled"`
	Rewrite []string `json:"rewrites"`
	Docs    []string `json:"docs"`
	Permute bool     `json:"rules_permuted"`
}

type DocCase struct {
	Spec lib.Spec `json:"spec"`
	A    string   `json:"doc"`
	B    string   `json:"respelled_doc"`
}

func init() {
	run.RegisterReplay(chkSchema, func(t run.TB, raw json.RawMessage) {
		var c SchemaCase
		if err := json.Unmarshal(raw, &c); err != nil {
			t.Fatalf("bad case: %v", err)
		}
		checkSchema(t, c)
	})
	run.RegisterReplay(chkDoc, func(t run.TB, raw json.RawMessage) {
		var c DocCase
		if err := json.Unmarshal(raw, &c); err != nil {
			t.Fatalf("bad case: %v", err)
		}
		checkDoc(t, c)
	})
}

// normalise blanks comments and, when rules were permuted, sorts rules by name.
func normalise(x ref.XNode, sortRules bool) ref.XNode {
	x.Comment = ""
	var norm func(rs []ref.XRule, named bool) []ref.XRule
	norm = func(rs []ref.XRule, named bool) []ref.XRule {
		out := append([]ref.XRule(nil), rs...)
		for i := range out {
			out[i].Comment = ""
			out[i].Props = norm(out[i].Props, true)
			out[i].Items = norm(out[i].Items, false)
		}
		if sortRules && named {
			sort.SliceStable(out, func(i, j int) bool { return out[i].Name < out[j].Name })
		}
		return out
	}
	x.Rules = norm(x.Rules, true)
	for i := range x.Children {
		x.Children[i] = normalise(x.Children[i], sortRules)
	}
	return x
}

func checkSchema(t run.TB, c SchemaCase) (accepted bool) {
	sa, addA := lib.Build(c.A)
	sb, addB := lib.Build(c.B)
	ca, cb := lib.Check(sa), lib.Check(sb)
	if addA.Panic != "" || addB.Panic != "" || ca.Panic != "" || cb.Panic != "" {
		return false // totality is C07's concern
	}
	okA, okB := addA.OK && ca.OK, addB.OK && cb.OK
	if okA != okB {
		run.Fail(t, chkSchema, c, "Check verdict differs between two spellings of the same schema: canonical=%v/%v respelled=%v/%v (rewrites %v)", addA, ca, addB, cb, c.Rewrite)
	}
	if !okA {
		return false
	}
	na, ra := lib.AST(sa)
	nb, rb := lib.AST(sb)
	if !ra.OK || !rb.OK {
		run.Fail(t, chkSchema, c, "GetAST fails on an accepted schema: %v %v", ra, rb)
	}
	xa, xb := normalise(lib.ProjectAST(na), c.Permute), normalise(lib.ProjectAST(nb), c.Permute)
	if d := ref.DiffAST(xb, xa, "root"); d != "" {
		run.Fail(t, chkSchema, c, "AST (comments aside) differs between spellings (rewrites %v): %s", c.Rewrite, d)
	}
	for _, d := range c.Docs {
		va, vb := lib.Validate(sa, []byte(d)), lib.Validate(sb, []byte(d))
		if va.OK != vb.OK {
			run.Fail(t, chkSchema, c, "document %s: canonical spelling says %v, respelled schema says %v (rewrites %v)", d, va, vb, c.Rewrite)
		}
	}
	return true
}

func checkDoc(t run.TB, c DocCase) {
	s, add := lib.Build(c.Spec)
	if cr := lib.Check(s); !add.OK || !cr.OK {
		return
	}
	va, vb := lib.Validate(s, []byte(c.A)), lib.Validate(s, []byte(c.B))
	if va.Panic != "" || vb.Panic != "" {
		return
	}
	if va.OK != vb.OK {
		run.Fail(t, chkDoc, c, "two spellings of the same JSON value: %s -> %v, %s -> %v", c.A, va, c.B, vb)
	}
}

// respell draws a style with 1-5 meaning-preserving rewrites relative to the canonical style.
func respell(t *rapid.T) (*gen.Style, []string, bool) {
	st := gen.DefaultStyle()
	var names []string
	permute := false
	all := []string{"newline", "indent", "comments", "multiline", "spread", "quote-names", "trailing-comma", "blank-lines", "rule-order", "space-before-colon", "empty-annotations", "mixed-annotations", "enum-item-notes", "note-on-next-line", "join-lines", "notes", "stray-notes", "blank-in-empty", "prop-after-array", "name-gap", "block-in-rules", "colon-gap", "tight-annotations", "split-annotations", "tight-comments", "value-on-next-line", "key-comments", "close-late", "block-over-lines", "empty-open", "block-before-rules", "empty-after-annotation", "item-note-extras"}
	n := rapid.IntRange(1, 5).Draw(t, "nrewrites")
	for _, r := range rapid.Permutation(all).Draw(t, "rewrites")[:n] {
		names = append(names, r)
		switch r {
		case "newline":
			st.NL = rapid.SampledFrom([]string{"\r\n", "\r"}).Draw(t, "nl")
		case "indent":
			st.Indent = rapid.SampledFrom([]string{"", " ", "\t", "      "}).Draw(t, "indent")
		case "comments":
			st.Comments = rapid.IntRange(1, 4).Draw(t, "comments")
		case "multiline":
			st.MultiLine = true
		case "spread":
			st.MultiLine, st.SpreadRules = true, true
		case "quote-names":
			st.QuoteNames = true
		case "trailing-comma":
			st.TrailingComma = true
		case "blank-lines":
			st.BlankLines = true
		case "space-before-colon":
			st.SpaceBeforeColon = true
		case "mixed-annotations":
			st.MixedAnn = rapid.IntRange(1, 2).Draw(t, "mixedAnn") // inline and multi-line annotations side by side
		case "enum-item-notes":
			st.AutoItemNotes = true // notes on enum items (only possible inside multi-line annotations)
			if !st.MultiLine && st.MixedAnn == 0 {
				st.MixedAnn = rapid.IntRange(1, 2).Draw(t, "mixedAnnForNotes")
			}
		case "notes":
			st.AutoNotes = rapid.IntRange(1, 3).Draw(t, "autoNotes") // annotation notes the canonical spelling does not have
			if st.Comments == 0 && rapid.Bool().Draw(t, "notesWithComments") {
				st.Comments = rapid.IntRange(3, 4).Draw(t, "notesCommentLevel") // a '#' comment after a note on the same line
			}
		case "join-lines":
			st.JoinLines = true // several properties per line, one-line containers (no effect together with comments)
		case "note-on-next-line":
			st.NoteNextLine = true
		case "blank-in-empty":
			st.BlankInEmpty = rapid.IntRange(1, 2).Draw(t, "blankInEmpty") // [ ] and { } for empty containers
		case "prop-after-array":
			st.PropAfterArray = true // "], "b": ..." instead of a line break after an array value
		case "colon-gap":
			st.ColonGap = rapid.IntRange(1, 3).Draw(t, "colonGap") // tab, line break or blanks between a key and its colon
		case "split-annotations":
			st.SplitAnn = rapid.IntRange(1, 2).Draw(t, "splitAnn") // two annotations on one value, the first closing on a later line
		case "value-on-next-line":
			st.ValueNextLine = rapid.IntRange(1, 2).Draw(t, "valueNextLine") // (multi-line annotations only) a line break between a rule name and its value
			if !st.MultiLine && st.MixedAnn == 0 {
				st.MultiLine = true
			}
		case "tight-comments":
			st.TightComments = true // user comments glued to the value before them
			if st.Comments < 3 {
				st.Comments = rapid.IntRange(3, 4).Draw(t, "tightCommentLevel")
			}
		case "key-comments":
			st.KeyComments = rapid.IntRange(1, 3).Draw(t, "keyComments") // user comments between a key and its colon, between the colon and the value
		case "close-late":
			st.CloseLate = rapid.IntRange(1, 2).Draw(t, "closeLate") // a multi-line annotation closes on the next line, the sibling starts there
			if !st.MultiLine && st.MixedAnn == 0 {
				st.MultiLine = true
			}
		case "block-over-lines":
			st.BlockOverLines = rapid.IntRange(1, 2).Draw(t, "blockOverLines") // a ### block comment from the line of one sibling to the line where the next one starts
		case "empty-open":
			st.EmptyOpen = rapid.IntRange(1, 2).Draw(t, "emptyOpen") // the annotation of an empty container behind its opening bracket, a note behind the closing one
		case "block-before-rules":
			st.BlockBeforeRules = rapid.IntRange(1, 2).Draw(t, "blockBeforeRules") // ### c ### between the slashes of an inline annotation and its rule object
		case "empty-after-annotation":
			st.EmptyAfterAnn = rapid.IntRange(1, 2).Draw(t, "emptyAfterAnn") // a second, empty annotation behind a multi-line one
			if !st.MultiLine && st.MixedAnn == 0 {
				st.MultiLine = true
			}
		case "item-note-extras":
			st.ItemNoteExtras = rapid.IntRange(1, 2).Draw(t, "itemNoteExtras") // nobody's notes (also two in a row) between the items of an enum list
			st.AutoItemNotes = true
			if !st.MultiLine && st.MixedAnn == 0 {
				st.MultiLine = true
			}
		case "tight-annotations":
			st.TightAnn = true // the annotation starts right after the value
		case "name-gap":
			st.NameGap = rapid.IntRange(1, 2).Draw(t, "nameGap") // blanks (also tabs) between a rule name and its colon
		case "block-in-rules":
			st.BlockInRules = rapid.IntRange(1, 3).Draw(t, "blockInRules") // ### c ### between the tokens of a rule object
		case "stray-notes":
			st.StrayNotes = rapid.IntRange(1, 3).Draw(t, "strayNotes") // notes on lines where no value starts
		case "empty-annotations":
			st.EmptyAnn = rapid.IntRange(1, 3).Draw(t, "emptyAnn") // bare "//" after values without rules
		case "rule-order":
			permute = true
			seed := rapid.IntRange(0, 1000).Draw(t, "permSeed")
			st.RuleOrder = func(k int) []int {
				// deterministic rotation + reversal driven by the drawn number
				idx := make([]int, k)
				for i := range idx {
					idx[i] = (i + seed) % k
				}
				if seed%2 == 1 {
					for i, j := 0, k-1; i < j; i, j = i+1, j-1 {
						idx[i], idx[j] = idx[j], idx[i]
					}
				}
				return idx
			}
		}
	}
	if st.JoinLines {
		// joining lines only works where nothing else is written at the ends of lines
		st.Comments, st.EmptyAnn, st.AutoNotes, st.StrayNotes = 0, 0, 0, 0
	}
	sort.Strings(names)
	return st, names, permute
}

func specOf(pg gen.PrintedGraph, keysOpt bool) lib.Spec {
	sp := lib.Spec{Schema: pg.Schema, KeysOptional: keysOpt}
	for _, ty := range pg.Types {
		sp.Types = append(sp.Types, lib.Named{Name: ty.Name, Text: ty.Text})
	}
	return sp
}

func hasAnnotation(m *ref.SNode) bool {
	f := false
	m.Walk(func(n *ref.SNode) {
		if len(n.Rules) > 0 || n.Note != "" {
			f = true
		}
	})
	return f
}

func TestSchemaRespelling(t *testing.T) {
	run.SkipIfReplaying(t)
	defer run.Done(t, chkSchema)
	rapid.Check(t, func(t *rapid.T) {
		st, names, permute := respell(t)
		var c SchemaCase
		var model *ref.SNode
		var docs []*ref.Value
		fam := rapid.IntRange(0, 3).Draw(t, "family")
		sparse := false
		if st.JoinLines && rapid.Bool().Draw(t, "sparseForJoin") {
			fam, sparse = 2, true // shapes with few annotations, so that lines can be shared
		}
		switch fam {
		case 0, 1:
			model = gen.RuledTree(t, rapid.IntRange(1, 3).Draw(t, "depth"), false, "m")
			if fam == 1 && rapid.Bool().Draw(t, "corrupt") {
				// schemas that Check rejects must be rejected in every spelling too
				if bad, _, ok := gen.Corrupt(t, model, "cor"); ok {
					model = bad
				}
			}
			a := string(gen.PrintSchema(model, nil))
			b := string(gen.PrintSchema(model, st))
			c = SchemaCase{A: lib.Spec{Schema: a}, B: lib.Spec{Schema: b}}
			if ex, ok := gen.ExampleJSON(model); ok {
				if v, err := ref.Parse(ex); err == nil {
					docs = append(docs, v)
					for i := 0; i < 6; i++ {
						m, _ := gen.Mutate(t, v, []string{"a", "b", "c"}, "mut")
						docs = append(docs, m)
					}
				}
			}
		case 2:
			model = gen.ShapeSchema(t, gen.ShapeOpts{Depth: 3, Width: 3, Sparse: sparse}, "m")
			c = SchemaCase{A: lib.Spec{Schema: string(gen.PrintSchema(model, nil))}, B: lib.Spec{Schema: string(gen.PrintSchema(model, st))}}
			for i := 0; i < 6; i++ {
				d := gen.ShapeInstance(t, model, false, "inst")
				if i%2 == 1 {
					d, _ = gen.Mutate(t, d, gen.KeyPoolC01, "mut")
				}
				docs = append(docs, d)
			}
		default:
			gc := gen.GenGraph(t, gen.GraphOpts{MaxTypes: 4, Recursion: true}, "g")
			model = gc.G.Root
			c = SchemaCase{A: specOf(gc.Print(nil), gc.G.KeysOptional), B: specOf(gc.Print(st), gc.G.KeysOptional)}
			for i := 0; i < 6; i++ {
				d := gc.Instance(t, gc.G.Root, gc.G.KeysOptional, 3, "inst")
				if i%2 == 1 {
					d, _ = gen.Mutate(t, d, []string{"a", "b", "kab"}, "mut")
				}
				docs = append(docs, d)
			}
		}
		for _, d := range docs {
			c.Docs = append(c.Docs, string(gen.Print(d, nil)))
		}
		c.Rewrite, c.Permute = names, permute
		run.LabelN("lines-shared-by-two-properties", gen.Joins)
		run.LabelN("one-line-array-then-container-on-the-same-line", gen.JoinsArrayThenContainer)
		gen.Joins, gen.JoinsArrayThenContainer = 0, 0
		accepted := checkSchema(t, c)
		nt := len(names) >= 2 && hasAnnotation(model)
		run.Eval(chkSchema, nt, fmt.Sprint(c.A), fmt.Sprint(c.B))
		for _, n := range names {
			run.Label("rewrite:" + n)
		}
		if accepted {
			run.Label("schema-accepted")
		} else {
			run.Label("schema-rejected-in-both-spellings")
		}
		if nt {
			run.Sample(chkSchema, map[string]any{"canonical": c.A.Schema, "respelled": c.B.Schema, "rewrites": strings.Join(names, ","), "accepted": accepted})
		}
	})
}

// Texts with notes in places where they are (mostly) not taken - on the line after an annotated
// line: whatever Check says about such a text, it says the same when only line ends, indentation
// and blank lines change.
func TestMisplacedNotesAcrossLayouts(t *testing.T) {
	run.SkipIfReplaying(t)
	defer run.Done(t, chkSchema)
	rapid.Check(t, func(t *rapid.T) {
		model := gen.RuledTree(t, rapid.IntRange(1, 3).Draw(t, "depth"), false, "m")
		base := func() *gen.Style {
			st := gen.DefaultStyle()
			st.StrayNotes, st.StrayAnywhere = 1, true
			st.AutoNotes = 1 // every value has a note, so every stray note follows an annotated line
			return st
		}
		a, b := base(), base()
		var names []string
		if rapid.Bool().Draw(t, "nl") {
			b.NL = rapid.SampledFrom([]string{"\r\n", "\r"}).Draw(t, "newline")
			names = append(names, "newline")
		}
		if rapid.Bool().Draw(t, "ind") {
			b.Indent = rapid.SampledFrom([]string{"", " ", "\t", "    "}).Draw(t, "indent")
			names = append(names, "indent")
		}
		if rapid.Bool().Draw(t, "bl") {
			b.BlankLines = true
			names = append(names, "blank-lines")
		}
		if len(names) == 0 {
			b.NL, names = "\r\n", []string{"newline"}
		}
		c := SchemaCase{A: lib.Spec{Schema: string(gen.PrintSchema(model, a))}, B: lib.Spec{Schema: string(gen.PrintSchema(model, b))}, Rewrite: append(names, "misplaced-notes-in-both")}
		if ex, ok := gen.ExampleJSON(model); ok {
			c.Docs = append(c.Docs, string(ex))
		}
		accepted := checkSchema(t, c)
		run.Eval(chkSchema, true, c.A.Schema, c.B.Schema)
		if accepted {
			run.Label("misplaced-notes:accepted-in-both")
		} else {
			run.Label("misplaced-notes:rejected-in-both")
		}
	})
}

func TestDocumentRespelling(t *testing.T) {
	run.SkipIfReplaying(t)
	defer run.Done(t, chkDoc)
	rapid.Check(t, func(t *rapid.T) {
		var sp lib.Spec
		var doc *ref.Value
		if fam := rapid.IntRange(0, 3).Draw(t, "family"); fam == 3 {
			// two key shortcuts whose key types overlap: every key goes to the first entry (in the
			// order of the schema) whose type accepts it - whatever the order of the document
			opt := rapid.SampledFrom([]string{"", " // {optional: true}"}).Draw(t, "shortcutOpt")
			sp = lib.Spec{Schema: "{\n  @word: \"s\"," + opt + "\n  @code: 1" + opt + "\n}", Types: []lib.Named{
				{Name: "@word", Text: "\"abc\" // {regex: \"^[a-z]+$\"}"}, {Name: "@code", Text: "\"a1\" // {regex: \"^[a-z0-9]+$\"}"}}}
			if rapid.Bool().Draw(t, "swapEntries") {
				sp.Schema = "{\n  @code: 1," + opt + "\n  @word: \"s\"" + opt + "\n}"
			}
			doc = &ref.Value{Kind: ref.KObject}
			for _, k := range rapid.Permutation([]string{"abc", "zz", "a1", "x9", "q", "7"}).Draw(t, "keys")[:rapid.IntRange(1, 5).Draw(t, "nkeys")] {
				v := &ref.Value{Kind: ref.KNumber, Tok: "2"}
				if rapid.Bool().Draw(t, "strVal") {
					v = &ref.Value{Kind: ref.KString, Tok: `"v"`, Str: "v"}
				}
				doc.Members = append(doc.Members, ref.Member{KeyTok: gen.Quote(k), Key: k, Val: v})
			}
			run.Label("schema:overlapping-key-shortcuts")
		} else if fam == 2 {
			// a type graph: user types, alternatives, key shortcuts (their keys are strings to re-spell too)
			gc := gen.GenGraph(t, gen.GraphOpts{MaxTypes: 4, Recursion: true}, "g")
			sp = specOf(gc.Print(nil), gc.G.KeysOptional)
			doc = gc.Instance(t, gc.G.Root, gc.G.KeysOptional, 3, "inst")
			run.Label("schema:type-graph")
		} else if fam == 1 {
			m := gen.ShapeSchema(t, gen.ShapeOpts{Depth: 3, Width: 3}, "m")
			sp = lib.Spec{Schema: string(gen.PrintSchema(m, nil))}
			doc = gen.ShapeInstance(t, m, false, "inst")
		} else {
			m := gen.RuledTree(t, 2, false, "m")
			sp = lib.Spec{Schema: string(gen.PrintSchema(m, nil))}
			if ex, ok := gen.ExampleJSON(m); ok {
				doc, _ = ref.Parse(ex)
			}
		}
		if doc == nil {
			return
		}
		if rapid.Bool().Draw(t, "mutate") {
			doc, _ = gen.Mutate(t, doc, append([]string{"kab", "plain/key/x"}, gen.KeyPoolC01...), "mut")
		}
		a := gen.Print(doc, nil)
		// respell: blanks, property order, escape spelling of every string and key
		b := gen.Clone(doc)
		var rec func(v *ref.Value)
		escapes := 0
		rec = func(v *ref.Value) {
			if v.Kind == ref.KString {
				nt := gen.Respell(t, v.Str, "rs")
				if nt != v.Tok {
					escapes++
				}
				v.Tok = nt
			}
			for i := range v.Members {
				v.Members[i].KeyTok = gen.Respell(t, v.Members[i].Key, "rk")
				rec(v.Members[i].Val)
			}
			for _, it := range v.Items {
				rec(it)
			}
			if len(v.Members) > 1 && !hasDupKeys(v) && rapid.Bool().Draw(t, "shuffle") {
				v.Members = rapid.Permutation(v.Members).Draw(t, "perm")
			}
		}
		rec(b)
		bt := gen.Print(b, gen.RapidBlanks(t, "ws"))
		c := DocCase{Spec: sp, A: string(a), B: string(bt)}
		checkDoc(t, c)
		run.Eval(chkDoc, escapes > 0 || len(bt) != len(a), sp.Schema, string(a), string(bt))
		run.Sample(chkDoc, c)
	})
}

// Scalar rule sets with their boundary probes (one character inside / outside a length bound,
// regex near-misses, enum and const neighbours): every string probe in two escape spellings.
func TestProbeRespelling(t *testing.T) {
	run.SkipIfReplaying(t)
	defer run.Done(t, chkDoc)
	rapid.Check(t, func(t *rapid.T) {
		sn, probes := gen.ScalarCase(t, "sc")
		if sn.Lit != ref.KString && sn.Rule("enum") == nil {
			return
		}
		root := sn
		wrap := rapid.IntRange(0, 2).Draw(t, "wrap")
		switch wrap {
		case 1:
			root = &ref.SNode{Kind: ref.SObj, Props: []ref.SProp{{Key: "k", KeyTok: `"k"`, Val: sn}}}
		case 2:
			root = &ref.SNode{Kind: ref.SArr, Items: []*ref.SNode{sn}}
		}
		sp := lib.Spec{Schema: string(gen.PrintSchema(root, nil))}
		n := 0
		for _, p := range probes {
			if p.Val.Kind != ref.KString || n >= 8 {
				continue
			}
			n++
			mk := func(tok string) string {
				switch wrap {
				case 1:
					return `{"k":` + tok + `}`
				case 2:
					return "[" + tok + "]"
				}
				return tok
			}
			a := mk(gen.Quote(p.Val.Str))
			b := mk(gen.Respell(t, p.Val.Str, "rs"))
			c := DocCase{Spec: sp, A: a, B: b}
			checkDoc(t, c)
			run.Eval(chkDoc, a != b, sp.Schema, a, b)
			run.Label("probe:" + p.Label)
		}
	})
}

func hasDupKeys(v *ref.Value) bool {
	seen := map[string]bool{}
	for _, m := range v.Members {
		if seen[m.Key] {
			return true
		}
		seen[m.Key] = true
	}
	return false
}

func TestReplay(t *testing.T) { run.TestReplay(t) }
