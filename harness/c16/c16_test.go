package c16

import (
	"encoding/json"
	"fmt"
	"testing"

	"pgregory.net/rapid"

	"verif/gen"
	"verif/lib"
	"verif/ref"
	"verif/run"
)

func TestMain(m *testing.M) { gen.Avoided = run.Avoided; run.Main(m, "C16") }

const chk = "ast-mirrors-text"

type Case struct {
	Spec  lib.Spec   `json:"spec"`
	Model *ref.SNode `json:"model"`
}

func init() {
	run.RegisterReplay(chk, func(t run.TB, raw json.RawMessage) {
		var c Case
		if err := json.Unmarshal(raw, &c); err != nil {
			t.Fatalf("bad case: %v", err)
		}
		check(t, c)
	})
}

// check returns false when Check rejects the schema (outside the domain).
func check(t run.TB, c Case) bool {
	s, add := lib.Build(c.Spec)
	cr := lib.Check(s)
	if add.Panic != "" || cr.Panic != "" {
		return false // C07's concern
	}
	if !add.OK || !cr.OK {
		run.Note("rejected (discarded): %v %v <<%s>> types %v", add, cr, c.Spec.Schema, c.Spec.Types)
		return false
	}
	n, r := lib.AST(s)
	if r.Panic != "" || !r.OK {
		run.Fail(t, chk, c, "GetAST failed on a schema Check accepts: %v", r)
	}
	got := lib.ProjectAST(n)
	want := ref.AST(c.Model)
	if d := ref.DiffAST(got, want, "root"); d != "" {
		run.Fail(t, chk, c, "%s", d)
	}
	return true
}

func nontrivial(m *ref.SNode) bool {
	feat := false
	m.Walk(func(n *ref.SNode) {
		cnt := 0
		for _, r := range n.Rules {
			cnt++
			if r.Name == "enum" || r.Name == "or" || r.Name == "allOf" {
				feat = true
			}
		}
		if cnt >= 2 || n.Kind == ref.SRef || n.Note != "" {
			feat = true
		}
		for _, p := range n.Props {
			if p.Shortcut {
				feat = true
			}
		}
	})
	return feat && m.CountNodes() >= 3
}

// addAP gives some objects an additionalProperties rule in one of its spellings: the AST shows
// the value with the kind of token it is written with ("false" in quotes is a string, null a null).
func addAP(t *rapid.T, m *ref.SNode) {
	m.Walk(func(n *ref.SNode) {
		if n.Kind != ref.SObj || n.Rule("additionalProperties") != nil || n.Rule("allOf") != nil || n.Rule("or") != nil || n.TypeName() != "" {
			return
		}
		if rapid.IntRange(0, 3).Draw(t, "ap") == 0 {
			tok := rapid.SampledFrom([]string{`"false"`, `"true"`, "null", `"any"`, "true", "false", `"string"`, `"null"`}).Draw(t, "apTok")
			r := gen.TokRule("additionalProperties", tok)
			if rapid.Bool().Draw(t, "apFirst") {
				n.Rules = append([]ref.SRule{r}, n.Rules...)
			} else {
				n.Rules = append(n.Rules, r)
			}
		}
	})
}

func addNotes(t *rapid.T, m *ref.SNode, st *gen.Style) {
	texts := []string{"note", "some text 1", "x - y", "a {b} c", "ünï",
		// white space that is not a blank of the schema language belongs to the note text
		"\u00a0price in EUR\u00a0", "\u3000wide", "tail\u2003"}
	if st.MultiLine {
		// inside /* */ a '#' is note text, not a user comment
		texts = append(texts, "the # of items", "see #42 (c# backlog)", "# leading")
	}
	m.Walk(func(n *ref.SNode) {
		if rapid.IntRange(0, 4).Draw(t, "note") == 0 {
			n.Note = rapid.SampledFrom(texts).Draw(t, "noteText")
		}
		if n.Kind == ref.SLit && n.Lit == ref.KNull && len(n.Rules) == 0 && rapid.IntRange(0, 1).Draw(t, "typeNull") == 0 {
			// the type rule written with the bare literal (the schema language takes it): the rule comes
			// back with the kind of token it was written with
			n.Rules = append(n.Rules, gen.TokRule("type", "null"))
		}
		if !st.MultiLine {
			return
		}
		// inline notes on the items of an enum written inside a multi-line annotation
		var noteItems func(rules []ref.SRule)
		noteItems = func(rules []ref.SRule) {
			for i := range rules {
				r := &rules[i]
				if r.Name == "or" && r.ValKind == ref.RVOr {
					// the enum of a rule set inside an or rule takes item notes just the same
					for k := range r.Or {
						if len(r.Or[k].Rules) > 0 {
							rs := append([]ref.SRule(nil), r.Or[k].Rules...)
							noteItems(rs)
							r.Or[k].Rules = rs
						}
					}
					continue
				}
				if r.Name != "enum" || r.ValKind != ref.RVEnum || rapid.IntRange(0, 2).Draw(t, "itemNotes") != 0 {
					continue
				}
				items := append([]ref.EnumItem(nil), r.Enum...)
				for k := range items {
					if rapid.IntRange(0, 2).Draw(t, "itemNote") > 0 {
						items[k].Comment = rapid.SampledFrom([]string{"plain note", "tag #c-sharp", "see ticket #42", "a - b", "ünï", "x // y"}).Draw(t, "itemNoteText")
					}
				}
				r.Enum = items
			}
		}
		noteItems(n.Rules)
	})
}

func style(t *rapid.T) *gen.Style {
	st := gen.DefaultStyle()
	st.MultiLine = rapid.IntRange(0, 3).Draw(t, "multi") == 0
	st.QuoteNames = rapid.IntRange(0, 3).Draw(t, "quote") == 0
	st.TrailingComma = rapid.IntRange(0, 3).Draw(t, "tcomma") == 0
	st.NL = rapid.SampledFrom([]string{"\n", "\n", "\r\n", "\r"}).Draw(t, "nl")
	st.Comments = rapid.SampledFrom([]int{0, 0, 1, 2, 3, 4}).Draw(t, "comments")
	st.EmptyAnn = rapid.SampledFrom([]int{0, 0, 1, 2, 3}).Draw(t, "emptyAnn")
	st.NoteNextLine = rapid.IntRange(0, 2).Draw(t, "noteNextLine") == 0
	st.JoinLines = rapid.IntRange(0, 2).Draw(t, "joinLines") == 0 // effective when comments and empty annotations are off
	st.BlankInEmpty = rapid.SampledFrom([]int{0, 0, 1, 2}).Draw(t, "blankInEmpty")
	st.PropAfterArray = rapid.IntRange(0, 3).Draw(t, "propAfterArray") == 0
	st.ColonGap = rapid.SampledFrom([]int{0, 0, 0, 1, 2, 3}).Draw(t, "colonGap")
	st.TightAnn = rapid.IntRange(0, 4).Draw(t, "tightAnn") == 0
	st.SplitAnn = rapid.SampledFrom([]int{0, 0, 0, 1, 2}).Draw(t, "splitAnn")
	st.StrayNotes = rapid.SampledFrom([]int{0, 0, 1, 2, 3}).Draw(t, "strayNotes")
	st.BlockInRules = rapid.SampledFrom([]int{0, 0, 0, 1, 2, 3}).Draw(t, "blockInRules") // ### c ### between the tokens of inline rule objects and behind them
	st.KeyComments = rapid.SampledFrom([]int{0, 0, 0, 1, 2, 3}).Draw(t, "keyComments")
	st.ItemNoteExtras = rapid.SampledFrom([]int{0, 0, 1, 2}).Draw(t, "itemNoteExtras") // blanks after enum item notes, notes on lines between the items
	st.EmptyAfterAnn = rapid.SampledFrom([]int{0, 0, 1, 2}).Draw(t, "emptyAfterAnn")       // a second annotation without text behind a multi-line one: the note of the first one stays
	st.BlockOverLines = rapid.SampledFrom([]int{0, 0, 1, 2}).Draw(t, "blockOverLines")     // ### comments that run from the line of one sibling to the line of the next
	st.BlockBeforeRules = rapid.SampledFrom([]int{0, 0, 1, 2}).Draw(t, "blockBeforeRules") // ### c ### between the slashes and the rule object
	if st.JoinLines {
		st.Comments, st.EmptyAnn, st.StrayNotes = 0, 0, 0 // joining lines only works where nothing else is written at the ends of lines
	}
	if !st.MultiLine {
		st.MixedAnn = rapid.SampledFrom([]int{0, 0, 1, 2}).Draw(t, "mixedAnn") // inline and multi-line side by side
	}
	return st
}

func TestAST(t *testing.T) {
	run.SkipIfReplaying(t)
	defer run.Done(t, chk)
	rapid.Check(t, func(t *rapid.T) {
		var c Case
		st := style(t)
		switch rapid.IntRange(0, 2).Draw(t, "family") {
		case 0: // ruled plain-JSON trees
			m := gen.RuledTree(t, rapid.IntRange(1, 3).Draw(t, "depth"), false, "m")
			addNotes(t, m, st)
			addAP(t, m)
			c = Case{Spec: lib.Spec{Schema: string(gen.PrintSchema(m, st))}, Model: m}
			run.Label("family:ruled-tree")
		case 1: // rule-free shapes
			m := gen.ShapeSchema(t, gen.ShapeOpts{Depth: 3, Width: 3}, "m")
			addNotes(t, m, st)
			addAP(t, m)
			c = Case{Spec: lib.Spec{Schema: string(gen.PrintSchema(m, st))}, Model: m}
			run.Label("family:shape")
		default: // type graphs: references, or, allOf, key shortcuts
			gc := gen.GenGraph(t, gen.GraphOpts{MaxTypes: 4, Recursion: true}, "g")
			addNotes(t, gc.G.Root, st)
			pg := gc.Print(st)
			sp := lib.Spec{Schema: pg.Schema, KeysOptional: gc.G.KeysOptional}
			for _, ty := range pg.Types {
				sp.Types = append(sp.Types, lib.Named{Name: ty.Name, Text: ty.Text})
			}
			c = Case{Spec: sp, Model: gc.G.Root}
			run.Label("family:type-graph")
		}
		ok := check(t, c)
		nt := ok && nontrivial(c.Model)
		run.Eval(chk, nt, fmt.Sprint(c.Spec))
		if ok {
			run.Label("check-accepted")
			if nt {
				run.Sample(chk, map[string]any{"schema": c.Spec.Schema, "nodes": c.Model.CountNodes()})
			}
		} else {
			run.Label("check-rejected(discarded)")
		}
	})
}

// Notes on lines that several values share: a note belongs to the value that stands right before
// it on its line (rules may not be written there at all; notes may).
const chkShared = "notes-on-shared-lines"

type SharedLineCase struct {
	Schema string   `json:"schema"`
	Notes  []string `json:"expected_notes_of_the_children_in_order"`
	Root   string   `json:"expected_note_of_the_root"`
}

func init() {
	run.RegisterReplay(chkShared, func(t run.TB, raw json.RawMessage) {
		var c SharedLineCase
		if err := json.Unmarshal(raw, &c); err != nil {
			t.Fatalf("bad case: %v", err)
		}
		checkSharedLine(t, c)
	})
}

func checkSharedLine(t run.TB, c SharedLineCase) {
	s, _ := lib.Build(lib.Spec{Schema: c.Schema})
	n, r := lib.AST(s)
	if r.Panic != "" {
		run.Fail(t, chkShared, c, "GetAST panicked: %s", r.Panic)
	}
	if !r.OK {
		run.Fail(t, chkShared, c, "GetAST rejects a schema whose only annotations are notes: %v", r)
	}
	if n.Comment != c.Root {
		run.Fail(t, chkShared, c, "the root carries the note %q, written: %q", n.Comment, c.Root)
	}
	if len(n.Children) != len(c.Notes) {
		run.Fail(t, chkShared, c, "the tree has %d children, the text %d values", len(n.Children), len(c.Notes))
	}
	for i, ch := range n.Children {
		if ch.Comment != c.Notes[i] {
			run.Fail(t, chkShared, c, "child %d (%s %s) carries the note %q, the note written after it on its line is %q", i, ch.Key, ch.Value, ch.Comment, c.Notes[i])
		}
	}
}

func TestNotesOnSharedLines(t *testing.T) {
	run.SkipIfReplaying(t)
	defer run.Done(t, chkShared)
	rapid.Check(t, func(t *rapid.T) {
		nl := rapid.SampledFrom([]string{"\n", "\r\n", "\r"}).Draw(t, "nl")
		note := func(l string) string {
			return rapid.SampledFrom([]string{"first", "the id", "x - y", "a {b}", "second one"}).Draw(t, l)
		}
		n1, n2 := note("n1"), note("n2")
		var c SharedLineCase
		switch rapid.SampledFrom([]int{0, 1, 2, 3, 4, 6}).Draw(t, "layout") {
		case 0: // the first property on the line of the opening brace
			c = SharedLineCase{Schema: "{\"id\": 1, // " + n1 + nl + "  \"b\": 2 // " + n2 + nl + "}", Notes: []string{n1, n2}}
		case 1: // the first item on the line of the opening bracket
			c = SharedLineCase{Schema: "[1, // " + n1 + nl + "  2" + nl + "]", Notes: []string{n1, ""}}
		case 2: // two items on a line: the note is the second one's
			c = SharedLineCase{Schema: "[" + nl + "  1, 2 // " + n1 + nl + "]", Notes: []string{"", n1}}
		case 3: // block notes between the items of one line
			c = SharedLineCase{Schema: "[1 /* " + n1 + " */, 2 /* " + n2 + " */]", Notes: []string{n1, n2}}
		case 4: // two properties on a line
			c = SharedLineCase{Schema: "{" + nl + "  \"a\": 1, \"b\": 2 // " + n1 + nl + "}", Notes: []string{"", n1}}
		default: // three items, block notes on the first and the last
			c = SharedLineCase{Schema: "[" + nl + "  1 /* " + n1 + " */, true, \"s\" // " + n2 + nl + "]", Notes: []string{n1, "", n2}}
		}
		checkSharedLine(t, c)
		run.Eval(chkShared, true, c.Schema)
		run.Sample(chkShared, c)
	})
}

func TestReplay(t *testing.T) { run.TestReplay(t) }
