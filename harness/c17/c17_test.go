package c17

import (
	"bytes"
	"encoding/json"
	"fmt"
	"strings"
	"testing"

	"pgregory.net/rapid"

	libbytes "github.com/jsightapi/jsight-schema-go-library/bytes"
	liberrors "github.com/jsightapi/jsight-schema-go-library/errors"
	libjson "github.com/jsightapi/jsight-schema-go-library/formats/json"
	"github.com/jsightapi/jsight-schema-go-library/fs"
	js "github.com/jsightapi/jsight-schema-go-library/notations/jschema"
	"github.com/jsightapi/jsight-schema-go-library/rules/enum"

	"verif/gen"
	"verif/lib"
	"verif/ref"
	"verif/run"
)

func TestMain(m *testing.M) { gen.Avoided = run.Avoided; run.Main(m, "C17") }

const (
	chkRender = "render"
	chkParse  = "parse-position"
	chkValid  = "validation-position"
)

type RenderCase struct {
	Content string `json:"content"`
	Pos     int    `json:"pos"`
	// Earlier: positions the same error value pointed at (and was rendered for) before it was
	// moved to Pos with SetIndex
	Earlier []int `json:"earlier_positions,omitempty"`
	// EarlierFile: the file the error value belonged to (and was rendered for, at the Earlier
	// positions) before SetFile handed it Content
	EarlierFile string `json:"earlier_file,omitempty"`
	// Message: the text of the error ("msg" when empty); it is shown as it is, whatever it contains
	Message string `json:"message,omitempty"`
}

type ParseCase struct {
	Input string `json:"input"`
	// Scanner: "" the JSON document scanner, "schema" the schema scanner, "enum" the enum-rule scanner
	// (both on texts of their plain-JSON sublanguage: no exponents, no comments, no shortcuts)
	Scanner string `json:"scanner,omitempty"`
}

type ValidCase struct {
	Schema string      `json:"schema"`
	Types  [][2]string `json:"types,omitempty"`
	Doc    string      `json:"doc"`
	Class  string      `json:"violation"`
	Pos    int         `json:"expected_position"`
}

func init() {
	run.RegisterReplay(chkRender, func(t run.TB, raw json.RawMessage) {
		var c RenderCase
		json.Unmarshal(raw, &c)
		checkRender(t, c)
	})
	run.RegisterReplay(chkParse, func(t run.TB, raw json.RawMessage) {
		var c ParseCase
		json.Unmarshal(raw, &c)
		checkParse(t, c)
	})
	run.RegisterReplay(chkValid, func(t run.TB, raw json.RawMessage) {
		var c ValidCase
		json.Unmarshal(raw, &c)
		checkValid(t, c)
	})
}

// ---------------------------------------------------------------------------------------
// (b) rendering

func render(content []byte, pos int, msg, earlierFile string, earlier ...int) (line uint, text, errText string, p any) {
	defer func() {
		if r := recover(); r != nil {
			p = r
		}
	}()
	if msg == "" {
		msg = "msg"
	}
	e := liberrors.NewDocumentError(fs.NewFile("file", content), liberrors.Format(liberrors.ErrGeneric, msg))
	if earlierFile != "" {
		e = liberrors.NewDocumentError(fs.NewFile("earlier", []byte(earlierFile)), liberrors.Format(liberrors.ErrGeneric, msg))
	}
	for _, q := range earlier {
		func() {
			defer func() { _ = recover() }() // judged as its own case
			e.SetIndex(libbytes.Index(q))
			_ = e.Line()
			_ = e.SourceSubString()
			_ = e.Error()
		}()
	}
	if earlierFile != "" {
		e.SetFile(fs.NewFile("file", content))
	}
	e.SetIndex(libbytes.Index(pos))
	line = e.Line()
	text = e.SourceSubString()
	errText = e.Error()
	return
}

// nonASCIIBefore: some byte of the line before the position (or the byte at it) is no ASCII byte.
func nonASCIIBefore(b []byte, lineStart, pos int) bool {
	for i := lineStart; i <= pos && i < len(b); i++ {
		if b[i] >= 0x80 {
			return true
		}
	}
	return false
}

func checkRender(t run.TB, c RenderCase) (judged bool) {
	b := []byte(c.Content)
	line, text, errText, p := render(b, c.Pos, c.Message, c.EarlierFile, c.Earlier...)
	if p != nil {
		run.Fail(t, chkRender, c, "rendering panicked: %v", p)
	}
	if string(b) != c.Content {
		// the file content is the caller's (and the library's only copy of the text): showing an
		// error must not write into it
		run.Fail(t, chkRender, c, "rendering the error changed the content of the file: %q -> %q", c.Content, b)
	}
	w := ref.Render(b, c.Pos)
	if w.Mixed {
		run.Excluded("unspecified:mixed-newline-conventions")
		return false
	}
	if int(line) != w.Line {
		run.Fail(t, chkRender, c, "Line()=%d, the position is on line %d", line, w.Line)
	}
	if w.TextDefined {
		want := w.Text
		if len(want) > 200 || len(text) > 200 {
			// truncated at 200 bytes: a prefix of the left-trimmed line followed by "..." (a line that
			// is longer than 200 bytes only with its leading blanks is shown in full: "left-trimmed,
			// truncated" - the blanks go first)
			if !strings.HasSuffix(text, "...") || !strings.HasPrefix(want, strings.TrimSuffix(text, "...")) || len(text) > 203 {
				run.Fail(t, chkRender, c, "long line: SourceSubString()=%q (%d bytes) is not a <=200-byte prefix of the line plus \"...\"", text, len(text))
			}
		} else if text != want {
			run.Fail(t, chkRender, c, "SourceSubString()=%q, the left-trimmed line is %q", text, want)
		}
	}
	if m := c.Message; m != "" && !strings.Contains(errText, m) {
		run.Fail(t, chkRender, c, "Error() does not show the message %q as it is: %q", m, errText)
	}
	// caret line: last line of Error() is "\t--<dashes>^"
	lines := strings.Split(errText, "\n")
	last := lines[len(lines)-1]
	if !strings.HasPrefix(last, "\t--") || !strings.HasSuffix(last, "^") {
		run.Fail(t, chkRender, c, "Error() has no caret line: %q", errText)
	}
	if !strings.Contains(errText, fmt.Sprintf("in line %d on file file", w.Line)) {
		run.Fail(t, chkRender, c, "Error() does not show line %d: %q", w.Line, errText)
	}
	if w.CaretOK && nonASCIIBefore(b, w.LineStart, c.Pos) {
		// columns of a line with characters of several bytes: the statement does not say whether a
		// column is a byte or a character (the 200-byte limit speaks of bytes, a caret of what one sees)
		run.Excluded("unspecified:caret-column-behind-non-ascii-text")
	} else if w.CaretOK {
		dashes := len(last) - len("\t--") - 1
		if dashes != w.Caret {
			run.Fail(t, chkRender, c, "caret is under column %d of the shown line, the offending byte is at column %d", dashes, w.Caret)
		}
	} else if c.Pos >= w.LineStart && c.Pos < w.LineEnd && !strings.HasSuffix(text, "...") && !nonASCIIBefore(b, w.LineStart, c.Pos) {
		// outside the zone the statement fixes (an all-blank line is shown as it is): whatever part
		// of the line is shown, the caret must stand under the offending byte of the shown text
		raw := string(b[w.LineStart:w.LineEnd])
		if strings.HasSuffix(raw, text) {
			col := (c.Pos - w.LineStart) - (len(raw) - len(text))
			dashes := len(last) - len("\t--") - 1
			if col >= 0 && dashes != col {
				run.Fail(t, chkRender, c, "the shown text is %q and the caret is under its column %d; the offending byte is its column %d", text, dashes, col)
			}
		}
	}
	return true
}

func TestRenderExhaustive(t *testing.T) {
	run.SkipIfReplaying(t)
	defer run.Done(t, chkRender)
	alphabet := []byte{'a', ' ', '\t', '\n', '\r'}
	maxLen := run.Scale(6, 7)
	shard, shards := run.Shard(), run.Shards()
	var n int64
	var rec func(buf []byte)
	rec = func(buf []byte) {
		if len(buf) > 0 {
			for pos := 0; pos < len(buf); pos++ {
				c := RenderCase{Content: string(buf), Pos: pos}
				j := checkRender(t, c)
				nt := j && (strings.ContainsAny(c.Content, "\n\r") || c.Content[0] == ' ' || c.Content[0] == '\t')
				run.Eval(chkRender, nt, c.Content, fmt.Sprint(pos))
				n++
				if n%40009 == 0 {
					run.Sample(chkRender, c)
				}
			}
		}
		if len(buf) == maxLen {
			return
		}
		for i, ch := range alphabet {
			if len(buf) == 0 && i%shards != shard%len(alphabet) && shards > 1 && false {
				continue
			}
			rec(append(append([]byte(nil), buf...), ch))
		}
	}
	if shard == 0 {
		rec(nil)
	}
	run.LabelN("exhaustive-(file,position)-pairs", n)
	run.Exhaustive(chkRender, fmt.Sprintf("every file content of 1..%d bytes over {a, space, tab, LF, CR} x every position inside it", maxLen))
}

func TestRenderRandom(t *testing.T) {
	run.SkipIfReplaying(t)
	defer run.Done(t, chkRender)
	rapid.Check(t, func(t *rapid.T) {
		nl := rapid.SampledFrom([]string{"\n", "\r\n", "\r"}).Draw(t, "nl")
		nlines := rapid.IntRange(1, 8).Draw(t, "lines")
		var sb strings.Builder
		for i := 0; i < nlines; i++ {
			lead := strings.Repeat(rapid.SampledFrom([]string{" ", "\t", ""}).Draw(t, "lead"), rapid.IntRange(0, 6).Draw(t, "nlead"))
			if rapid.IntRange(0, 7).Draw(t, "deepIndent") == 0 {
				// indentation that alone (nearly) fills the 200 bytes a shown line may have
				lead = strings.Repeat(rapid.SampledFrom([]string{" ", "\t"}).Draw(t, "deepLead"), rapid.IntRange(150, 260).Draw(t, "ndeep"))
			}
			sb.WriteString(lead)
			l := rapid.IntRange(0, 30).Draw(t, "len")
			chars := []string{"a", "b", " ", "{", "\"", "é", "€", "x", "\t"}
			if rapid.IntRange(0, 5).Draw(t, "long") == 0 {
				l = rapid.IntRange(190, 420).Draw(t, "longLen")
				if rapid.Bool().Draw(t, "atLimit") {
					// raw line lengths around the 200-byte limit, byte-exact (single-byte characters)
					l = rapid.IntRange(197, 204).Draw(t, "limitLen") - len(lead)
					chars = []string{"a", "b", "x", "{"}
				}
			}
			for k := 0; k < l; k++ {
				sb.WriteString(rapid.SampledFrom(chars).Draw(t, "ch"))
			}
			if i < nlines-1 || rapid.Bool().Draw(t, "finalNL") {
				sb.WriteString(nl)
			}
		}
		content := sb.String()
		if content == "" {
			return
		}
		pos := rapid.IntRange(0, len(content)-1).Draw(t, "pos")
		c := RenderCase{Content: content, Pos: pos}
		if rapid.IntRange(0, 3).Draw(t, "oddMessage") == 0 {
			// messages quote input: a key "100%", a byte '%', a URI with %zz ...
			c.Message = rapid.SampledFrom([]string{"Invalid character \"%\"", "key \"100%\" not found", "%d %s %v", "50%% off", "http://a/%zz", "%!s(MISSING)", "%"}).Draw(t, "message")
		}
		j := checkRender(t, c)
		run.Eval(chkRender, j && nlines >= 2, content, fmt.Sprint(pos))
		run.Label("random-file:" + map[string]string{"\n": "LF", "\r\n": "CRLF", "\r": "CR"}[nl])
		// the same error value pointed elsewhere first, rendered, then moved with SetIndex
		c2 := c
		for i, n := 0, rapid.IntRange(1, 2).Draw(t, "nearlier"); i < n; i++ {
			c2.Earlier = append(c2.Earlier, rapid.IntRange(0, len(content)-1).Draw(t, "earlier"))
		}
		checkRender(t, c2)
		run.Eval(chkRender, false)
		run.Label("re-pointed-error-value")
		// the same error value belonged to another file first (longer or shorter, with line ends of
		// its own), was rendered there, then got this file with SetFile
		c3 := c
		onl := rapid.SampledFrom([]string{"\n", "\r\n", "\r"}).Draw(t, "earlierNL")
		var eb strings.Builder
		for i, n := 0, rapid.IntRange(1, 6).Draw(t, "earlierLines"); i < n; i++ {
			eb.WriteString(strings.Repeat("x", rapid.IntRange(0, 40).Draw(t, "earlierLen")))
			eb.WriteString(onl)
		}
		c3.EarlierFile = eb.String()
		for i, n := 0, rapid.IntRange(1, 2).Draw(t, "nearlier3"); i < n; i++ {
			c3.Earlier = append(c3.Earlier, rapid.IntRange(0, len(c3.EarlierFile)-1).Draw(t, "earlier3"))
		}
		checkRender(t, c3)
		run.Eval(chkRender, false)
		run.Label("error-value-moved-to-another-file")
	})
}

// ---------------------------------------------------------------------------------------
// (a) parsing positions: first byte that cannot continue the text (last byte when input ends early)

func checkParse(t run.TB, c ParseCase) (judged bool) {
	in := []byte(c.Input)
	_, serr := ref.Parse(in)
	if serr == nil || serr.Empty {
		return false
	}
	var err error
	func() {
		defer func() {
			if r := recover(); r != nil {
				err = fmt.Errorf("panic: %v", r)
			}
		}()
		switch c.Scanner {
		case "schema":
			err = js.New("schema", c.Input).Check()
		case "enum":
			err = enum.New("@e", c.Input).Check()
		default:
			err = libjson.New("doc", in).Check()
		}
	}()
	r := lib.Canon(err)
	if r.OK {
		return false // acceptance is C05's concern
	}
	if c.Scanner != "" {
		if r.Code < 300 || r.Code > 303 {
			// not a scanning error (the text is lexically fine for that scanner and fails later)
			return false
		}
		// these scanners want their first value to be what they scan: an enum rule begins with "["
		if first := strings.TrimLeft(c.Input, " \t\r\n"); c.Scanner == "enum" && first != "" && first[0] != '[' {
			return false
		}
		// ... and lists scalars: an inner bracket is where the text stops being an enum rule,
		// whatever a JSON reader would make of it
		if c.Scanner == "enum" {
			if i := strings.IndexAny(c.Input[strings.Index(c.Input, "[")+1:], "[{"); i >= 0 && i+strings.Index(c.Input, "[")+1 <= serr.Offset {
				return false
			}
		}
	}
	if !r.HasPos {
		run.Fail(t, chkParse, c, "parsing error without a position: %v", r)
	}
	if r.Pos != serr.Offset {
		run.Fail(t, chkParse, c, "parsing error at %d, the first byte that cannot continue the text is at %d (end of input: %v)", r.Pos, serr.Offset, serr.EOF)
	}
	if txt, p := lib.ErrorText(err); p != "" || txt == "" {
		run.Fail(t, chkParse, c, "Error() of the parsing error panicked: %s", p)
	}
	return true
}

func TestParsePositions(t *testing.T) {
	run.SkipIfReplaying(t)
	defer run.Done(t, chkParse)
	rapid.Check(t, func(t *rapid.T) {
		v := gen.Value(t, gen.DocOpts{Depth: 4, Width: 3, Exp: true, StrLen: 5, RootContainer: rapid.Bool().Draw(t, "rc")}, "v")
		text := gen.Print(v, gen.RapidBlanks(t, "ws"))
		var bad []byte
		kind := rapid.IntRange(0, 3).Draw(t, "edit")
		pos := 0
		if len(text) > 0 {
			pos = rapid.IntRange(0, len(text)-1).Draw(t, "pos")
		}
		hostile := []byte{0x00, 0x1f, '\\', '"', '.', 'e', '+', '-', '0', ',', ':', ']', '}', '[', '{', 't', 'x', '/'}
		switch kind {
		case 0:
			bad = text[:pos]
		case 1:
			bad = append(append([]byte(nil), text[:pos]...), text[pos+1:]...)
		case 2:
			bad = append([]byte(nil), text...)
			bad[pos] = rapid.SampledFrom(hostile).Draw(t, "byte")
		default:
			bad = append(append(append([]byte(nil), text[:pos]...), rapid.SampledFrom(hostile).Draw(t, "byte")), text[pos:]...)
		}
		c := ParseCase{Input: string(bad)}
		j := checkParse(t, c)
		run.Eval(chkParse, j && gen.Depth(v) >= 1, c.Input)
		if j {
			run.Label(fmt.Sprintf("parse-error:edit-%d", kind))
			run.Sample(chkParse, c)
		}
	})
}

// Two hashes can still become the opener of a block comment (###): the byte that cannot continue
// the text is the one behind them - or the last byte, when the text ends there.
func TestUnfinishedCommentOpener(t *testing.T) {
	run.SkipIfReplaying(t)
	defer run.Done(t, chkParse)
	rapid.Check(t, func(t *rapid.T) {
		prefix := rapid.SampledFrom([]string{"{} ", "1 ", "[\n 1, ", "{\n \"a\": 1 ", "{\n \"a\": 1, ", "{\n \"a\": 1 // {min: 1 ", "[\n ", "\"s\"", "@t ", "{\n \"a\": ", "[] # c\n"}).Draw(t, "prefix")
		tail := rapid.SampledFrom([]string{"x", " c", "\n", "1", "}", "\"", " ### c ###", "", "/", "\t#"}).Draw(t, "tail")
		rest := rapid.SampledFrom([]string{"", "\n}", "\n 2\n]", " x"}).Draw(t, "rest")
		in := prefix + "##" + tail
		want := len(prefix) + 2
		if tail == "" {
			want = len(in) - 1
		} else {
			in += rest
		}
		c := ParseCase{Input: in, Scanner: "schema"}
		var err error
		func() {
			defer func() {
				if r := recover(); r != nil {
					err = fmt.Errorf("panic: %v", r)
				}
			}()
			err = js.New("schema", in).Check()
		}()
		r := lib.Canon(err)
		if r.OK {
			run.Fail(t, chkParse, c, "a text with two hashes that open no comment is accepted")
		}
		if !r.HasPos || r.Pos != want {
			run.Fail(t, chkParse, c, "parsing error %v at %d: the two hashes may still become the opener of a block comment, the first byte that cannot continue the text is at %d", r, r.Pos, want)
		}
		run.Eval(chkParse, true, in)
		run.Label("parse-error:unfinished-comment-opener")
		run.Sample(chkParse, c)
	})
}

// The schema scanner and the enum-rule scanner on their plain-JSON sublanguage: the same edits, the
// same reference (the first byte that cannot continue a JSON text cannot continue these texts
// either, as long as the edit does not open one of their extensions: comments and annotations "/"
// "#", shortcuts "@", or touches what they exclude: exponents).
func TestParsePositionsOfTheOtherScanners(t *testing.T) {
	run.SkipIfReplaying(t)
	defer run.Done(t, chkParse)
	rapid.Check(t, func(t *rapid.T) {
		scanner := rapid.SampledFrom([]string{"schema", "enum"}).Draw(t, "scanner")
		var v *ref.Value
		if scanner == "enum" {
			v = &ref.Value{Kind: ref.KArray}
			for i, n := 0, rapid.IntRange(0, 6).Draw(t, "n"); i < n; i++ {
				it := gen.Value(t, gen.DocOpts{Depth: 0, Width: 0, StrLen: 4}, "item")
				if it.Kind == ref.KObject || it.Kind == ref.KArray {
					continue // an enum rule lists scalars: a bracket is where such a text stops being one
				}
				v.Items = append(v.Items, it)
			}
		} else {
			v = gen.Value(t, gen.DocOpts{Depth: 3, Width: 3, StrLen: 4, RootContainer: rapid.Bool().Draw(t, "rc")}, "v")
		}
		text := gen.Print(v, gen.RapidBlanks(t, "ws"))
		if bytes.ContainsAny(text, "/#@eE") || len(text) == 0 {
			return // (strings with these letters: an edit that flips a quote would expose them to the scanner)
		}
		var bad []byte
		kind := rapid.IntRange(0, 3).Draw(t, "edit")
		pos := rapid.IntRange(0, len(text)-1).Draw(t, "pos")
		hostile := []byte{0x00, 0x1f, '\\', '"', '.', '+', '-', '0', ',', ':', ']', '}', 'x', 'q', '9'}
		switch kind {
		case 0:
			bad = text[:pos]
		case 1:
			bad = append(append([]byte(nil), text[:pos]...), text[pos+1:]...)
		case 2:
			bad = append([]byte(nil), text...)
			bad[pos] = rapid.SampledFrom(hostile).Draw(t, "byte")
		default:
			bad = append(append(append([]byte(nil), text[:pos]...), rapid.SampledFrom(hostile).Draw(t, "byte")), text[pos:]...)
		}
		c := ParseCase{Input: string(bad), Scanner: scanner}
		j := checkParse(t, c)
		run.Eval(chkParse, j, scanner, c.Input)
		if j {
			run.Label(fmt.Sprintf("parse-error:%s-scanner:edit-%d", scanner, kind))
			run.Sample(chkParse, c)
		}
	})
}

// ---------------------------------------------------------------------------------------
// (a) validation positions: one planted violation at a printer-known offset

func checkValid(t run.TB, c ValidCase) {
	sp := lib.Spec{Schema: c.Schema}
	for _, ty := range c.Types {
		sp.Types = append(sp.Types, lib.Named{Name: ty[0], Text: ty[1]})
	}
	s, _ := lib.Build(sp)
	if r := lib.Check(s); !r.OK {
		return
	}
	v := lib.Validate(s, []byte(c.Doc))
	if v.Panic != "" {
		run.Fail(t, chkValid, c, "Validate panicked: %s", v.Panic)
	}
	if v.OK {
		run.Fail(t, chkValid, c, "a document with a planted %s is accepted", c.Class)
	}
	if !v.HasPos || v.Pos != c.Pos {
		run.Fail(t, chkValid, c, "planted %s: error %v reported at %d, the offending value/key starts at %d", c.Class, v, v.Pos, c.Pos)
	}
}

type slotInfo struct {
	val    *ref.Value
	node   *ref.SNode
	parent *ref.Value
	index  int
	depth  int
}

// walk pairs document values with the schema nodes they are matched against (rule-free fragment).
func walk(n *ref.SNode, v *ref.Value, parent *ref.Value, idx, depth int, out *[]slotInfo) {
	*out = append(*out, slotInfo{v, n, parent, idx, depth})
	if n.IsAny() {
		return
	}
	switch {
	case n.Kind == ref.SObj && v.Kind == ref.KObject:
		for i := range v.Members {
			for k := range n.Props {
				if n.Props[k].Key == v.Members[i].Key {
					walk(n.Props[k].Val, v.Members[i].Val, v, i, depth+1, out)
				}
			}
		}
	case n.Kind == ref.SArr && v.Kind == ref.KArray && len(n.Items) > 0:
		for i, it := range v.Items {
			j := i
			if j >= len(n.Items) {
				j = len(n.Items) - 1
			}
			walk(n.Items[j], it, v, i, depth+1, out)
		}
	}
}

func TestValidationPositions(t *testing.T) {
	run.SkipIfReplaying(t)
	defer run.Done(t, chkValid)
	rapid.Check(t, func(t *rapid.T) {
		model := gen.ShapeSchema(t, gen.ShapeOpts{Depth: 3, Width: 3}, "m")
		// no nullable/any in this sub-check: the planted violation must be the only deviation and
		// must not be absorbed by a permissive node
		model.Walk(func(n *ref.SNode) {
			var keep []ref.SRule
			for _, r := range n.Rules {
				if r.Name == "optional" {
					keep = append(keep, r)
				}
			}
			n.Rules = keep
			// "no other keys" written out (it is the default): an unknown key is still reported at the key
			if n.Kind == ref.SObj && rapid.IntRange(0, 2).Draw(t, "explicitNoAdditional") == 0 {
				n.Rules = append(n.Rules, gen.TokRule("additionalProperties", "false"))
			}
		})
		schema := string(gen.PrintSchema(model, nil))
		doc := gen.ShapeInstance(t, model, false, "inst")
		// duplicate keys make "the" offending occurrence ambiguous
		var slots []slotInfo
		walk(model, doc, nil, 0, 0, &slots)
		s := slots[rapid.IntRange(0, len(slots)-1).Draw(t, "slot")]
		class := ""
		var target **ref.Value
		mark := &ref.Value{}
		set := func(nv *ref.Value) {
			if s.parent == nil {
				doc = nv
			} else if s.parent.Kind == ref.KArray {
				s.parent.Items[s.index] = nv
			} else {
				s.parent.Members[s.index].Val = nv
			}
		}
		_ = target
		keyPos := false
		switch rapid.IntRange(0, 3).Draw(t, "class") {
		case 0: // wrong kind
			class = "wrong-kind"
			var nv *ref.Value
			switch {
			case s.node.Kind == ref.SLit && s.node.Lit == ref.KString:
				nv = &ref.Value{Kind: ref.KNumber, Tok: "7"}
			case s.node.Kind == ref.SLit:
				nv = &ref.Value{Kind: ref.KString, Tok: `"wrong"`, Str: "wrong"}
			default:
				nv = &ref.Value{Kind: ref.KTrue, Tok: "true"}
			}
			mark = nv
			set(nv)
		case 1: // unknown key
			if s.val.Kind != ref.KObject || s.node.Kind != ref.SObj {
				return
			}
			class, keyPos = "unknown-key", true
			m := ref.Member{KeyTok: `"zz_unknown"`, Key: "zz_unknown", Val: &ref.Value{Kind: ref.KNumber, Tok: "1"}}
			pos := rapid.IntRange(0, len(s.val.Members)).Draw(t, "kpos")
			nm := append([]ref.Member{}, s.val.Members[:pos]...)
			nm = append(nm, m)
			s.val.Members = append(nm, s.val.Members[pos:]...)
			mark = s.val
		case 2: // missing required key
			if s.val.Kind != ref.KObject || s.node.Kind != ref.SObj {
				return
			}
			var req []int
			for i, m := range s.val.Members {
				for k := range s.node.Props {
					if s.node.Props[k].Key == m.Key {
						if o, ok := s.node.Props[k].Val.BoolRule("optional"); !ok || !o {
							req = append(req, i)
						}
					}
				}
			}
			if len(req) == 0 {
				return
			}
			class = "missing-required-key"
			i := req[rapid.IntRange(0, len(req)-1).Draw(t, "drop")]
			key := s.val.Members[i].Key
			var nm []ref.Member
			for _, m := range s.val.Members {
				if m.Key != key {
					nm = append(nm, m)
				}
			}
			s.val.Members = nm
			mark = s.val
		default: // item under an empty example array
			if s.val.Kind != ref.KArray || s.node.Kind != ref.SArr || len(s.node.Items) != 0 {
				return
			}
			class = "item-in-empty-example-array"
			nv := &ref.Value{Kind: ref.KNumber, Tok: "1"}
			s.val.Items = append(s.val.Items, nv)
			mark = nv
		}
		text := gen.Print(doc, gen.RapidBlanks(t, "ws"))
		pos := mark.Begin
		if keyPos {
			for _, m := range mark.Members {
				if m.Key == "zz_unknown" {
					pos = m.KeyBegin
				}
			}
		}
		// only judge documents in which the planted violation is the single deviation
		parsed, _ := ref.Parse(text)
		if parsed == nil || ref.Shape(model, parsed, false).OK {
			return
		}
		if hasDuplicateKeys(parsed) {
			return
		}
		c := ValidCase{Schema: schema, Doc: string(text), Class: class, Pos: pos}
		checkValid(t, c)
		run.Eval(chkValid, s.depth >= 1, schema, string(text))
		run.Label("planted:" + class)
		run.Sample(chkValid, c)
	})
}

// TestUnknownKeyUnderAlternatives: the position takes one of several object types, the document is
// an object of one of them plus a key that none of them knows. The offending thing is that key -
// no alternative ever looks at its value.
func TestUnknownKeyUnderAlternatives(t *testing.T) {
	run.SkipIfReplaying(t)
	defer run.Done(t, chkValid)
	rapid.Check(t, func(t *rapid.T) {
		nt := rapid.IntRange(2, 3).Draw(t, "ntypes")
		keys := []string{"kind", "name", "lives", "barks", "id"}
		var types [][2]string
		var names []string
		var first []string // the properties of the first type, in order
		for i := 0; i < nt; i++ {
			name := fmt.Sprintf("@t%d", i)
			names = append(names, name)
			ks := rapid.SliceOfNDistinct(rapid.SampledFrom(keys), 1, 3, rapid.ID[string]).Draw(t, "keys")
			txt := "{"
			for j, k := range ks {
				if j > 0 {
					txt += ","
				}
				txt += fmt.Sprintf("\n  %q: %d", k, j+1)
			}
			txt += "\n}"
			if rapid.IntRange(0, 2).Draw(t, "closed") == 0 {
				txt = strings.Replace(txt, "{", "{ // {additionalProperties: false}", 1)
			}
			types = append(types, [2]string{name, txt})
			if i == 0 {
				first = ks
			}
		}
		list := strings.Join(names, " | ")
		at := rapid.IntRange(0, len(first)).Draw(t, "at")
		ws := rapid.SampledFrom([]string{"", " ", "\n  ", "\t"}).Draw(t, "ws")
		obj := "{" + ws
		pos := -1
		n := 0
		for j := 0; j <= len(first); j++ {
			if j == at {
				if n > 0 {
					obj += "," + ws
				}
				pos = len(obj)
				obj += `"zz_unknown":` + ws + rapid.SampledFrom([]string{"9", "{}", "[1]", `"x"`, "null"}).Draw(t, "val")
				n++
			}
			if j < len(first) {
				if n > 0 {
					obj += "," + ws
				}
				obj += fmt.Sprintf("%q:%s%d", first[j], ws, j+1)
				n++
			}
		}
		obj += ws + "}"
		var schema, doc string
		switch rapid.IntRange(0, 2).Draw(t, "host") {
		case 0:
			schema, doc = list, obj
		case 1:
			schema, doc = "{\n  \"pet\": "+list+"\n}", `{"pet": `+obj+"}"
			pos += len(`{"pet": `)
		default:
			schema, doc = "[\n  "+list+"\n]", "["+ws+obj+"]"
			pos += 1 + len(ws)
		}
		c := ValidCase{Schema: schema, Types: types, Doc: doc, Class: "unknown-key-under-alternatives", Pos: pos}
		checkValid(t, c)
		run.Eval(chkValid, true, schema, doc)
		run.Label("planted:" + c.Class)
		run.Sample(chkValid, c)
	})
}

func hasDuplicateKeys(v *ref.Value) bool {
	seen := map[string]bool{}
	for _, m := range v.Members {
		if seen[m.Key] || hasDuplicateKeys(m.Val) {
			return true
		}
		seen[m.Key] = true
	}
	for _, it := range v.Items {
		if hasDuplicateKeys(it) {
			return true
		}
	}
	return false
}

func TestReplay(t *testing.T) { run.TestReplay(t) }
