package c05

import (
	stdjson "encoding/json"
	"fmt"
	"os"
	"path/filepath"
	"strings"
	"testing"
	"unicode/utf8"

	"pgregory.net/rapid"

	jschema "github.com/jsightapi/jsight-schema-go-library"
	libjson "github.com/jsightapi/jsight-schema-go-library/formats/json"

	"verif/gen"
	"verif/ref"
	"verif/run"
)

func TestMain(m *testing.M) { gen.AvoidZeroExp = false; run.Main(m, "C05") }

const chk = "json-accept"

type Case struct {
	Input string `json:"input"` // bytes as a Go string (JSON-escaped in the replay file)
	Hex   string `json:"hex,omitempty"`
	Allow bool   `json:"allow_trailing"`
	// Before: calls made on the same Document object before the judged Check ("check", "len",
	// "next:<k>" = k NextLexeme calls, stopping at the first error)
	Before []string `json:"before,omitempty"`
}

func mk(in []byte, allow bool, before ...string) Case {
	c := Case{Input: string(in), Allow: allow, Before: before}
	if !utf8.Valid(in) {
		c.Hex = fmt.Sprintf("%x", in)
		c.Input = ""
	}
	return c
}

func (c Case) bytes() []byte {
	if c.Hex != "" {
		var b []byte
		fmt.Sscanf(c.Hex, "%x", &b)
		return b
	}
	return []byte(c.Input)
}

func init() {
	run.RegisterReplay(chk, func(t run.TB, raw stdjson.RawMessage) {
		var c Case
		if err := stdjson.Unmarshal(raw, &c); err != nil {
			t.Fatalf("bad case: %v", err)
		}
		check(t, c.bytes(), c.Allow, c.Before...)
	})
}

// libCheck runs Document.Check and converts a panic into an error string.
func libCheck(in []byte, allow bool, before ...string) (err error, panicked any) {
	defer func() {
		if r := recover(); r != nil {
			panicked = r
		}
	}()
	var d jschema.Document
	if allow {
		d = libjson.New("doc", in, libjson.AllowTrailingNonSpaceCharacters())
	} else {
		d = libjson.New("doc", in)
	}
	for _, op := range before {
		func() {
			defer func() { _ = recover() }() // the earlier calls are judged elsewhere (C06, C07, C14)
			switch {
			case op == "check":
				_ = d.Check()
			case op == "len":
				_, _ = d.Len()
			case strings.HasPrefix(op, "next:"):
				k := 0
				fmt.Sscanf(op, "next:%d", &k)
				for i := 0; i < k; i++ {
					if _, err := d.NextLexeme(); err != nil {
						break
					}
				}
			}
		}()
	}
	return d.Check(), nil
}

// check is the oracle: library verdict == reference verdict.
func check(t run.TB, in []byte, allow bool, before ...string) (libAccepts bool) {
	err, p := libCheck(in, allow, before...)
	if p != nil {
		run.Fail(t, chk, mk(in, allow, before...), "Document.Check panicked: %v", p)
	}
	libAccepts = err == nil
	v, serr := ref.Parse(in)
	refStrict := serr == nil
	if std := stdjson.Valid(in); std != refStrict {
		run.Infra("reference disagreement: ref.Valid=%v encoding/json.Valid=%v on %q", refStrict, std, in)
		t.Fatalf("reference self-check failed on %q", in)
	}
	_ = v
	want := refStrict
	if allow {
		_, _, ok, disputed := ref.Prefix(in)
		if disputed {
			run.Excluded("unspecified:number-followed-by-nonextending-.eE-with-trailing-allowed")
			return
		}
		want = ok
	}
	if want && !utf8.Valid(in) {
		// RFC 8259 §8.1 zone: grammar is fine, encoding is not; the statement lists grammar only.
		run.Excluded("unspecified:invalid-utf8-in-otherwise-valid-text")
		return
	}
	if libAccepts != want {
		if !allow && !want && libAccepts && truncatedNumberAtEOF(in) && run.MatchKnown("C05-truncated-number-at-eof") {
			return
		}
		after := ""
		if len(before) > 0 {
			after = fmt.Sprintf(" [Check called after %v on the same Document]", before)
		}
		run.Fail(t, chk, mk(in, allow, before...), "library accepts=%v (err=%v), RFC 8259 reference accepts=%v%s", libAccepts, err, want, after)
	}
	return
}

// truncatedNumberAtEOF: the narrow matcher of finding #1 – input is blanks + a top-level
// numeral that ends in one of `.`, `e`, `E`, `e+`, `e-` at the very end of the input.
func truncatedNumberAtEOF(in []byte) bool {
	s := strings.TrimLeft(string(in), " \t\r\n")
	for _, suf := range []string{".", "e", "E", "e+", "e-", "E+", "E-"} {
		if strings.HasSuffix(s, suf) {
			body := strings.TrimSuffix(s, suf)
			if v, err := ref.Parse([]byte(body)); err == nil && v.Kind == ref.KNumber && v.End == len(body)-1 {
				if suf == "." {
					return !strings.ContainsAny(body, ".eE")
				}
				if len(suf) >= 1 && (suf[0] == 'e' || suf[0] == 'E') {
					return !strings.ContainsAny(body, "eE")
				}
			}
		}
	}
	return false
}

func nontrivial(in []byte, accepted bool) bool {
	if accepted {
		return true
	}
	_, serr := ref.Parse(in)
	if serr == nil {
		return true
	}
	// rejected: not at byte 0, and at/after the second token or by the end-of-input rule
	if serr.Offset == 0 && !serr.EOF {
		return false
	}
	return serr.EOF || serr.Offset >= 1
}

// ---------------------------------------------------------------------------------------
// 1. exhaustive over the byte-class alphabet

var alphabet = []string{"{", "}", "[", "]", ":", ",", "\"", "\\", "0", "1", "-", "+", ".", "e", " ", "true"}

func TestExhaustiveAlphabet(t *testing.T) {
	run.SkipIfReplaying(t)
	defer run.Done(t, chk)
	maxLen := run.Scale(5, 7)
	shard, shards := run.Shard(), run.Shards()
	var total, nontriv int64
	buf := make([]byte, 0, 64)
	var rec func(depth int, buf []byte)
	top := 0
	rec = func(depth int, buf []byte) {
		for ai, sym := range alphabet {
			if depth == 0 {
				// shard on the first symbol
				if top = ai; top%shards != shard {
					continue
				}
			}
			nb := append(buf, sym...)
			for _, allow := range []bool{false, true} {
				acc := check(t, nb, allow)
				total++
				nt := nontrivial(nb, acc)
				if nt {
					nontriv++
				}
				run.Eval(chk, nt, string(nb), fmt.Sprint(allow))
				if total%50021 == 0 {
					run.Sample(chk, mk(nb, allow))
				}
			}
			if depth+1 < maxLen {
				rec(depth+1, nb)
			}
		}
	}
	rec(0, buf)
	run.LabelN("exhaustive-alphabet-strings", total/2)
	if shards == 1 || true {
		run.Exhaustive(chk, fmt.Sprintf("all strings of 1..%d symbols over the %d-symbol alphabet %q (no pruning), both option settings; keyword automaton: all strings of <= %d letters over truefalsn", maxLen, len(alphabet), alphabet, run.Scale(5, 6)))
	}
}

func TestExhaustiveKeywords(t *testing.T) {
	run.SkipIfReplaying(t)
	defer run.Done(t, chk)
	if run.Shard() != 0 {
		t.Skip("shard 0 only")
	}
	letters := []byte("truefalsn")
	// distinct letters only: t r u e f a l s n
	seen := map[byte]bool{}
	var uniq []byte
	for _, c := range letters {
		if !seen[c] {
			seen[c] = true
			uniq = append(uniq, c)
		}
	}
	uniq = append(uniq, ' ', ',')
	maxLen := run.Scale(5, 6)
	var rec func(buf []byte)
	n := int64(0)
	rec = func(buf []byte) {
		for _, c := range uniq {
			nb := append(buf, c)
			for _, allow := range []bool{false, true} {
				acc := check(t, nb, allow)
				run.Eval(chk, nontrivial(nb, acc), string(nb), fmt.Sprint(allow))
				n++
			}
			// also inside an array, where the byte after the keyword is consumed by the container
			wrapped := append(append([]byte("["), nb...), ']')
			acc := check(t, wrapped, false)
			run.Eval(chk, nontrivial(wrapped, acc), string(wrapped), "false")
			if len(nb) < maxLen {
				rec(nb)
			}
		}
	}
	rec(nil)
	run.LabelN("exhaustive-keyword-strings", n/2)
}

// ---------------------------------------------------------------------------------------
// 2. grammar + mutation

var hostile = []byte{0x00, 0x1f, 0x7f, 0x80, 0xff, '\\', '"', '.', 'e', 'E', '+', '-', '0', '1', ',', ':', ']', '}', '[', '{', ' ', '\n', 't', 'n', 'f', 'u', '/'}

func TestGrammarMutation(t *testing.T) {
	run.SkipIfReplaying(t)
	defer run.Done(t, chk)
	rapid.Check(t, func(t *rapid.T) {
		v := gen.Value(t, gen.DocOpts{Depth: 6, Width: 4, Exp: true, StrLen: 6, DupKeys: true}, "v")
		text := gen.Print(v, gen.RapidBlanks(t, "ws"))
		allow := rapid.Bool().Draw(t, "allow")
		// the valid text itself
		if !check(t, text, allow) {
			// check() already failed the test if the reference accepts; reaching here means both reject,
			// which is impossible for a printed model
			run.Fail(t, chk, mk(text, allow), "printer produced a text that the reference rejects")
		}
		run.Eval(chk, true, string(text), fmt.Sprint(allow))
		run.Label("valid-text")
		run.Sample(chk, mk(text, allow))
		// the verdict of Check does not depend on what the Document object was used for before
		history := func(in []byte) {
			var before []string
			for i, n := 0, rapid.IntRange(1, 3).Draw(t, "nbefore"); i < n; i++ {
				switch rapid.IntRange(0, 4).Draw(t, "before") {
				case 0:
					before = append(before, "check")
				case 1:
					before = append(before, "len")
				case 2:
					before = append(before, "next:100000") // to the end (or the first error)
				default:
					before = append(before, fmt.Sprintf("next:%d", rapid.IntRange(1, 12).Draw(t, "nextK")))
				}
			}
			check(t, in, allow, before...)
			run.Eval(chk, false)
			run.Label("check-after-other-calls")
		}
		history(text)
		// every control byte (and its neighbours 0x20, 0x7f) at one position inside one string or key
		if spans := stringSpans(v); len(spans) > 0 && rapid.IntRange(0, 3).Draw(t, "ctl") == 0 {
			sp := spans[rapid.IntRange(0, len(spans)-1).Draw(t, "ctlSpan")]
			at := rapid.IntRange(sp[0]+1, sp[1]).Draw(t, "ctlAt") // after the opening quote .. before the closing one
			if at > sp[0]+1 && text[at-1] == '\\' {
				at-- // not between a backslash and the character it escapes
			}
			for b := 0; b <= 0x21; b++ {
				c := byte(b)
				if b == 0x21 {
					c = 0x7f
				}
				m := append(append(append([]byte(nil), text[:at]...), c), text[at:]...)
				acc := check(t, m, allow)
				run.Eval(chk, nontrivial(m, acc), string(m), fmt.Sprint(allow))
			}
			run.Label("control-byte-sweep-inside-a-string")
		}
		nmut := rapid.IntRange(1, 4).Draw(t, "nmut")
		for k := 0; k < nmut; k++ {
			m := mutate(t, text)
			acc := check(t, m, allow)
			history(m)
			run.Eval(chk, nontrivial(m, acc), string(m), fmt.Sprint(allow))
			if acc {
				run.Label("mutant-accepted")
			} else {
				run.Label("mutant-rejected")
			}
		}
	})
}

// stringSpans lists [begin, end] (offsets of the two quotes) of every string value and key of a
// printed model.
func stringSpans(v *ref.Value) [][2]int {
	var out [][2]int
	var rec func(v *ref.Value)
	rec = func(v *ref.Value) {
		if v.Kind == ref.KString {
			out = append(out, [2]int{v.Begin, v.End})
		}
		for _, it := range v.Items {
			rec(it)
		}
		for _, m := range v.Members {
			out = append(out, [2]int{m.KeyBegin, m.KeyEnd})
			rec(m.Val)
		}
	}
	rec(v)
	return out
}

func mutate(t *rapid.T, text []byte) []byte {
	out := append([]byte(nil), text...)
	kind := rapid.IntRange(0, 6).Draw(t, "mutKind")
	if kind == 6 {
		// a byte order mark (or its first bytes) in front of the text: not part of the JSON grammar
		run.Label("mut:bom-prefix")
		bom := []byte{0xEF, 0xBB, 0xBF}
		return append(bom[:rapid.IntRange(1, 3).Draw(t, "bomLen")], out...)
	}
	pos := 0
	if len(out) > 0 {
		pos = rapid.IntRange(0, len(out)-1).Draw(t, "mutPos")
	}
	switch kind {
	case 0: // truncate
		run.Label("mut:truncate")
		return out[:pos]
	case 1: // delete
		run.Label("mut:delete")
		if len(out) == 0 {
			return out
		}
		return append(out[:pos], out[pos+1:]...)
	case 2: // duplicate
		run.Label("mut:duplicate")
		if len(out) == 0 {
			return out
		}
		return append(out[:pos+1], out[pos:]...)
	case 3: // replace
		run.Label("mut:replace")
		if len(out) == 0 {
			return out
		}
		out[pos] = rapid.SampledFrom(hostile).Draw(t, "mutByte")
		return out
	case 4: // insert
		run.Label("mut:insert")
		c := rapid.SampledFrom(hostile).Draw(t, "mutByte")
		return append(out[:pos], append([]byte{c}, out[pos:]...)...)
	default: // splice with a second text
		run.Label("mut:splice")
		v2 := gen.Value(t, gen.DocOpts{Depth: 2, Width: 3, Exp: true, StrLen: 4}, "v2")
		t2 := gen.Print(v2, nil)
		return append(out[:pos], append(t2, out[pos:]...)...)
	}
}

// every truncation of valid texts (the end-of-input rule at every offset)
func TestTruncations(t *testing.T) {
	run.SkipIfReplaying(t)
	defer run.Done(t, chk)
	rapid.Check(t, func(t *rapid.T) {
		v := gen.Value(t, gen.DocOpts{Depth: 4, Width: 3, Exp: true, StrLen: 5}, "v")
		text := gen.Print(v, gen.RapidBlanks(t, "ws"))
		if len(text) > 200 {
			text = text[:200]
		}
		for i := 0; i <= len(text); i++ {
			for _, allow := range []bool{false, true} {
				acc := check(t, text[:i], allow)
				run.Eval(chk, nontrivial(text[:i], acc), string(text[:i]), fmt.Sprint(allow))
			}
		}
		run.Label("truncation-family")
	})
}

// ---------------------------------------------------------------------------------------
// corpus: the repository's own JSON test data must be judged identically

func TestRepoCorpus(t *testing.T) {
	run.SkipIfReplaying(t)
	defer run.Done(t, chk)
	if run.Shard() != 0 {
		t.Skip("shard 0 only")
	}
	repo := os.Getenv("VERIF_REPO")
	if repo == "" {
		repo = "/repo"
	}
	n := 0
	filepath.Walk(filepath.Join(repo, "testdata"), func(p string, info os.FileInfo, err error) error {
		if err != nil || info.IsDir() || !strings.HasSuffix(p, ".json") {
			return nil
		}
		b, err := os.ReadFile(p)
		if err != nil {
			return nil
		}
		for _, allow := range []bool{false, true} {
			acc := check(t, b, allow)
			run.Eval(chk, nontrivial(b, acc), string(b), fmt.Sprint(allow))
		}
		n++
		return nil
	})
	run.LabelN("repo-testdata-json-files", int64(n))
}

// ---------------------------------------------------------------------------------------
// 3. coverage-guided (thorough tier only; started by the driver with -test.fuzz)

func FuzzJSONCheck(f *testing.F) {
	for _, s := range []string{`{"a":[1,2.5e-3,"xA\n",true,false,null,{}]}`, `1.`, `1e`, `-0`, `0e1`, `[`, `{"a"`, `"\ud800"`, `01`, ` `, ``, `{}x`, `tru`, `[1,]`, `{"a":1,}`, "\"\x1f\"", `1.5e+`, `-`, `"\u12"`, `nul`} {
		f.Add([]byte(s), false)
		f.Add([]byte(s), true)
	}
	f.Fuzz(func(t *testing.T, data []byte, allow bool) {
		if len(data) > 4096 {
			return
		}
		check(t, data, allow)
	})
}

// ---------------------------------------------------------------------------------------
// deep nesting: RFC 8259 sets no limit, and neither does the statement ("exactly one well-formed
// JSON value"). The text is built here (a reader with a limit of its own - encoding/json stops at
// 10000 levels - is no oracle for it): valid by construction, or cut by its last closers.

const chkDeep = "deep-nesting"

type DeepCase struct {
	Depth   int    `json:"depth"`
	Objects int    `json:"every_nth_level_is_an_object"` // 0: arrays only
	Inner   string `json:"innermost"`
	Missing int    `json:"closers_missing"`
	Allow   bool   `json:"allow_trailing"`
}

func (c DeepCase) text() []byte {
	var open, closers []byte
	for i := 0; i < c.Depth; i++ {
		if c.Objects > 0 && i%c.Objects == c.Objects-1 {
			open = append(open, `{"k":`...)
			closers = append(closers, '}')
		} else {
			open = append(open, '[')
			closers = append(closers, ']')
		}
	}
	out := append(open, c.Inner...)
	for i := len(closers) - 1; i >= c.Missing; i-- {
		out = append(out, closers[i])
	}
	return out
}

func init() {
	run.RegisterReplay(chkDeep, func(t run.TB, raw stdjson.RawMessage) {
		var c DeepCase
		if err := stdjson.Unmarshal(raw, &c); err != nil {
			t.Fatalf("bad case: %v", err)
		}
		checkDeep(t, c)
	})
}

func checkDeep(t run.TB, c DeepCase) {
	in := c.text()
	err, p := libCheck(in, c.Allow)
	if p != nil {
		run.Fail(t, chkDeep, c, "Document.Check panicked on a text nested %d levels deep: %v", c.Depth, p)
	}
	if want := c.Missing == 0; (err == nil) != want {
		run.Fail(t, chkDeep, c, "a text nested %d levels deep with %d closing brackets missing: library accepts=%v (err=%v)", c.Depth, c.Missing, err == nil, err)
	}
}

func TestDeepNesting(t *testing.T) {
	run.SkipIfReplaying(t)
	defer run.Done(t, chkDeep)
	rapid.Check(t, func(t *rapid.T) {
		c := DeepCase{
			Depth:   rapid.SampledFrom([]int{50, 500, 1000, 2499, 2500, 2501, 4999, 5000, 5001, 9999, 10000, 10001, 16384, 32768, 65537}).Draw(t, "depth") + rapid.IntRange(-2, 2).Draw(t, "jitter"),
			Objects: rapid.SampledFrom([]int{0, 0, 1, 2, 3}).Draw(t, "objects"),
			Inner:   rapid.SampledFrom([]string{"", "1", "\"s\"", "null", "-0.5e1", "true"}).Draw(t, "inner"),
			Allow:   rapid.Bool().Draw(t, "allow"),
		}
		if rapid.IntRange(0, 3).Draw(t, "cut") == 0 {
			c.Missing = rapid.IntRange(1, 3).Draw(t, "missing")
		}
		if c.Inner == "" && c.Objects > 0 && (c.Depth-1)%c.Objects == c.Objects-1 {
			c.Inner = "0" // the innermost level is an object: its key needs a value
		}
		checkDeep(t, c)
		run.Eval(chkDeep, true, fmt.Sprint(c))
		run.Label("deep-nesting")
	})
}

func TestReplay(t *testing.T) { run.TestReplay(t) }
