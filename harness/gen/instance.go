package gen

import (
	"pgregory.net/rapid"

	"verif/ref"
)

// IntTok draws an integer-valued numeral; with exp=true sometimes in exponent spelling.
func IntTok(t *rapid.T, exp bool, label string) string {
	s := ""
	if rapid.IntRange(0, 3).Draw(t, label+"Neg") == 0 {
		s = "-"
	}
	form := rapid.IntRange(0, 9).Draw(t, label+"Form")
	switch {
	case form == 0:
		return s + "0"
	case exp && form == 1:
		return s + digits(t, 1, 3, true, label+"M") + "e" + rapid.SampledFrom([]string{"0", "1", "+2", "03"}).Draw(t, label+"E")
	case exp && form == 2:
		// d0e-1 : integer by value
		return s + digits(t, 1, 3, true, label+"M") + "0E-1"
	case exp && form == 3:
		// d.de1
		return s + digits(t, 1, 2, true, label+"M") + "." + digits(t, 1, 1, false, label+"F") + "e1"
	}
	return s + digits(t, 1, 6, true, label+"D")
}

// FloatTok draws a numeral with a non-zero fractional part (by value).
func FloatTok(t *rapid.T, exp bool, label string) string {
	s := ""
	if rapid.IntRange(0, 3).Draw(t, label+"Neg") == 0 {
		s = "-"
	}
	ip := "0"
	if rapid.Bool().Draw(t, label+"IntPart") {
		ip = digits(t, 1, 4, true, label+"I")
	}
	form := rapid.IntRange(0, 5).Draw(t, label+"Form")
	nz := string(rune('1' + rapid.IntRange(0, 8).Draw(t, label+"NZ")))
	switch {
	case exp && form == 0:
		return s + digits(t, 1, 3, true, label+"M") + nz + "e-" + rapid.SampledFrom([]string{"1", "2", "01"}).Draw(t, label+"E")
	case exp && form == 1:
		return s + ip + "." + digits(t, 0, 3, false, label+"F") + nz + "E0"
	}
	return s + ip + "." + digits(t, 0, 3, false, label+"F") + nz
}

// ScalarOfKind draws a document scalar of the given kind.
func ScalarOfKind(t *rapid.T, k ref.Kind, label string) *ref.Value {
	switch k {
	case ref.KString:
		tok, dec := StringTok(t, 5, label+"S")
		return &ref.Value{Kind: ref.KString, Tok: tok, Str: dec}
	case ref.KNumber:
		if rapid.Bool().Draw(t, label+"IsInt") {
			return &ref.Value{Kind: ref.KNumber, Tok: IntTok(t, true, label+"N")}
		}
		return &ref.Value{Kind: ref.KNumber, Tok: FloatTok(t, true, label+"N")}
	case ref.KTrue, ref.KFalse:
		if rapid.Bool().Draw(t, label+"B") {
			return &ref.Value{Kind: ref.KTrue, Tok: "true"}
		}
		return &ref.Value{Kind: ref.KFalse, Tok: "false"}
	}
	return &ref.Value{Kind: ref.KNull, Tok: "null"}
}

func Null() *ref.Value { return &ref.Value{Kind: ref.KNull, Tok: "null"} }

// ShapeInstance draws a document that ref.Shape accepts for a rule-free model.
func ShapeInstance(t *rapid.T, n *ref.SNode, keysOptional bool, label string) *ref.Value {
	if n.IsAny() {
		return Value(t, DocOpts{Depth: 2, Width: 2, Exp: true, StrLen: 3}, label+"Any")
	}
	if v, ok := n.BoolRule("nullable"); ok && v && rapid.IntRange(0, 4).Draw(t, label+"Null") == 0 {
		return Null()
	}
	switch n.Kind {
	case ref.SLit:
		switch n.Lit {
		case ref.KNumber:
			if ref.ExampleIsInteger(n.Tok) || rapid.Bool().Draw(t, label+"IntForFloat") {
				return &ref.Value{Kind: ref.KNumber, Tok: IntTok(t, true, label+"N")}
			}
			return &ref.Value{Kind: ref.KNumber, Tok: FloatTok(t, true, label+"N")}
		default:
			return ScalarOfKind(t, n.Lit, label+"L")
		}
	case ref.SArr:
		v := &ref.Value{Kind: ref.KArray}
		if len(n.Items) == 0 {
			return v
		}
		cnt := rapid.IntRange(0, len(n.Items)+3).Draw(t, label+"Len")
		for i := 0; i < cnt; i++ {
			j := i
			if j >= len(n.Items) {
				j = len(n.Items) - 1
			}
			v.Items = append(v.Items, ShapeInstance(t, n.Items[j], keysOptional, label+"I"))
		}
		return v
	case ref.SObj:
		v := &ref.Value{Kind: ref.KObject}
		for i := range n.Props {
			p := &n.Props[i]
			opt, present := p.Val.BoolRule("optional")
			required := !keysOptional
			if present {
				required = !opt
			}
			if !required && rapid.Bool().Draw(t, label+"Omit") {
				continue
			}
			tok := p.KeyTok
			if rapid.IntRange(0, 5).Draw(t, label+"KeySpell") == 0 {
				tok = Respell(t, p.Key, label+"KeyResp")
			}
			v.Members = append(v.Members, ref.Member{KeyTok: tok, Key: p.Key, Val: ShapeInstance(t, p.Val, keysOptional, label+"V")})
			if rapid.IntRange(0, 14).Draw(t, label+"Dup") == 0 {
				v.Members = append(v.Members, ref.Member{KeyTok: tok, Key: p.Key, Val: ShapeInstance(t, p.Val, keysOptional, label+"V2")})
			}
		}
		ShuffleMembers(t, v, label+"Shuf")
		return v
	}
	return Null()
}

func ShuffleMembers(t *rapid.T, v *ref.Value, label string) {
	if len(v.Members) < 2 || !rapid.Bool().Draw(t, label) {
		return
	}
	perm := rapid.Permutation(v.Members).Draw(t, label+"Perm")
	v.Members = perm
}

// slot is a place in a document tree where a value lives.
type slot struct {
	parent *ref.Value // nil for the root
	index  int        // index in Items / Members
	val    *ref.Value
}

func slots(root *ref.Value) []slot {
	var out []slot
	var rec func(parent *ref.Value, idx int, v *ref.Value)
	rec = func(parent *ref.Value, idx int, v *ref.Value) {
		out = append(out, slot{parent, idx, v})
		for i, it := range v.Items {
			rec(v, i, it)
		}
		for i := range v.Members {
			rec(v, i, v.Members[i].Val)
		}
	}
	rec(nil, 0, root)
	return out
}

// DropKeyVariants returns copies of root each lacking exactly one member of one object that has
// at least two members (every member of that object in turn; objects visited in document
// order; at most max variants).
func DropKeyVariants(root *ref.Value, max int) []*ref.Value {
	var out []*ref.Value
	n := len(slots(root))
	for si := 0; si < n && len(out) < max; si++ {
		if v := slots(root)[si].val; v.Kind != ref.KObject || len(v.Members) < 2 {
			continue
		}
		for mi := range slots(root)[si].val.Members {
			if len(out) >= max {
				break
			}
			c := Clone(root)
			o := slots(c)[si].val
			o.Members = append(o.Members[:mi:mi], o.Members[mi+1:]...)
			out = append(out, c)
		}
	}
	return out
}

// Mutate applies one local mutation to a copy of root and returns it with the mutation's name.
// The mutation kind is drawn first and then one of the slots it applies to, so that
// container-specific mutations are not starved by the many scalar slots.
func Mutate(t *rapid.T, root *ref.Value, keyPool []string, label string) (*ref.Value, string) {
	root = Clone(root)
	all := slots(root)
	names := []string{"flip-kind", "int-float", "inject-null", "drop-key", "add-key", "duplicate-key",
		"truncate-array", "extend-array", "reorder-keys", "swap-items", "replace-random"}
	applicable := func(name string, v *ref.Value) bool {
		switch name {
		case "int-float":
			return v.Kind == ref.KNumber
		case "inject-null":
			return v.Kind != ref.KNull
		case "drop-key", "duplicate-key":
			return v.Kind == ref.KObject && len(v.Members) > 0
		case "add-key":
			return v.Kind == ref.KObject
		case "truncate-array":
			return v.Kind == ref.KArray && len(v.Items) > 0
		case "extend-array":
			return v.Kind == ref.KArray
		case "reorder-keys":
			return v.Kind == ref.KObject && len(v.Members) > 1
		case "swap-items":
			return v.Kind == ref.KArray && len(v.Items) > 1
		}
		return true
	}
	// choose among the mutations that apply somewhere in this document (construction, not
	// rejection: a fallback for inapplicable draws used to make "replace-random" dominate)
	var usable []string
	for _, nm := range names {
		for _, s := range all {
			if applicable(nm, s.val) {
				usable = append(usable, nm)
				break
			}
		}
	}
	name := rapid.SampledFrom(usable).Draw(t, label+"Mut")
	var cand []slot
	for _, s := range all {
		if applicable(name, s.val) {
			cand = append(cand, s)
		}
	}
	s := cand[rapid.IntRange(0, len(cand)-1).Draw(t, label+"Slot")]
	set := func(nv *ref.Value) *ref.Value {
		if s.parent == nil {
			return nv
		}
		if s.parent.Kind == ref.KArray {
			s.parent.Items[s.index] = nv
		} else {
			s.parent.Members[s.index].Val = nv
		}
		return root
	}
	v := s.val
	small := DocOpts{Depth: 1, Width: 2, Exp: true, StrLen: 3}
	switch name {
	case "flip-kind":
		kinds := []ref.Kind{ref.KString, ref.KNumber, ref.KTrue, ref.KNull, ref.KArray, ref.KObject}
		var other []ref.Kind
		for _, k := range kinds {
			same := k == v.Kind || (k == ref.KTrue && v.Kind == ref.KFalse)
			if !same {
				other = append(other, k)
			}
		}
		k := rapid.SampledFrom(other).Draw(t, label+"Kind")
		switch k {
		case ref.KArray:
			return set(&ref.Value{Kind: ref.KArray}), name
		case ref.KObject:
			return set(&ref.Value{Kind: ref.KObject}), name
		}
		return set(ScalarOfKind(t, k, label+"New")), name
	case "int-float":
		isInt, _ := ref.NumberIsInteger(v.Tok)
		if isInt {
			return set(&ref.Value{Kind: ref.KNumber, Tok: FloatTok(t, true, label+"F")}), "int-to-float"
		}
		return set(&ref.Value{Kind: ref.KNumber, Tok: IntTok(t, true, label+"I")}), "float-to-int"
	case "inject-null":
		return set(Null()), name
	case "drop-key":
		i := rapid.IntRange(0, len(v.Members)-1).Draw(t, label+"Drop")
		v.Members = append(v.Members[:i:i], v.Members[i+1:]...)
		return root, name
	case "add-key":
		key := "zz"
		if len(keyPool) > 0 && rapid.Bool().Draw(t, label+"FromPool") {
			key = rapid.SampledFrom(keyPool).Draw(t, label+"Key")
		}
		nv := Value(t, small, label+"NewVal")
		pos := rapid.IntRange(0, len(v.Members)).Draw(t, label+"Pos")
		m := ref.Member{KeyTok: Quote(key), Key: key, Val: nv}
		nm := append([]ref.Member{}, v.Members[:pos]...)
		nm = append(nm, m)
		v.Members = append(nm, v.Members[pos:]...)
		return root, name
	case "duplicate-key":
		i := rapid.IntRange(0, len(v.Members)-1).Draw(t, label+"DupI")
		m := v.Members[i]
		if rapid.Bool().Draw(t, label+"DupSame") {
			m.Val = Clone(m.Val)
		} else {
			m.Val = Value(t, small, label+"DupVal")
		}
		v.Members = append(v.Members, m)
		return root, name
	case "truncate-array":
		v.Items = v.Items[:rapid.IntRange(0, len(v.Items)-1).Draw(t, label+"Trunc")]
		return root, name
	case "extend-array":
		var nv *ref.Value
		if len(v.Items) > 0 && rapid.Bool().Draw(t, label+"CopyLast") {
			nv = Clone(v.Items[len(v.Items)-1])
		} else {
			nv = Value(t, small, label+"Ext")
		}
		v.Items = append(v.Items, nv)
		return root, name
	case "reorder-keys":
		v.Members = rapid.Permutation(v.Members).Draw(t, label+"Perm")
		return root, name
	case "swap-items":
		i := rapid.IntRange(0, len(v.Items)-2).Draw(t, label+"Swap")
		v.Items[i], v.Items[i+1] = v.Items[i+1], v.Items[i]
		return root, name
	}
	return set(Value(t, small, label+"Rnd")), "replace-random"
}

// ReverseMembers / RotateMembers return copies with every object's members reordered.
func ReorderMembers(v *ref.Value, mode int) *ref.Value {
	c := Clone(v)
	var rec func(v *ref.Value)
	rec = func(v *ref.Value) {
		n := len(v.Members)
		if n > 1 {
			if mode == 0 {
				for i, j := 0, n-1; i < j; i, j = i+1, j-1 {
					v.Members[i], v.Members[j] = v.Members[j], v.Members[i]
				}
			} else {
				v.Members = append(v.Members[1:], v.Members[0])
			}
		}
		for _, it := range v.Items {
			rec(it)
		}
		for i := range v.Members {
			rec(v.Members[i].Val)
		}
	}
	rec(c)
	return c
}
