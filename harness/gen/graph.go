package gen

import (
	"fmt"
	"strconv"
	"strings"

	"pgregory.net/rapid"

	"verif/ref"
)

// Graph generator for C03 (also used by C09/C11/C15): up to 6 user types over the constructs
// @T, @A | @B, {type: "@T"}, {or: [...]}, allOf, additionalProperties and key shortcuts.
// Types are generated in order; type i refers to earlier types (acyclic) plus optional
// self-recursion through an optional property or an array.

type GraphOpts struct {
	MaxTypes  int
	Recursion bool
	// MixedRule: a list of alternatives (@A | @B) may also carry the rule type: "mixed", which
	// says what the list already says (not used where the AST is compared)
	MixedRule bool
}

type gctx struct {
	t          *rapid.T
	g          *ref.Graph
	order      []string
	setHints   map[*ref.SRule][]*ref.Value
	arrayHeavy bool
	hints      map[*ref.SNode][]*ref.Value // values the node is known to accept (regex samples, ...)
	keyType    int
	opts       GraphOpts
}

type GraphCase struct {
	G     *ref.Graph
	Order []string // type names in generation order (key types included)
	Hints map[*ref.SNode][]*ref.Value
	// SetHints: probe values for an inline rule set of an `or`, keyed by its first rule
	SetHints map[*ref.SRule][]*ref.Value
}

// (some keys need escape sequences when written: a quote, a backslash followed by a letter that
// would make an escape of its own, a tab)
var graphKeys = []string{"a", "b", "c", "id", "n", "x y", "é", "q\"r", "c:\\bin", "t\tu"}

func GenGraph(t *rapid.T, o GraphOpts, label string) *GraphCase {
	c := &gctx{t: t, g: &ref.Graph{Types: map[string]*ref.SNode{}}, hints: map[*ref.SNode][]*ref.Value{}, setHints: map[*ref.SRule][]*ref.Value{}, opts: o}
	n := rapid.IntRange(1, o.MaxTypes).Draw(t, label+"NTypes")
	// array-heavy graphs: several array types side by side whose items are positions with
	// overlapping alternatives, and item-count rules (several structured candidates alive at once)
	c.arrayHeavy = rapid.IntRange(0, 5).Draw(t, label+"ArrayHeavy") == 0
	if c.arrayHeavy && n < 4 {
		n = 4
	}
	for i := 0; i < n; i++ {
		name := fmt.Sprintf("@t%d", i)
		var node *ref.SNode
		switch k := rapid.IntRange(0, 11).Draw(t, label+"TypeKind"); {
		case c.arrayHeavy && i < 2:
			node = c.scalarType(label + "S")
		case c.arrayHeavy:
			node = c.arrayNode(i, name, 1, label+"A")
		case k == 10 && i >= 1:
			// a type that is nothing but a reference or a list of alternatives, possibly nullable
			// (positions naming it must accept what it accepts, null included)
			all := c.earlier(i, nil)
			perm := rapid.Permutation(all).Draw(t, label+"UnionPerm")
			node = &ref.SNode{Kind: ref.SRef, Names: perm[:rapid.IntRange(1, min(3, len(perm))).Draw(t, label+"UnionN")]}
			if rapid.Bool().Draw(t, label+"UnionNullable") {
				node.Rules = append(node.Rules, BoolRule("nullable", true))
			}
		case k == 11 && i >= 1:
			// a type whose root is a literal with an `or` rule (its alternatives become anonymous
			// types of the type's own schema object)
			node = c.orNode(i, label+"OrType")
		case k <= 2 || k >= 10:
			node = c.scalarType(label + "S")
		case k <= 7:
			node = c.objectNode(i, name, 2, true, label+"O")
		default:
			node = c.arrayNode(i, name, 2, label+"A")
		}
		c.g.Types[name] = node
		c.order = append(c.order, name)
	}
	c.g.KeysOptional = rapid.IntRange(0, 4).Draw(t, label+"KeysOpt") == 0
	// root: biased to an object that uses several types
	arrs := c.earlier(n, func(t *ref.SNode) bool { return t.Kind == ref.SArr })
	switch rk := rapid.IntRange(0, 5).Draw(t, label+"RootKind"); {
	case c.arrayHeavy && len(arrs) >= 2 && rk <= 3:
		perm := rapid.Permutation(arrs).Draw(t, label+"RootArrs")
		c.g.Root = &ref.SNode{Kind: ref.SRef, Names: perm[:rapid.IntRange(2, len(perm)).Draw(t, label+"RootArrN")]}
	case rk == 0:
		c.g.Root = c.valueNode(n, "", 2, false, label+"R")
	case rk == 1:
		c.g.Root = c.arrayNode(n, "", 2, label+"RA")
	default:
		c.g.Root = c.objectNode(n, "", 2, true, label+"RO")
	}
	return &GraphCase{G: c.g, Order: c.order, Hints: c.hints, SetHints: c.setHints}
}

func (c *gctx) draw(lo, hi int, label string) int { return rapid.IntRange(lo, hi).Draw(c.t, label) }

// scalarType: a light scalar type whose accepted set is easy to hit and to miss.
func (c *gctx) scalarType(label string) *ref.SNode {
	n := &ref.SNode{Kind: ref.SLit}
	switch c.draw(0, 6, label+"K") {
	case 0, 1: // integer range
		lo := c.draw(-5, 10, label+"Lo")
		hi := lo + c.draw(0, 10, label+"Hi")
		ex := lo + c.draw(0, hi-lo, label+"Ex")
		n.Lit, n.Tok = ref.KNumber, strconv.Itoa(ex)
		n.Rules = append(n.Rules, TokRule("min", strconv.Itoa(lo)), TokRule("max", strconv.Itoa(hi)))
		if c.draw(0, 3, label+"Excl") == 0 && ex > lo {
			n.Rules = append(n.Rules, BoolRule("exclusiveMinimum", true))
		}
		for _, v := range []int{lo, hi, ex, lo - 1, hi + 1} {
			c.hints[n] = append(c.hints[n], numVal(strconv.Itoa(v)))
		}
	case 2: // string length
		lo := c.draw(0, 3, label+"Lo")
		hi := lo + c.draw(0, 3, label+"Hi")
		s := strings.Repeat("s", lo+c.draw(0, hi-lo, label+"Ex"))
		n.Lit, n.Tok, n.Str = ref.KString, Quote(s), s
		n.Rules = append(n.Rules, TokRule("minLength", strconv.Itoa(lo)), TokRule("maxLength", strconv.Itoa(hi)))
		for _, l := range []int{lo, hi, hi + 1} {
			c.hints[n] = append(c.hints[n], strVal(strings.Repeat("q", l)))
		}
		if lo > 0 {
			c.hints[n] = append(c.hints[n], strVal(strings.Repeat("q", lo-1)))
		}
	case 3: // regex
		re := genRegex(c.t, 2, label+"Re")
		pat := "^" + re.pattern() + "$"
		ex := re.sample(c.t, label+"ReEx")
		n.Lit, n.Tok, n.Str = ref.KString, Quote(ex), ex
		n.Rules = append(n.Rules, ref.SRule{Name: "regex", ValKind: ref.RVScalar, Tok: jsonEscape(pat)})
		for i := 0; i < 3; i++ {
			c.hints[n] = append(c.hints[n], strVal(re.sample(c.t, fmt.Sprint(label, "ReH", i))))
		}
		c.hints[n] = append(c.hints[n], strVal(ex+"~"))
	case 4: // enum of mixed kinds
		items := []ref.EnumItem{{Kind: ref.KNumber, Tok: "1"}, {Kind: ref.KString, Tok: `"1"`, Str: "1"}, {Kind: ref.KTrue, Tok: "true"}, {Kind: ref.KNull, Tok: "null"}, {Kind: ref.KString, Tok: `"on"`, Str: "on"}, {Kind: ref.KNumber, Tok: "2.5"}}
		items = rapid.Permutation(items).Draw(c.t, label+"EnumPerm")[:c.draw(1, 4, label+"EnumN")]
		ex := items[c.draw(0, len(items)-1, label+"EnumEx")]
		n.Lit, n.Tok, n.Str = ex.Kind, ex.Tok, ex.Str
		n.Rules = append(n.Rules, ref.SRule{Name: "enum", ValKind: ref.RVEnum, Enum: items})
		for _, it := range items {
			c.hints[n] = append(c.hints[n], &ref.Value{Kind: it.Kind, Tok: it.Tok, Str: it.Str})
		}
	case 5:
		n.Lit, n.Tok = ref.KNumber, "1.5"
	default:
		n.Lit, n.Tok = ref.KTrue, "true"
	}
	return n
}

// keyTypeNode creates and registers a string type usable as key shortcut and returns its name.
func (c *gctx) keyTypeNode(label string, kind int) string {
	name := fmt.Sprintf("@k%d", c.keyType)
	c.keyType++
	n := &ref.SNode{Kind: ref.SLit, Lit: ref.KString}
	switch kind {
	case 0:
		n.Tok, n.Str = `"kab"`, "kab"
		n.Rules = append(n.Rules, ref.SRule{Name: "regex", ValKind: ref.RVScalar, Tok: `"^k[a-c]{2,3}$"`})
		for _, s := range []string{"kab", "kcc", "kabc", "kaaa"} {
			c.hints[n] = append(c.hints[n], strVal(s))
		}
	case 1:
		n.Tok, n.Str = `"L1234"`, "L1234"
		n.Rules = append(n.Rules, TokRule("minLength", "5"), TokRule("maxLength", "6"))
		for _, s := range []string{"L1234", "Labcde", "LLLLL"} {
			c.hints[n] = append(c.hints[n], strVal(s))
		}
	case 3: // a format type
		n.Tok, n.Str = `"2020-01-01"`, "2020-01-01"
		n.Rules = append(n.Rules, StrRule("type", "date"))
		for _, s := range []string{"2020-01-01", "1999-12-31", "2024-02-29"} {
			c.hints[n] = append(c.hints[n], strVal(s))
		}
	case 4: // const: only the example itself
		n.Tok, n.Str = `"constkey"`, "constkey"
		n.Rules = append(n.Rules, BoolRule("const", true))
		c.hints[n] = append(c.hints[n], strVal("constkey"))
	case 5: // an example that ends with an escaped quote
		n.Tok, n.Str = `"q\""`, `q"`
		n.Rules = append(n.Rules, ref.SRule{Name: "regex", ValKind: ref.RVScalar, Tok: `"^q\"+$"`})
		for _, s := range []string{`q"`, `q""`} {
			c.hints[n] = append(c.hints[n], strVal(s))
		}
	case 6:
		n.Tok, n.Str = `"ab@cd.ef"`, "ab@cd.ef"
		n.Rules = append(n.Rules, StrRule("type", "email"))
		for _, s := range []string{"ab@cd.ef", "x.y@example.com"} {
			c.hints[n] = append(c.hints[n], strVal(s))
		}
	case 8: // no rule at all: the example itself is the one key known to be admitted (DESIGN §4)
		n.Tok, n.Str = `"plain/key/x"`, "plain/key/x"
		c.hints[n] = append(c.hints[n], strVal("plain/key/x"))
	case 7: // a rule that has nothing to say about strings next to length bounds
		n.Tok, n.Str = `"nnnnnnnnn"`, "nnnnnnnnn"
		n.Rules = append(n.Rules, TokRule("minLength", "9"), BoolRule("nullable", true), TokRule("maxLength", "9"))
		for _, s := range []string{"nnnnnnnnn", "123456789"} {
			c.hints[n] = append(c.hints[n], strVal(s))
		}
	default:
		n.Tok, n.Str = `"kx"`, "kx"
		n.Rules = append(n.Rules, ref.SRule{Name: "enum", ValKind: ref.RVEnum, Enum: []ref.EnumItem{{Kind: ref.KString, Tok: `"kx"`, Str: "kx"}, {Kind: ref.KString, Tok: `"ky"`, Str: "ky"}}})
		for _, s := range []string{"kx", "ky"} {
			c.hints[n] = append(c.hints[n], strVal(s))
		}
	}
	c.g.Types[name] = n
	c.order = append(c.order, name)
	if c.draw(0, 3, label+"Alias") == 0 {
		// the shortcut names a reference to the string type (or a list that also names itself)
		alias := fmt.Sprintf("@ka%d", c.keyType)
		a := &ref.SNode{Kind: ref.SRef, Names: []string{name}}
		switch c.draw(0, 2, label+"AliasSelf") {
		case 0:
			a.Names = append(a.Names, alias)
		case 1:
			// a diamond: two further aliases of the same string type
			s1, s2 := alias+"s", alias+"l"
			c.g.Types[s1] = &ref.SNode{Kind: ref.SRef, Names: []string{name}}
			c.g.Types[s2] = &ref.SNode{Kind: ref.SRef, Names: []string{name}}
			c.order = append(c.order, s1, s2)
			a.Names = []string{s1, s2}
		}
		c.g.Types[alias] = a
		c.order = append(c.order, alias)
		c.hints[a] = c.hints[n]
		return alias
	}
	return name
}

func (c *gctx) earlier(i int, pred func(*ref.SNode) bool) []string {
	var out []string
	for j := 0; j < i; j++ {
		name := fmt.Sprintf("@t%d", j)
		if t := c.g.Types[name]; t != nil && (pred == nil || pred(t)) {
			out = append(out, name)
		}
	}
	return out
}

func isScalarRoot(n *ref.SNode) bool { return n.Kind == ref.SLit }
func isObjectRoot(n *ref.SNode) bool { return n.Kind == ref.SObj }

// mergedKeys returns the keys an object type contributes through allOf (transitively).
func (c *gctx) mergedKeys(n *ref.SNode) (keys map[string]bool, ap string, hasAP bool) {
	keys = map[string]bool{}
	for _, p := range n.Props {
		keys[p.KeyTok] = true
	}
	if r := n.Rule("additionalProperties"); r != nil {
		ap, hasAP = r.Tok, true
	}
	if r := n.Rule("allOf"); r != nil {
		for _, name := range r.AllOf {
			k2, ap2, has2 := c.mergedKeys(c.g.Types[name])
			for k := range k2 {
				keys[k] = true
			}
			if has2 && !hasAP {
				ap, hasAP = ap2, true
			}
		}
	}
	return
}

func (c *gctx) objectNode(i int, self string, depth int, top bool, label string) *ref.SNode {
	n := &ref.SNode{Kind: ref.SObj}
	used := map[string]bool{}
	cnt := c.draw(0, 3, label+"N")
	if top && cnt == 0 {
		cnt = 1
	}
	for k := 0; k < cnt; k++ {
		key := rapid.SampledFrom(graphKeys).Draw(c.t, label+"Key")
		tok := Quote(key)
		if used[tok] {
			continue
		}
		used[tok] = true
		val := c.valueNode(i, self, depth-1, true, fmt.Sprint(label, "V", k))
		n.Props = append(n.Props, ref.SProp{Key: key, KeyTok: tok, Val: val})
	}
	// optional self recursion
	if self != "" && c.opts.Recursion && c.draw(0, 3, label+"Self") == 0 && !used[`"self"`] {
		used[`"self"`] = true
		v := &ref.SNode{Kind: ref.SRef, Names: []string{self}, Rules: []ref.SRule{BoolRule("optional", true)}}
		n.Props = append(n.Props, ref.SProp{Key: "self", KeyTok: `"self"`, Val: v})
	}
	apTok, hasAP := "", false
	// allOf
	if cands := c.earlier(i, isObjectRoot); len(cands) > 0 && c.draw(0, 2, label+"AllOf") == 0 {
		var parents []string
		for _, cand := range rapid.Permutation(cands).Draw(c.t, label+"AllOfPerm") {
			if len(parents) == 2 {
				break
			}
			keys, ap, has := c.mergedKeys(c.g.Types[cand])
			conflict := false
			for k := range keys {
				if used[k] || strings.HasPrefix(k, "@") {
					conflict = true
				}
			}
			if has && hasAP && ap != apTok {
				conflict = true
			}
			if conflict {
				continue
			}
			for k := range keys {
				used[k] = true
			}
			if has {
				apTok, hasAP = ap, true
			}
			parents = append(parents, cand)
		}
		if len(parents) > 0 {
			n.Rules = append(n.Rules, ref.SRule{Name: "allOf", ValKind: ref.RVAllOf, AllOf: parents, AllOfList: len(parents) > 1 || c.draw(0, 1, label+"AllOfList") == 0})
		}
	}
	// additionalProperties (own): only when no parent brings a different one
	if c.draw(0, 2, label+"AP") == 0 {
		modes := []string{"true", "false", `"any"`, `"string"`, `"integer"`, `"float"`, `"boolean"`, `"null"`, `"object"`, `"array"`}
		for _, e := range c.earlier(i, nil) {
			modes = append(modes, `"`+e+`"`)
		}
		m := rapid.SampledFrom(modes).Draw(c.t, label+"APMode")
		if !hasAP || m == apTok {
			n.Rules = append(n.Rules, TokRule("additionalProperties", m))
			apTok, hasAP = m, true
		}
	}
	// key shortcut entry (at most one per object, and none when a parent has one)
	hasShortcut := false
	for k := range used {
		if strings.HasPrefix(k, "@") {
			hasShortcut = true
		}
	}
	if !hasShortcut && c.draw(0, 3, label+"Shortcut") == 0 {
		// one or two shortcut entries whose key types accept disjoint key sets (regex ^k[a-c]{2,3}$,
		// length 5..6, enum kx|ky, a date, a constant of 8 characters, q followed by quotes, an
		// e-mail address of more than 6 characters, length 9)
		kinds := rapid.Permutation([]int{0, 1, 2, 0, 1, 2, 3, 4, 5, 6, 7, 8}).Draw(c.t, label+"KTKinds")
		if kinds[0] == kinds[1] {
			kinds[1] = (kinds[0] + 1) % 9
		}
		cnt := 1 + c.draw(0, 1, label+"TwoShortcuts")
		for k := 0; k < cnt; k++ {
			kn := c.keyTypeNode(fmt.Sprint(label, "KT", k), kinds[k])
			val := c.valueNode(i, self, 0, true, fmt.Sprint(label, "SV", k))
			pos := c.draw(0, len(n.Props), fmt.Sprint(label, "SPos", k))
			np := append([]ref.SProp{}, n.Props[:pos]...)
			np = append(np, ref.SProp{Key: kn, KeyTok: kn, Shortcut: true, Val: val})
			n.Props = append(np, n.Props[pos:]...)
			if k == 0 && !used[`"`+kn+`"`] && c.draw(0, 3, label+"LiteralTwin") == 0 {
				// a property whose NAME is spelled like the shortcut ("@k": ...): an ordinary key, with
				// requirements of its own
				tv := &ref.SNode{Kind: ref.SLit, Lit: ref.KNumber, Tok: "7"}
				if c.draw(0, 1, label+"LiteralTwinOptional") == 0 {
					tv.Rules = append(tv.Rules, BoolRule("optional", true))
				}
				tp := ref.SProp{Key: kn, KeyTok: `"` + kn + `"`, Val: tv}
				used[tp.KeyTok] = true
				if c.draw(0, 1, label+"LiteralTwinFirst") == 0 {
					n.Props = append([]ref.SProp{tp}, n.Props...)
				} else {
					n.Props = append(n.Props, tp)
				}
			}
		}
	}
	return n
}

func (c *gctx) arrayNode(i int, self string, depth int, label string) *ref.SNode {
	n := &ref.SNode{Kind: ref.SArr}
	cnt := c.draw(0, 2, label+"N")
	if c.arrayHeavy {
		cnt = c.draw(1, 3, label+"NH")
	}
	for k := 0; k < cnt; k++ {
		n.Items = append(n.Items, c.valueNode(i, self, depth-1, false, fmt.Sprint(label, "I", k)))
	}
	if self != "" && c.opts.Recursion && c.draw(0, 3, label+"Self") == 0 {
		n.Items = append(n.Items, &ref.SNode{Kind: ref.SRef, Names: []string{self}})
	}
	if c.arrayHeavy && len(n.Items) > 0 {
		switch c.draw(0, 3, label+"CountRule") {
		case 0:
			n.Rules = append(n.Rules, TokRule("minItems", strconv.Itoa(c.draw(0, len(n.Items), label+"Min"))))
		case 1:
			n.Rules = append(n.Rules, TokRule("maxItems", strconv.Itoa(len(n.Items)+c.draw(0, 2, label+"Max"))))
		case 2:
			n.Rules = append(n.Rules, TokRule("minItems", strconv.Itoa(c.draw(0, len(n.Items), label+"Min"))),
				TokRule("maxItems", strconv.Itoa(len(n.Items)+c.draw(0, 2, label+"Max"))))
		}
		return n
	}
	if len(n.Items) > 0 && c.draw(0, 3, label+"ItemsRule") == 0 {
		n.Rules = append(n.Rules, TokRule("maxItems", strconv.Itoa(len(n.Items)+c.draw(0, 2, label+"Max"))))
	}
	return n
}

// valueNode draws a value position.
func (c *gctx) valueNode(i int, self string, depth int, isProp bool, label string) *ref.SNode {
	all := c.earlier(i, nil)
	scal := c.earlier(i, isScalarRoot)
	k := c.draw(0, 11, label+"K")
	var n *ref.SNode
	switch {
	case k <= 2 && len(all) > 0: // @T
		n = &ref.SNode{Kind: ref.SRef, Names: []string{rapid.SampledFrom(all).Draw(c.t, label+"T")}}
	case k <= 5 && len(all) > 1: // @A | @B [| @C]
		perm := rapid.Permutation(all).Draw(c.t, label+"Perm")
		cnt := 2
		if len(perm) > 2 && c.draw(0, 2, label+"Three") == 0 {
			cnt = 3
		}
		names := append([]string(nil), perm[:cnt]...)
		if c.draw(0, 5, label+"Dup") == 0 {
			names = append(names, names[0]) // the same type named twice: @a | @b | @a
		}
		n = &ref.SNode{Kind: ref.SRef, Names: names}
		if c.opts.MixedRule && c.draw(0, 5, label+"Mixed") == 0 {
			n.Rules = append(n.Rules, StrRule("type", "mixed"))
		}
	case k == 6 && len(scal) > 0: // literal with {type: "@T"}
		tn := rapid.SampledFrom(scal).Draw(c.t, label+"TT")
		tt := c.g.Types[tn]
		n = &ref.SNode{Kind: ref.SLit, Lit: tt.Lit, Tok: tt.Tok, Str: tt.Str, Rules: []ref.SRule{StrRule("type", tn)}}
	case k <= 8: // literal with {or: [...]}
		n = c.orNode(i, label+"Or")
	case k == 9 && depth > 0:
		n = c.objectNode(i, self, depth, false, label+"O")
	case k == 10 && depth > 0:
		n = c.arrayNode(i, self, depth, label+"A")
	default:
		n = c.scalarType(label + "S")
		if c.draw(0, 1, label+"Plain") == 0 {
			n.Rules = nil
		}
	}
	if isProp {
		switch c.draw(0, 7, label+"Opt") {
		case 0, 1:
			n.Rules = append(n.Rules, BoolRule("optional", true))
		case 2:
			n.Rules = append(n.Rules, BoolRule("optional", false)) // written out: required whatever the default of the text is
		}
	}
	if c.draw(0, 4, label+"Nullable") == 0 {
		n.Rules = append(n.Rules, BoolRule("nullable", true))
	}
	return n
}

func kindExample(kind string) (ref.Kind, string, string) {
	switch kind {
	case "string":
		return ref.KString, `"str"`, "str"
	case "integer":
		return ref.KNumber, "3", ""
	case "float":
		return ref.KNumber, "2.5", ""
	case "boolean":
		return ref.KFalse, "false", ""
	}
	return ref.KNull, "null", ""
}

// orNode: a literal example with an `or` rule; the example satisfies a scalar member.
func (c *gctx) orNode(i int, label string) *ref.SNode {
	n := &ref.SNode{Kind: ref.SLit}
	all := c.earlier(i, nil)
	cnt := c.draw(2, 4, label+"N")
	var items []ref.OrItem
	usedNames := map[string]bool{}
	haveExample := false
	for k := 0; k < cnt || !haveExample; k++ {
		if k > 8 {
			break
		}
		switch m := c.draw(0, 5, fmt.Sprint(label, "M", k)); {
		case m <= 1 && len(all) > 0:
			name := rapid.SampledFrom(all).Draw(c.t, fmt.Sprint(label, "T", k))
			if usedNames[name] {
				continue
			}
			usedNames[name] = true
			if c.draw(0, 4, fmt.Sprint(label, "RefSet", k)) == 0 {
				// the reference written as a rule set, possibly admitting null as well
				rs := []ref.SRule{StrRule("type", name)}
				if c.draw(0, 1, fmt.Sprint(label, "RefSetNull", k)) == 0 {
					rs = append(rs, BoolRule("nullable", true))
				}
				items = append(items, ref.OrItem{Rules: rs})
			} else {
				items = append(items, ref.OrItem{Name: name})
			}
			if t := c.g.Types[name]; !haveExample && t.Kind == ref.SLit {
				n.Lit, n.Tok, n.Str = t.Lit, t.Tok, t.Str
				haveExample = true
			}
		case m <= 3:
			kind := rapid.SampledFrom([]string{"string", "integer", "float", "boolean", "null"}).Draw(c.t, fmt.Sprint(label, "Kind", k))
			if usedNames[kind] {
				continue
			}
			usedNames[kind] = true
			items = append(items, ref.OrItem{Name: kind})
			if !haveExample {
				n.Lit, n.Tok, n.Str = kindExample(kind)
				haveExample = true
			}
		default: // inline rule set
			if c.draw(0, 2, fmt.Sprint(label, "Rich", k)) == 0 {
				// a rule set taken from the scalar-rule generator (bounds with exclusive flags, lengths,
				// regex, precision, formats ...) with an explicit type for its kind
				sn, probes := ScalarCase(c.t, fmt.Sprint(label, "RichSet", k))
				if sn.Rule("enum") == nil && sn.Rule("const") == nil && sn.Rule("nullable") == nil && len(sn.Rules) > 0 {
					rules := append([]ref.SRule(nil), sn.Rules...)
					if sn.TypeName() == "" {
						tn := map[ref.Kind]string{ref.KString: "string", ref.KTrue: "boolean", ref.KFalse: "boolean", ref.KNull: "null"}[sn.Lit]
						if sn.Lit == ref.KNumber {
							tn = "float"
							if ref.SchemaNumberIsInteger(sn) {
								tn = "integer"
							}
							if sn.Rule("precision") != nil {
								tn = "decimal"
							}
						}
						rules = append(rules, StrRule("type", tn))
					}
					items = append(items, ref.OrItem{Rules: rules})
					for _, p := range probes {
						if p.Val.Kind != ref.KObject && p.Val.Kind != ref.KArray {
							c.setHints[&rules[0]] = append(c.setHints[&rules[0]], p.Val)
						}
					}
					if !haveExample {
						n.Lit, n.Tok, n.Str = sn.Lit, sn.Tok, sn.Str
						haveExample = true
					}
					continue
				}
			}
			switch c.draw(0, 3, fmt.Sprint(label, "Set", k)) {
			case 3:
				// an object alternative: nothing names a key, so additionalProperties decides every key
				ap := rapid.SampledFrom([]string{"true", `"any"`, `"integer"`, `"string"`, "false", "", `"null"`, `"boolean"`}).Draw(c.t, fmt.Sprint(label, "SetAP", k))
				rules := []ref.SRule{StrRule("type", "object")}
				if ap != "" {
					rules = append(rules, TokRule("additionalProperties", ap))
					if c.draw(0, 1, fmt.Sprint(label, "SetAPFirst", k)) == 0 {
						rules[0], rules[1] = rules[1], rules[0]
					}
				}
				if nl := c.draw(0, 3, fmt.Sprint(label, "SetNullable", k)); nl <= 1 {
					// nullable written out on the object alternative (true: null is one more member of the union)
					rules = append(rules, TokRule("nullable", []string{"true", "false"}[nl]))
					if c.draw(0, 1, fmt.Sprint(label, "SetNullableFirst", k)) == 0 {
						rules[0], rules[len(rules)-1] = rules[len(rules)-1], rules[0]
					}
				}
				items = append(items, ref.OrItem{Rules: rules})
				for _, d := range []string{`{}`, `{"z":1}`, `{"z":"s"}`, `{"y":null,"z":2}`, `{"z":true}`, `{"a":{}}`, `null`} {
					v, _ := ref.Parse([]byte(d))
					c.setHints[&rules[0]] = append(c.setHints[&rules[0]], v)
				}
			case 0:
				lo := c.draw(0, 5, fmt.Sprint(label, "Lo", k))
				hi := lo + c.draw(0, 5, fmt.Sprint(label, "Hi", k))
				items = append(items, ref.OrItem{Rules: []ref.SRule{StrRule("type", "integer"), TokRule("min", strconv.Itoa(lo)), TokRule("max", strconv.Itoa(hi))}})
				if !haveExample {
					n.Lit, n.Tok = ref.KNumber, strconv.Itoa(lo)
					haveExample = true
				}
			case 1:
				ml := c.draw(1, 3, fmt.Sprint(label, "ML", k))
				items = append(items, ref.OrItem{Rules: []ref.SRule{StrRule("type", "string"), TokRule("maxLength", strconv.Itoa(ml))}})
				if !haveExample {
					n.Lit, n.Tok, n.Str = ref.KString, `"z"`, "z"
					haveExample = true
				}
			default:
				items = append(items, ref.OrItem{Rules: []ref.SRule{{Name: "enum", ValKind: ref.RVEnum, Enum: []ref.EnumItem{{Kind: ref.KNumber, Tok: "7"}, {Kind: ref.KString, Tok: `"seven"`, Str: "seven"}}}}})
				if !haveExample {
					n.Lit, n.Tok = ref.KNumber, "7"
					haveExample = true
				}
			}
		}
	}
	if len(items) < 2 {
		items = append(items, ref.OrItem{Name: "null"})
		if usedNames["null"] {
			items[len(items)-1] = ref.OrItem{Name: "boolean"}
		}
	}
	if !haveExample {
		n.Lit, n.Tok = ref.KNull, "null"
	}
	n.Rules = []ref.SRule{{Name: "or", ValKind: ref.RVOr, Or: items}}
	return n
}

// ---------------------------------------------------------------------------------------
// instances

// GraphInstance draws a document aimed at being accepted at node n.
func (gc *GraphCase) Instance(t *rapid.T, n *ref.SNode, keysOpt bool, budget int, label string) *ref.Value {
	g := gc.G
	if budget < 0 {
		// out of budget below a required inline container (e.g. a type without a finite inhabitant
		// because an object inherits from a type that encloses it): stop here
		switch n.Kind {
		case ref.SObj:
			return &ref.Value{Kind: ref.KObject}
		case ref.SArr:
			return &ref.Value{Kind: ref.KArray}
		}
		return Null()
	}
	if v, ok := n.BoolRule("nullable"); ok && v && rapid.IntRange(0, 5).Draw(t, label+"Null") == 0 {
		return Null()
	}
	typeInst := func(name string) *ref.Value {
		tn := g.Types[name]
		if tn == nil || budget <= 0 {
			return Null()
		}
		return gc.Instance(t, tn, false, budget-1, label+"T")
	}
	if n.Kind == ref.SRef {
		return typeInst(rapid.SampledFrom(n.Names).Draw(t, label+"Alt"))
	}
	if tn := n.TypeName(); strings.HasPrefix(tn, "@") {
		return typeInst(tn)
	}
	if or := n.Rule("or"); or != nil {
		it := or.Or[rapid.IntRange(0, len(or.Or)-1).Draw(t, label+"OrAlt")]
		switch {
		case strings.HasPrefix(it.Name, "@"):
			return typeInst(it.Name)
		case it.Name != "":
			k, _, _ := kindExample(it.Name)
			if it.Name == "integer" {
				return numVal(IntTok(t, true, label+"OI"))
			}
			if it.Name == "float" {
				return numVal(FloatTok(t, true, label+"OF"))
			}
			return ScalarOfKind(t, k, label+"OK")
		default:
			if ps := (&ref.SNode{Rules: it.Rules}); strings.HasPrefix(ps.TypeName(), "@") {
				if v, ok := ps.BoolRule("nullable"); ok && v && rapid.Bool().Draw(t, label+"RSNull") {
					return Null()
				}
				return typeInst(ps.TypeName())
			}
			if len(it.Rules) > 0 {
				if hs := gc.SetHints[&it.Rules[0]]; len(hs) > 0 {
					return Clone(rapid.SampledFrom(hs).Draw(t, label+"SH"))
				}
			}
			return ruleSetInstance(t, it.Rules, label+"RS")
		}
	}
	if n.IsAny() {
		return Value(t, DocOpts{Depth: 1, Width: 2, Exp: true, StrLen: 3}, label+"Any")
	}
	switch n.Kind {
	case ref.SLit:
		if hs := gc.Hints[n]; len(hs) > 0 && rapid.IntRange(0, 3).Draw(t, label+"Hint") > 0 {
			return Clone(rapid.SampledFrom(hs).Draw(t, label+"H"))
		}
		if len(n.Rules) == 0 || rapid.Bool().Draw(t, label+"Ex") {
			if len(n.Rules) == 0 {
				return ScalarOfKind(t, n.Lit, label+"K")
			}
			return &ref.Value{Kind: n.Lit, Tok: n.Tok, Str: n.Str}
		}
		return ruleSetInstance(t, n.Rules, label+"RS")
	case ref.SArr:
		v := &ref.Value{Kind: ref.KArray}
		if len(n.Items) == 0 || budget <= 0 {
			return v
		}
		max := len(n.Items) + 2
		if r := n.Rule("maxItems"); r != nil {
			max, _ = strconv.Atoi(r.Tok)
			if rapid.IntRange(0, 5).Draw(t, label+"OverMax") == 0 {
				max++
			}
		}
		cnt := rapid.IntRange(0, max).Draw(t, label+"Len")
		for i := 0; i < cnt; i++ {
			j := i
			if j >= len(n.Items) {
				j = len(n.Items) - 1
			}
			v.Items = append(v.Items, gc.Instance(t, n.Items[j], keysOpt, budget-1, label+"I"))
		}
		return v
	case ref.SObj:
		return gc.objectInstance(t, n, keysOpt, budget, label)
	}
	return Null()
}

func ruleSetInstance(t *rapid.T, rules []ref.SRule, label string) *ref.Value {
	pseudo := &ref.SNode{Rules: rules}
	if e := pseudo.Rule("enum"); e != nil && len(e.Enum) > 0 {
		it := rapid.SampledFrom(e.Enum).Draw(t, label+"E")
		return &ref.Value{Kind: it.Kind, Tok: it.Tok, Str: it.Str}
	}
	if mn, mx := pseudo.Rule("min"), pseudo.Rule("max"); mn != nil || mx != nil {
		lo, hi := -3, 12
		if mn != nil {
			if v, err := strconv.Atoi(mn.Tok); err == nil && v > -1000000 && v < 1000000 {
				lo = v
			}
		}
		if mx != nil {
			if v, err := strconv.Atoi(mx.Tok); err == nil && v > -1000000 && v < 1000000 {
				hi = v
			}
		}
		if hi < lo {
			hi = lo
		}
		return numVal(strconv.Itoa(rapid.IntRange(lo-1, hi+1).Draw(t, label+"N")))
	}
	if mn, mx := pseudo.Rule("minLength"), pseudo.Rule("maxLength"); mn != nil || mx != nil {
		lo, hi := 0, 4
		if mn != nil {
			lo, _ = strconv.Atoi(mn.Tok)
		}
		if mx != nil {
			hi, _ = strconv.Atoi(mx.Tok)
		}
		if hi < lo {
			hi = lo
		}
		return strVal(strings.Repeat("w", rapid.IntRange(lo, hi+1).Draw(t, label+"L")))
	}
	switch pseudo.TypeName() {
	case "integer":
		return numVal(IntTok(t, true, label+"I"))
	case "float":
		return numVal(FloatTok(t, true, label+"F"))
	case "boolean":
		return ScalarOfKind(t, ref.KTrue, label+"B")
	case "null":
		return Null()
	}
	return strVal("str")
}

type mprop struct {
	p       *ref.SProp
	keysOpt bool
}

func (gc *GraphCase) merged(n *ref.SNode, keysOpt bool, depth int) (props []mprop, ap *ref.SRule) {
	ap = n.Rule("additionalProperties")
	for i := range n.Props {
		props = append(props, mprop{&n.Props[i], keysOpt})
	}
	if r := n.Rule("allOf"); r != nil && depth < 8 {
		for _, name := range r.AllOf {
			if t := gc.G.Types[name]; t != nil {
				pp, pap := gc.merged(t, false, depth+1)
				props = append(props, pp...)
				if ap == nil {
					ap = pap
				}
			}
		}
	}
	return
}

func (gc *GraphCase) objectInstance(t *rapid.T, n *ref.SNode, keysOpt bool, budget int, label string) *ref.Value {
	v := &ref.Value{Kind: ref.KObject}
	props, ap := gc.merged(n, keysOpt, 0)
	for _, mp := range props {
		p := mp.p
		req := !mp.keysOpt
		if o, present := p.Val.BoolRule("optional"); present {
			req = !o
		}
		if !req && (budget <= 0 || rapid.Bool().Draw(t, label+"Omit")) {
			continue
		}
		if budget <= 0 && p.Val.Kind == ref.SRef {
			// out of budget on a required reference: still emit something
		}
		if p.Shortcut {
			kt := gc.G.Types[p.Key]
			cnt := 1
			if rapid.IntRange(0, 9).Draw(t, label+"TwoKeys") == 0 {
				cnt = 2
			}
			for k := 0; k < cnt; k++ {
				key := "kab"
				if hs := gc.Hints[kt]; len(hs) > 0 {
					key = rapid.SampledFrom(hs).Draw(t, label+"SK").Str
				}
				v.Members = append(v.Members, ref.Member{KeyTok: Quote(key), Key: key, Val: gc.Instance(t, p.Val, mp.keysOpt, budget-1, label+"SV")})
			}
			continue
		}
		v.Members = append(v.Members, ref.Member{KeyTok: p.KeyTok, Key: p.Key, Val: gc.Instance(t, p.Val, mp.keysOpt, budget-1, label+"V")})
	}
	// additional keys
	if rapid.IntRange(0, 2).Draw(t, label+"Extra") == 0 {
		extraKeys := []string{"zz", "extra", "a", "kab", "é"}
		for _, mp := range props {
			if mp.p.Shortcut {
				// a document key spelled like the name of the shortcut's type is an ordinary unknown key
				extraKeys = append(extraKeys, mp.p.Key, mp.p.Key)
			}
		}
		key := rapid.SampledFrom(extraKeys).Draw(t, label+"ExtraKey")
		var val *ref.Value
		mode := ""
		if ap != nil {
			mode = strings.Trim(ap.Tok, `"`)
		}
		switch {
		case strings.HasPrefix(mode, "@") && budget > 0 && gc.G.Types[mode] != nil:
			val = gc.Instance(t, gc.G.Types[mode], false, budget-1, label+"APT")
		case mode == "string" || mode == "boolean" || mode == "null":
			k, _, _ := kindExample(mode)
			val = ScalarOfKind(t, k, label+"APK")
		case mode == "integer":
			val = numVal(IntTok(t, true, label+"API"))
		case mode == "float":
			val = numVal(FloatTok(t, true, label+"APF"))
		case mode == "object":
			val = &ref.Value{Kind: ref.KObject, Members: []ref.Member{{KeyTok: `"q"`, Key: "q", Val: numVal("1")}}}
		case mode == "array":
			val = &ref.Value{Kind: ref.KArray, Items: []*ref.Value{strVal("q")}}
		default:
			val = Value(t, DocOpts{Depth: 1, Width: 2, Exp: true, StrLen: 3}, label+"APAny")
		}
		if rapid.IntRange(0, 4).Draw(t, label+"ExtraWrong") == 0 {
			val = Value(t, DocOpts{Depth: 1, Width: 2, Exp: true, StrLen: 3}, label+"APWrong")
		}
		v.Members = append(v.Members, ref.Member{KeyTok: Quote(key), Key: key, Val: val})
	}
	ShuffleMembers(t, v, label+"Shuf")
	return v
}

// Spec renders the graph as schema text + added types.
type PrintedGraph struct {
	Schema string
	Types  []NamedText
}

type NamedText struct {
	Name string
	Text string
}

func (gc *GraphCase) Print(st *Style) PrintedGraph {
	pg := PrintedGraph{Schema: string(PrintSchema(gc.G.Root, st))}
	for _, name := range gc.Order {
		pg.Types = append(pg.Types, NamedText{name, string(PrintSchema(gc.G.Types[name], st))})
	}
	return pg
}
