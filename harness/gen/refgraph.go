package gen

import (
	"fmt"

	"pgregory.net/rapid"

	"verif/ref"
)

// GenRefGraph draws a directed type graph for C09: up to 6 named types with every reference
// form (required / optional property, array item, @A | @B member, {type: "@T"} on a literal,
// allOf parent, additionalProperties type, key shortcut); references may point forwards,
// backwards or to the type itself, and some names may be left undefined.
func GenRefGraph(t *rapid.T, label string) *GraphCase {
	g := &ref.Graph{Types: map[string]*ref.SNode{}}
	gc := &GraphCase{G: g, Hints: map[*ref.SNode][]*ref.Value{}}
	n := rapid.IntRange(2, 6).Draw(t, label+"N")
	names := make([]string, n)
	leaf := make([]bool, n)
	alias := make([]bool, n) // a type that is nothing but a reference: @a, @a | @b (may name itself)
	for i := range names {
		names[i] = fmt.Sprintf("@t%d", i)
		k := rapid.IntRange(0, 9).Draw(t, fmt.Sprint(label, "Leaf", i))
		leaf[i] = k <= 1
		alias[i] = k == 2 || k == 3
	}
	var leaves, objects []string
	for i, nm := range names {
		if leaf[i] {
			leaves = append(leaves, nm)
		} else if !alias[i] {
			objects = append(objects, nm)
		}
	}
	// aliases of scalar leaves (a list that may name itself first or last): usable wherever a scalar
	// type is, e.g. behind {type: "@al0"} on a literal
	var leafAliases []string
	if len(leaves) > 0 && rapid.IntRange(0, 2).Draw(t, label+"LeafAlias") == 0 {
		al := "@al0"
		lf := rapid.SampledFrom(leaves).Draw(t, label+"LeafAliasOf")
		a := &ref.SNode{Kind: ref.SRef, Names: [][]string{{lf}, {al, lf}, {lf, al}}[rapid.IntRange(0, 2).Draw(t, label+"LeafAliasForm")]}
		g.Types[al] = a
		gc.Order = append(gc.Order, al)
		leafAliases = append(leafAliases, al)
	}
	missing := rapid.IntRange(0, 5).Draw(t, label+"Missing") == 0
	pick := func(l string) string {
		if missing && rapid.IntRange(0, 7).Draw(t, l+"Miss") == 0 {
			return rapid.SampledFrom([]string{"@missing", "@gone"}).Draw(t, l+"MissName")
		}
		return rapid.SampledFrom(names).Draw(t, l)
	}
	var plainRefNode func(l string) *ref.SNode
	refNode := func(l string) *ref.SNode {
		n := plainRefNode(l)
		if n.Kind == ref.SRef && rapid.IntRange(0, 5).Draw(t, l+"Nullable") == 0 {
			// nullable written on a reference: null becomes one more admitted value, the reference
			// stays what it is (a required reference is no optional property, array or alternative)
			n.Rules = append(n.Rules, BoolRule("nullable", rapid.IntRange(0, 3).Draw(t, l+"NullableValue") != 0))
		}
		return n
	}
	plainRefNode = func(l string) *ref.SNode {
		switch k := rapid.IntRange(0, 9).Draw(t, l+"Form"); {
		case k <= 3:
			return &ref.SNode{Kind: ref.SRef, Names: []string{pick(l + "A")}}
		case k <= 5:
			a, b := pick(l+"A"), pick(l+"B")
			if a == b {
				return &ref.SNode{Kind: ref.SRef, Names: []string{a}}
			}
			if rapid.IntRange(0, 3).Draw(t, l+"Three") == 0 {
				if c := pick(l + "C"); c != a && c != b {
					return &ref.SNode{Kind: ref.SRef, Names: []string{a, b, c}}
				}
			}
			return &ref.SNode{Kind: ref.SRef, Names: []string{a, b}}
		case k == 6:
			return &ref.SNode{Kind: ref.SArr, Items: []*ref.SNode{{Kind: ref.SRef, Names: []string{pick(l + "A")}}}}
		case k == 7 && len(leaves) > 0:
			ln := rapid.SampledFrom(append(append([]string(nil), leaves...), leafAliases...)).Draw(t, l+"Leaf")
			if len(leaves) > 1 && rapid.Bool().Draw(t, l+"LeafOrRef") {
				l2 := rapid.SampledFrom(leaves).Draw(t, l+"Leaf2")
				if l2 != ln {
					items := []ref.OrItem{{Name: ln}, {Name: l2}}
					switch rapid.IntRange(0, 3).Draw(t, l+"LeafRuleSet") {
					case 0: // a member written as a rule set with a second rule: still a reference to the type
						items[0] = ref.OrItem{Rules: []ref.SRule{StrRule("type", ln), BoolRule("nullable", true)}}
					case 1:
						items[1] = ref.OrItem{Rules: []ref.SRule{BoolRule("nullable", false), StrRule("type", l2)}}
					}
					return &ref.SNode{Kind: ref.SLit, Lit: ref.KNumber, Tok: "1", Rules: []ref.SRule{{Name: "or", ValKind: ref.RVOr, Or: items}}}
				}
			}
			return &ref.SNode{Kind: ref.SLit, Lit: ref.KNumber, Tok: "1", Rules: []ref.SRule{StrRule("type", ln)}}
		case k == 8:
			inner := &ref.SNode{Kind: ref.SObj}
			inner.Props = []ref.SProp{{Key: "in", KeyTok: `"in"`, Val: &ref.SNode{Kind: ref.SRef, Names: []string{pick(l + "A")}}}}
			if rapid.Bool().Draw(t, l+"InOpt") {
				inner.Props[0].Val.Rules = []ref.SRule{BoolRule("optional", true)}
			}
			if len(objects) > 0 && rapid.IntRange(0, 2).Draw(t, l+"InAllOf") == 0 {
				// inheritance on an object below the root of a type
				inner.Rules = append(inner.Rules, ref.SRule{Name: "allOf", ValKind: ref.RVAllOf, AllOf: []string{rapid.SampledFrom(objects).Draw(t, l+"InAllOfP")}})
			}
			return inner
		}
		if rapid.Bool().Draw(t, l+"ObjectRuleSet") {
			// an object alternative written as a rule set of an or: its additionalProperties names a type
			// (every object it admits may be empty: the edge is an optional one)
			ap := TokRule("additionalProperties", `"`+pick(l+"A")+`"`)
			set := []ref.SRule{StrRule("type", "object"), ap}
			if rapid.Bool().Draw(t, l+"ObjectRuleSetOrder") {
				set[0], set[1] = set[1], set[0]
			}
			items := []ref.OrItem{{Rules: set}, {Name: "string"}}
			if rapid.Bool().Draw(t, l+"ObjectRuleSetPos") {
				items[0], items[1] = items[1], items[0]
			}
			if rapid.Bool().Draw(t, l+"ObjectRuleSetRef") {
				// ... and one more alternative names a type as {type: "@T", nullable: true}
				items = append(items, ref.OrItem{Rules: []ref.SRule{StrRule("type", pick(l+"B")), BoolRule("nullable", true)}})
			}
			switch rapid.IntRange(0, 2).Draw(t, l+"ObjectRuleSetExample") {
			case 0:
				// the example is an empty object (the object alternative admits it)
				return &ref.SNode{Kind: ref.SObj, Rules: []ref.SRule{{Name: "or", ValKind: ref.RVOr, Or: items}}}
			case 1:
				// ... an empty array, admitted by one more alternative
				items = append(items, ref.OrItem{Rules: []ref.SRule{StrRule("type", "array")}})
				return &ref.SNode{Kind: ref.SArr, Rules: []ref.SRule{{Name: "or", ValKind: ref.RVOr, Or: items}}}
			}
			return &ref.SNode{Kind: ref.SLit, Lit: ref.KString, Tok: `"s"`, Str: "s", Rules: []ref.SRule{{Name: "or", ValKind: ref.RVOr, Or: items}}}
		}
		return &ref.SNode{Kind: ref.SLit, Lit: ref.KString, Tok: `"s"`, Str: "s"}
	}
	keyTypes := 0
	for i, nm := range names {
		if leaf[i] {
			lf := &ref.SNode{Kind: ref.SLit, Lit: ref.KNumber, Tok: "1"}
			if len(leaves) > 1 && rapid.IntRange(0, 2).Draw(t, fmt.Sprint(label, "LeafOr", i)) == 0 {
				// a scalar type that lists other scalar types next to a terminating kind name: the
				// same type can then be reached along two paths (a diamond, not a recursion)
				var items []ref.OrItem
				for _, o := range rapid.Permutation(leaves).Draw(t, fmt.Sprint(label, "LeafOrPerm", i)) {
					if o != nm && len(items) < 2 {
						items = append(items, ref.OrItem{Name: o})
					}
				}
				items = append(items, ref.OrItem{Name: "integer"})
				lf.Rules = []ref.SRule{{Name: "or", ValKind: ref.RVOr, Or: items}}
			}
			if lf.Rules == nil && len(leaves) > 1 && rapid.IntRange(0, 2).Draw(t, fmt.Sprint(label, "LeafType", i)) == 0 {
				// a scalar type that is declared to be another scalar type: 1 // {type: "@other"} - reached
				// directly and through that declaration, the other type is met along two paths
				for _, o := range rapid.Permutation(leaves).Draw(t, fmt.Sprint(label, "LeafTypePerm", i)) {
					if o != nm && o < nm {
						lf.Rules = []ref.SRule{StrRule("type", o)}
						break
					}
				}
			}
			g.Types[nm] = lf
			gc.Order = append(gc.Order, nm)
			continue
		}
		if alias[i] {
			a := &ref.SNode{Kind: ref.SRef, Names: []string{pick(fmt.Sprint(label, "Al", i, "A"))}}
			for k, more := 0, rapid.IntRange(0, 2).Draw(t, fmt.Sprint(label, "AlN", i)); k < more; k++ {
				nm2 := pick(fmt.Sprint(label, "Al", i, "M", k))
				dup := false
				for _, x := range a.Names {
					dup = dup || x == nm2
				}
				if !dup {
					a.Names = append(a.Names, nm2)
				}
			}
			g.Types[nm] = a
			gc.Order = append(gc.Order, nm)
			continue
		}
		o := &ref.SNode{Kind: ref.SObj}
		cnt := rapid.IntRange(0, 3).Draw(t, fmt.Sprint(label, "Props", i))
		for k := 0; k < cnt; k++ {
			key := fmt.Sprintf("p%d", k)
			v := refNode(fmt.Sprint(label, "T", i, "P", k))
			switch rapid.IntRange(0, 5).Draw(t, fmt.Sprint(label, "Opt", i, k)) {
			case 0, 1:
				v.Rules = append(v.Rules, BoolRule("optional", true))
			case 2:
				v.Rules = append(v.Rules, BoolRule("optional", false)) // written out, still required
			}
			o.Props = append(o.Props, ref.SProp{Key: key, KeyTok: Quote(key), Val: v})
		}
		if len(objects) > 1 && rapid.IntRange(0, 3).Draw(t, fmt.Sprint(label, "AllOf", i)) == 0 {
			p := rapid.SampledFrom(objects).Draw(t, fmt.Sprint(label, "AllOfP", i))
			// different key namespace per type avoids duplicate-key conflicts: rename own keys
			for k := range o.Props {
				o.Props[k].Key = fmt.Sprintf("q%d_%d", i, k)
				o.Props[k].KeyTok = Quote(o.Props[k].Key)
			}
			if p != nm || rapid.IntRange(0, 3).Draw(t, fmt.Sprint(label, "AllOfSelf", i)) == 0 {
				o.Rules = append(o.Rules, ref.SRule{Name: "allOf", ValKind: ref.RVAllOf, AllOf: []string{p}})
			}
		}
		if o.Rule("allOf") == nil && rapid.IntRange(0, 5).Draw(t, fmt.Sprint(label, "AP", i)) == 0 {
			o.Rules = append(o.Rules, TokRule("additionalProperties", `"`+pick(fmt.Sprint(label, "APT", i))+`"`))
		}
		if rapid.IntRange(0, 6).Draw(t, fmt.Sprint(label, "KS", i)) == 0 {
			kn := fmt.Sprintf("@k%d", keyTypes)
			keyTypes++
			g.Types[kn] = &ref.SNode{Kind: ref.SLit, Lit: ref.KString, Tok: `"kab"`, Str: "kab", Rules: []ref.SRule{{Name: "regex", ValKind: ref.RVScalar, Tok: `"^k[a-c]{2}$"`}}}
			gc.Hints[g.Types[kn]] = []*ref.Value{strVal("kab"), strVal("kcc")}
			gc.Order = append(gc.Order, kn)
			if rapid.IntRange(0, 2).Draw(t, fmt.Sprint(label, "KSAlias", i)) == 0 {
				// the shortcut names an alias of the string type - possibly one that also lists itself
				// next to the terminating member (@ka = @ka | @k)
				ka := fmt.Sprintf("@ka%d", keyTypes)
				al := &ref.SNode{Kind: ref.SRef, Names: []string{kn}}
				switch rapid.IntRange(0, 5).Draw(t, fmt.Sprint(label, "KSAliasForm", i)) {
				case 4: // the alias names a type that was never added
					al.Names = []string{"@kmissing"}
				case 5:
					al.Names = []string{kn, "@kmissing"}
				case 1:
					al.Names = []string{ka, kn}
				case 2:
					al.Names = []string{kn, ka}
				case 3:
					// a diamond: two further aliases of the same string type
					s1, s2 := ka+"s", ka+"l"
					g.Types[s1] = &ref.SNode{Kind: ref.SRef, Names: []string{kn}}
					g.Types[s2] = &ref.SNode{Kind: ref.SRef, Names: []string{kn}}
					gc.Order = append(gc.Order, s1, s2)
					al.Names = []string{s1, s2}
				}
				g.Types[ka] = al
				gc.Order = append(gc.Order, ka)
				kn = ka
			}
			v := refNode(fmt.Sprint(label, "KSV", i))
			v.Rules = append(v.Rules, BoolRule("optional", true))
			o.Props = append(o.Props, ref.SProp{Key: kn, KeyTok: kn, Shortcut: true, Val: v})
			if rapid.IntRange(0, 3).Draw(t, fmt.Sprint(label, "KS2", i)) == 0 {
				// a second key shortcut in the same object: a string type of its own, or a name nobody added
				k2 := fmt.Sprintf("@kk%d", keyTypes)
				if rapid.Bool().Draw(t, fmt.Sprint(label, "KS2Missing", i)) {
					k2 = fmt.Sprintf("@kmissing%d", 2+i) // (one name per type: an heir must not meet it twice)
				} else {
					g.Types[k2] = &ref.SNode{Kind: ref.SLit, Lit: ref.KString, Tok: `"zab"`, Str: "zab", Rules: []ref.SRule{{Name: "regex", ValKind: ref.RVScalar, Tok: `"^z[a-c]{2}$"`}}}
					gc.Hints[g.Types[k2]] = []*ref.Value{strVal("zab"), strVal("zcc")}
					gc.Order = append(gc.Order, k2)
				}
				v2 := &ref.SNode{Kind: ref.SLit, Lit: ref.KNumber, Tok: "2", Rules: []ref.SRule{BoolRule("optional", true)}}
				o.Props = append(o.Props, ref.SProp{Key: k2, KeyTok: k2, Shortcut: true, Val: v2})
			}
		}
		g.Types[nm] = o
		gc.Order = append(gc.Order, nm)
	}
	// allOf with duplicate keys across parent/child is a different error class: the per-type key
	// namespaces above keep them apart except for same-type pN keys of two parents-free types.
	switch rapid.IntRange(0, 3).Draw(t, label+"Root") {
	case 0:
		g.Root = &ref.SNode{Kind: ref.SRef, Names: []string{names[0]}}
	case 1:
		g.Root = refNode(label + "RootRef")
	default:
		o := &ref.SNode{Kind: ref.SObj}
		cnt := rapid.IntRange(1, 3).Draw(t, label+"RootProps")
		for k := 0; k < cnt; k++ {
			v := refNode(fmt.Sprint(label, "RP", k))
			if rapid.IntRange(0, 3).Draw(t, fmt.Sprint(label, "ROpt", k)) == 0 {
				v.Rules = append(v.Rules, BoolRule("optional", true))
			}
			key := fmt.Sprintf("r%d", k)
			o.Props = append(o.Props, ref.SProp{Key: key, KeyTok: Quote(key), Val: v})
		}
		g.Root = o
	}
	return gc
}
