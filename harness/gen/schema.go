package gen

import (
	"fmt"
	"strings"

	"pgregory.net/rapid"

	"verif/ref"
)

// ---------------------------------------------------------------------------------------
// Schema printer.
//
// Layout rule learnt from the loader: an annotation binds to "the only node on its line"
// (error 804 otherwise), so the printer puts exactly one example node on every line:
//
//	{ // {rules} - note
//	  "a": 1, // {optional: true}
//	  "b": [
//	    1,
//	    "x"
//	  ]
//	}
//
// Every style knob below is meaning-preserving (C13 relies on that).

type Style struct {
	NL               string // "\n", "\r\n", "\r"
	Indent           string // per level
	MultiLine        bool   // annotations as /* ... */ instead of // ...
	SpreadRules      bool   // (multi-line only) one rule per line inside the rule object
	QuoteNames       bool   // rule names in quotes
	TrailingComma    bool   // trailing comma inside the rule object
	Comments         int    // 0 none, 1 '#' line comments on own lines, 2 also '###' blocks, 3 end-of-line '#' comments as well, 4 end-of-line '#' comments only (on every line)
	MixedAnn         int    // >0: annotations alternate between the inline and the multi-line form (1: first inline, 2: first multi-line)
	AutoItemNotes    bool   // enum items inside multi-line annotations get an inline note each (whatever the model says)
	EmptyAnn         int    // >0: every EmptyAnn-th value without rules and note gets an empty "//" annotation
	AutoNotes        int    // >0: every AutoNotes-th value without a note of its own gets one
	JoinLines        bool   // several properties on one line and one-line containers where no annotation is involved (ignored when comments or empty annotations are on)
	NameGap          int    // >0: every NameGap-th rule name is followed by a blank (space, tab, space+tab) before its colon
	BlockInRules     int    // >0: every BlockInRules-th rule is preceded by a one-line ### block ### user comment inside the rule object
	BlankInEmpty     int    // >0: every BlankInEmpty-th empty container has a blank (space, tab, two spaces) between its brackets
	PropAfterArray   bool   // a property that follows a non-empty array value starts on the line of the closing bracket ("], "b": ...")
	StrayNotes       int    // >0: every StrayNotes-th opportunity gets a note that belongs to no value: on a line of its own between properties / items, or after the closing brace of a non-empty object
	NoteNextLine     bool   // note-only annotations of values that no comma follows go to the next line (every other one)
	BlankLines       bool   // blank lines between properties
	SpaceBeforeColon bool
	ColonGap         int               // >0: what stands between a key and its colon: 1 a tab, 2 a line break and the indentation, 3 two blanks
	ValueNextLine    int               // >0: inside multi-line annotations every ValueNextLine-th rule value stands on the line after its name
	StrayAnywhere    bool              // stray notes also where the library is known to refuse them (directly after an annotated line): for texts that must be refused in every spelling
	TightAnn         bool              // no blank between a value and the annotation that follows it
	TightComments    bool              // end-of-line user comments start right after the value (no blank), every other one as a ### block ###
	SplitAnn         int               // >0: every SplitAnn-th node with two rules or more (or rules and a note) gets two annotations: a multi-line one closing on the next line and a second one starting on that closing line
	ItemNoteExtras   int               // >0: inside enum lists with item notes every ItemNoteExtras-th item is followed by a note on a line of its own (nobody's) and item notes end in blanks
	KeyComments      int               // >0: every KeyComments-th property gets a user comment between its key and its colon or between the colon and the value (### c ### on the line, or # c up to the line end with the rest on the next line)
	CloseLate        int               // >0: every CloseLate-th multi-line annotation of a value that a sibling follows closes on the next line, and the sibling starts on that closing line
	EmptyAfterAnn    int               // >0: every EmptyAfterAnn-th multi-line annotation is followed, on its line, by a second annotation without any text (/**/, /* */ or // up to the line end)
	BlockOverLines   int               // >0: every BlockOverLines-th sibling (property or array item) that would start a line is instead preceded by a ### block comment that opens on the line of its predecessor and closes, over a line break, on the line where the sibling starts
	EmptyOpen        int               // >0: every EmptyOpen-th empty container that has an annotation carries it behind its opening bracket, closes on the next line and (every other one) has a note behind the closing bracket
	BlockBeforeRules int               // >0: every BlockBeforeRules-th inline annotation with rules has a ### block ### user comment between the slashes and the rule object
	RuleOrder        func(n int) []int // permutation of rule indexes (nil = as written)
	// Per-annotation override hook (nil = use the fields above)
	Pick func(label string, n int) int
}

// Joins counts lines shared by two properties (JoinLines); JoinsArrayThenContainer those where a
// one-line array is followed by a container opened on the same line.
var Joins, JoinsArrayThenContainer int64

func DefaultStyle() *Style { return &Style{NL: "\n", Indent: "  "} }

type printer struct {
	b        []byte
	st       *Style
	cc       int  // comment counter
	ea       int  // empty-annotation counter
	an       int  // auto-note counter
	hn       int  // enum head-note counter
	nn       int  // next-line-note counter
	sn       int  // stray-note counter
	be       int  // empty-container counter (BlankInEmpty)
	ng       int  // rule-name counter (NameGap)
	sa       int  // split-annotation counter
	vn       int  // rule-value counter (ValueNextLine)
	br       int  // rule counter (BlockInRules)
	afterArr bool // a non-empty array was closed and no value has begun since (annotations are not taken there)
	ann      int  // annotation counter (MixedAnn)
	inMulti  bool // inside a /* */ annotation
	ine      int  // enum item counter (ItemNoteExtras)
	kc       int  // property counter (KeyComments)
	cl       int  // annotation counter (CloseLate)
	hasNext  bool // the value being written is followed by a sibling
	contLine bool // the last annotation closed at the start of a fresh line: the next sibling continues on it
	eaa      int  // annotation counter (EmptyAfterAnn)
	bo       int  // sibling counter (BlockOverLines)
	eo       int  // empty-container counter (EmptyOpen)
	bb       int  // annotation counter (BlockBeforeRules)
}

// BlockOvers counts block comments written over a line break between two siblings, EmptyOpens the
// empty containers annotated behind their opening bracket, BlocksBeforeRules the comments between
// the slashes of an inline annotation and its rule object.
var BlockOversBehindAnnotation int64

var BlockOvers, EmptyOpens, BlocksBeforeRules, TwoNotes, EmptyAfters, Lonelies int64

// blockOver writes, behind the comma that follows the previous sibling, a block comment that runs
// over a line break; the next sibling then starts on the line the comment closes on. Not behind an
// user comment (there the text up to the line end is the comment's).
func (p *printer) blockOver(level int) bool {
	if p.st.BlockOverLines <= 0 {
		return false
	}
	start := len(p.b)
	for start > 0 && p.b[start-1] != '\n' && p.b[start-1] != '\r' {
		start--
	}
	line := string(p.b[start:])
	if strings.Contains(line, "#") {
		return false
	}
	p.bo++
	if p.bo%p.st.BlockOverLines != 0 {
		return false
	}
	if strings.Contains(line, "//") {
		// behind an inline annotation the block stands where a # comment may stand (behind the rule
		// object or the note): it ends the annotation like the line break would, and the sibling
		// starts behind its closer on the next line. Every other opportunity only.
		if (p.bo/p.st.BlockOverLines)%2 == 0 {
			return false
		}
		BlockOversBehindAnnotation++
	}
	p.w([]string{" ### about the next one:", " ###", "###"}[(p.bo/p.st.BlockOverLines)%3])
	p.w(p.st.NL)
	p.indent(level)
	p.w([]string{"it follows ### ", "### ", "{ \" [ // {min: 1} ###"}[(p.bo/p.st.BlockOverLines)%3])
	BlockOvers++
	return true
}

// emptyOpen writes an empty container whose annotation stands behind the opening bracket (which the
// caller has written).
func (p *printer) emptyOpen(n *ref.SNode, close, c string, level int) bool {
	if p.st.EmptyOpen <= 0 || len(n.Rules) == 0 && n.Note == "" {
		return false
	}
	p.eo++
	if p.eo%p.st.EmptyOpen != 0 {
		return false
	}
	hn := p.hasNext
	p.hasNext = false // (no late close inside the brackets)
	p.annotation(n, level)
	p.hasNext = hn
	p.w(p.st.NL)
	p.indent(level)
	p.w(close)
	n.End = len(p.b) - 1
	p.w(c)
	if k := p.eo / p.st.EmptyOpen; k%2 == 1 {
		p.w([]string{" // none so far", " // the end"}[(k/2)%2])
	}
	EmptyOpens++
	return true
}

// PrintSchema renders n and fills Begin/End/AnnBegin/KeyBegin/KeyEnd and rule offsets.
func PrintSchema(n *ref.SNode, st *Style) []byte {
	if st == nil {
		st = DefaultStyle()
	}
	p := &printer{st: st}
	p.leadingComments(0)
	p.stray(0)
	p.node(n, 0, false)
	return p.b
}

func (p *printer) w(s string) { p.b = append(p.b, s...) }

func (p *printer) indent(level int) {
	for i := 0; i < level; i++ {
		p.w(p.st.Indent)
	}
}

func (p *printer) leadingComments(level int) {
	if p.st.Comments >= 1 && p.st.Comments <= 3 {
		p.cc++
		if p.cc%2 == 1 {
			p.indent(level)
			// every third one is an empty comment: "#" directly followed by the line end
			p.w([]string{"# user comment", "#", "# ", "######"}[(p.cc/2)%4])
			p.w(p.st.NL)
		}
		if p.st.Comments >= 2 && p.cc%3 == 0 {
			p.indent(level)
			p.w("###")
			p.w(p.st.NL)
			p.w("block comment { \" [ // {min: 1}")
			p.w(p.st.NL)
			p.w("###")
			p.w(p.st.NL)
		}
	}
	if p.st.BlankLines && p.cc%2 == 0 {
		p.w(p.st.NL)
	}
}

// stray writes a note on a line of its own. No value starts on such a line, so the note is nobody's.
// The library takes annotations on lines of their own only in some places (before the first child
// of a container, between the items of an array, before a closing bracket - and never directly
// after the closing bracket of a non-empty array); the callers keep to those.
func (p *printer) stray(level int) {
	// ... and only after a line that carries no annotation or comment itself (what may follow an
	// annotation on the next line depends on its form)
	end := len(p.b)
	for end > 0 && (p.b[end-1] == '\n' || p.b[end-1] == '\r') {
		end--
	}
	start := end
	for start > 0 && p.b[start-1] != '\n' && p.b[start-1] != '\r' {
		start--
	}
	if prev := string(p.b[start:end]); !p.st.StrayAnywhere && (strings.Contains(prev, "//") || strings.Contains(prev, "/*") || strings.Contains(prev, "*/") || strings.Contains(prev, "#")) {
		return
	}
	if p.st.StrayNotes > 0 && p.st.EmptyAnn == 0 && !p.afterArr {
		p.sn++
		if p.sn%p.st.StrayNotes == 0 {
			p.indent(level)
			switch k := (p.sn / p.st.StrayNotes) % 5; k {
			case 3, 4:
				// a multi-line note over two lines and a second note behind its closer: no value starts
				// on either line, both are nobody's
				p.w("/* lonely")
				p.w(p.st.NL)
				p.indent(level)
				p.w([]string{"*/ // stray behind a lonely one", "*/ /* second */ // third"}[k-3])
				Lonelies++
			default:
				p.w([]string{"// stray note", "/* stray note */", "// stray - note"}[k])
			}
			p.w(p.st.NL)
		}
	}
}

// emptyGap: what stands between the brackets of an empty container.
func (p *printer) emptyGap() string {
	if p.st.BlankInEmpty > 0 {
		p.be++
		if p.be%p.st.BlankInEmpty == 0 {
			return []string{" ", "\t", "  "}[(p.be/p.st.BlankInEmpty)%3]
		}
	}
	return ""
}

// hasItemNotes: some enum rule has notes on its items (they need the one-item-per-line layout).
func hasItemNotes(rules []ref.SRule) bool {
	for _, r := range rules {
		for _, it := range r.Enum {
			if it.Comment != "" {
				return true
			}
		}
		for _, o := range r.Or {
			if hasItemNotes(o.Rules) {
				return true
			}
		}
	}
	return false
}

func nonEmptyArray(n *ref.SNode) bool { return n.Kind == ref.SArr && len(n.Items) > 0 }

// strayAfterBrace writes a note after the closing brace of a non-empty object: no value starts on
// that line, so it is nobody's note.
func (p *printer) strayAfterBrace() {
	if p.st.StrayNotes > 0 {
		p.sn++
		if p.sn%p.st.StrayNotes == 0 {
			p.w(" // stray after brace")
		}
	}
}

func (p *printer) eolComment() {
	if p.contLine {
		return // the sibling follows on this line
	}
	if p.st.Comments >= 3 {
		p.cc++
		if p.cc%2 == 0 || p.st.Comments == 4 {
			if p.st.TightComments {
				p.w([]string{"# eol comment", "### block c ###", "#", "###c###", "######", "###### # x"}[p.cc%6])
			} else {
				p.w([]string{" # eol comment", " #", " # eol comment", " ######", " ###### ### c ###"}[p.cc%5])
			}
		}
	}
}

// annotation writes " // {..} - note" (or the multi-line form) when the node has rules or a note.
func (p *printer) annotation(n *ref.SNode, level int) {
	n.AnnBegin = -1
	note := n.Note
	if note == "" && p.st.AutoNotes > 0 {
		// a note the model does not have (notes do not change the meaning of a schema)
		p.an++
		if p.an%p.st.AutoNotes == 0 {
			note = []string{"auto note", "x - y", "note with {braces}"}[(p.an/p.st.AutoNotes)%3]
		}
	}
	if len(n.Rules) == 0 && note == "" {
		if p.st.EmptyAnn > 0 && !p.st.MultiLine {
			// an annotation without rules and without a note: "//" up to the end of the line
			p.ea++
			if p.ea%p.st.EmptyAnn == 0 {
				p.w([]string{" //", " // ", " //\t", "  //  "}[(p.ea/p.st.EmptyAnn)%4])
			}
		}
		return
	}
	if p.st.SplitAnn > 0 && p.st.RuleOrder == nil && !p.st.AutoItemNotes && !hasItemNotes(n.Rules) && (len(n.Rules) >= 2 || len(n.Rules) >= 1 && note != "") {
		p.sa++
		if p.sa%p.st.SplitAnn == 0 {
			h := len(n.Rules)
			if len(n.Rules) >= 2 && (note == "" || p.sa%2 == 0) {
				h = len(n.Rules) / 2
			}
			p.w(" ")
			n.AnnBegin = len(p.b)
			p.inMulti = true
			p.w("/* ")
			p.ruleObject(n.Rules[:h], false, level)
			p.w(p.st.NL)
			p.indent(level + 1)
			p.w("*/ ")
			second := (p.sa/p.st.SplitAnn)%2 == 0 // the second one inline or multi-line
			if strings.Contains(note, "#") {
				second = true // in an inline annotation a '#' would begin a user comment
			}
			p.inMulti = second
			if second {
				p.w("/* ")
			} else {
				p.w("// ")
			}
			if h < len(n.Rules) {
				p.ruleObject(n.Rules[h:], false, level)
				if note != "" {
					p.w(" - ")
				}
			}
			p.w(note)
			if second {
				p.w(" */")
			}
			p.inMulti = false
			return
		}
	}
	if !p.st.TightAnn {
		p.w(" ")
	}
	n.AnnBegin = len(p.b)
	multi := p.st.MultiLine
	if p.st.MixedAnn > 0 {
		multi = (p.ann+p.st.MixedAnn)%2 == 0
		p.ann++
	}
	p.inMulti = multi
	defer func() { p.inMulti = false }()
	if multi {
		p.w("/*")
	} else {
		p.w("//")
	}
	p.w(" ")
	if len(n.Rules) > 0 {
		if p.st.BlockBeforeRules > 0 && !multi {
			p.bb++
			if p.bb%p.st.BlockBeforeRules == 0 {
				p.w([]string{"### why ### ", "###### ", "###c###"}[(p.bb/p.st.BlockBeforeRules)%3])
				BlocksBeforeRules++
			}
		}
		p.ruleObject(n.Rules, multi && p.st.SpreadRules, level)
		if p.st.BlockInRules > 0 && !multi && (p.br/p.st.BlockInRules)%2 == 1 {
			// a block comment behind the rule object, in front of the note (if any)
			p.w(" ### why ###")
		}
		if note != "" {
			p.w(" - ")
			if p.st.BlockBeforeRules > 0 && !multi && (p.bb/p.st.BlockBeforeRules)%2 == 1 {
				// ... and one behind the dash, in front of the note text
				p.w([]string{"### c ### ", "######"}[(p.bb/p.st.BlockBeforeRules/2)%2])
			}
			p.w(note)
		}
	} else {
		p.w(note)
	}
	if multi {
		if p.st.CloseLate > 0 && p.hasNext {
			p.cl++
			if p.cl%p.st.CloseLate == 0 {
				p.w(p.st.NL)
				p.indent(level)
				p.w("*/")
				p.contLine = true
				return
			}
		}
		p.w(" */")
		if p.st.EmptyAfterAnn > 0 {
			// a second annotation without any text behind the first one
			p.eaa++
			if p.eaa%p.st.EmptyAfterAnn == 0 {
				p.w([]string{" /**/", " //", " /* */", "/**/ /**/"}[(p.eaa/p.st.EmptyAfterAnn)%4])
				EmptyAfters++
			}
		}
	}
}

func (p *printer) ruleObject(rules []ref.SRule, spread bool, level int) {
	order := make([]int, len(rules))
	for i := range order {
		order[i] = i
	}
	if p.st.RuleOrder != nil {
		order = p.st.RuleOrder(len(rules))
	}
	p.w("{")
	for k, idx := range order {
		r := &rules[idx]
		if k > 0 {
			p.w(",")
		}
		if spread {
			p.w(p.st.NL)
			p.indent(level + 2)
		} else if k > 0 {
			p.w(" ")
		}
		blockAt := -1
		if p.st.BlockInRules > 0 && !p.inMulti { // (inside /* */ annotations the library takes no user comments)
			p.br++
			if p.br%p.st.BlockInRules == 0 {
				blockAt = (p.br / p.st.BlockInRules) % 3 // before the name, between name and colon, between colon and value
			}
		}
		if blockAt == 0 {
			p.w([]string{"### c ### ", "###### "}[(p.br/p.st.BlockInRules/3)%2])
		}
		r.Begin = len(p.b)
		if p.st.QuoteNames || r.Quoted {
			p.w(`"` + r.Name + `"`)
		} else {
			p.w(r.Name)
		}
		if p.st.NameGap > 0 {
			p.ng++
			if p.ng%p.st.NameGap == 0 {
				switch g := (p.ng / p.st.NameGap) % 4; {
				case g == 3 && p.inMulti:
					// a line break between the name and its colon (multi-line annotations only)
					p.w(p.st.NL)
					p.indent(level + 3)
				default:
					p.w([]string{" ", "\t", " \t", "  "}[g])
				}
			}
		}
		if blockAt == 1 {
			p.w(" ### c ### ")
		}
		p.w(":")
		if blockAt == 2 {
			p.w(" ### c ###")
		}
		brk := false
		if p.st.ValueNextLine > 0 && p.inMulti {
			p.vn++
			brk = p.vn%p.st.ValueNextLine == 0
		}
		if brk {
			p.w(p.st.NL)
			p.indent(level + 3)
		} else {
			p.w(" ")
		}
		p.ruleValue(r, spread, level)
	}
	if p.st.TrailingComma && len(rules) > 0 {
		p.w(",")
	}
	if spread {
		p.w(p.st.NL)
		p.indent(level + 1)
	}
	p.w("}")
}

func (p *printer) ruleValue(r *ref.SRule, spread bool, level int) {
	switch r.ValKind {
	case ref.RVScalar:
		p.w(r.Tok)
	case ref.RVEnumRef:
		p.w(r.EnumRef)
	case ref.RVEnum:
		noted := p.st.AutoItemNotes && len(r.Enum) > 0
		for _, it := range r.Enum {
			noted = noted || it.Comment != ""
		}
		if noted && p.inMulti {
			// one item per line, each with its own inline note (only possible inside /* */)
			p.w("[")
			if p.st.AutoItemNotes {
				p.hn++
				if p.hn%2 == 1 {
					p.w(" // a comment before the first value belongs to no value")
				}
			}
			for i, it := range r.Enum {
				p.w(p.st.NL)
				p.indent(level + 3)
				p.w(it.Tok)
				if i < len(r.Enum)-1 {
					p.w(",")
				}
				wrote := false
				if it.Comment != "" {
					p.w(" // " + it.Comment)
					wrote = true
				} else if p.st.AutoItemNotes {
					p.w(fmt.Sprintf(" // item %d", i))
					wrote = true
				}
				if p.st.ItemNoteExtras > 0 {
					p.ine++
					if p.ine%p.st.ItemNoteExtras == 0 {
						if wrote {
							p.w([]string{" ", "\t", " \t "}[(p.ine/p.st.ItemNoteExtras)%3]) // blanks after a note are not part of it
						}
						// a note on a line of its own: no item ends on that line
						p.w(p.st.NL)
						p.indent(level + 3)
						p.w("// about the next value")
						if k := p.ine / p.st.ItemNoteExtras; k%2 == 1 {
							// ... and a second one right below it (on the next line or after a blank line)
							p.w(p.st.NL)
							if k%4 == 3 {
								p.w(p.st.NL)
							}
							p.indent(level + 3)
							p.w([]string{"// (in alphabetical order)", "//"}[(k/4)%2])
							TwoNotes++
						}
					}
				}
			}
			p.w(p.st.NL)
			p.indent(level + 2)
			p.w("]")
			return
		}
		p.w("[")
		for i, it := range r.Enum {
			if i > 0 {
				p.w(", ")
			}
			p.w(it.Tok)
		}
		p.w("]")
	case ref.RVOr:
		p.w("[")
		for i, it := range r.Or {
			if i > 0 {
				p.w(",")
				if !spread {
					p.w(" ")
				}
			}
			if spread {
				// one alternative per line, the rules of a rule set one per line as well
				p.w(p.st.NL)
				p.indent(level + 3)
			}
			if it.Name != "" {
				p.w(`"` + it.Name + `"`)
			} else {
				p.ruleObject(it.Rules, spread, level+2)
			}
		}
		if spread {
			p.w(p.st.NL)
			p.indent(level + 2)
		}
		p.w("]")
	case ref.RVAllOf:
		if len(r.AllOf) == 1 && !r.AllOfList {
			p.w(`"` + r.AllOf[0] + `"`)
		} else {
			p.w("[")
			for i, a := range r.AllOf {
				if i > 0 {
					p.w(", ")
				}
				p.w(`"` + a + `"`)
			}
			p.w("]")
		}
	}
}

// node prints one example value starting at the current position (the caller has already
// written indentation and, for properties, the key). comma: a comma follows the value.
func (p *printer) node(n *ref.SNode, level int, comma bool) {
	n.Begin = len(p.b)
	p.afterArr = false
	n.NoteDetached = false
	p.hasNext = comma && (n.Kind == ref.SLit || n.Kind == ref.SRef)
	c := ""
	if comma {
		c = ","
	}
	if p.joining() && p.compact(n) {
		p.inline(n)
		p.w(c)
		return
	}
	switch n.Kind {
	case ref.SLit:
		p.w(n.Tok)
		n.End = len(p.b) - 1
		p.w(c)
		if p.st.NoteNextLine && !comma && len(n.Rules) == 0 && n.Note != "" {
			// a note-only annotation may stand on the line after its value when no comma follows
			// (last element of a container, root scalar)
			p.nn++
			if p.nn%2 == 1 {
				p.w(p.st.NL)
				p.indent(level)
				n.NoteDetached = true // no value starts on that line: the note is nobody's
			}
		}
		p.annotation(n, level)
		p.eolComment()
	case ref.SRef:
		p.w(strings.Join(n.Names, " | "))
		n.End = len(p.b) - 1
		p.w(c)
		p.annotation(n, level)
		p.eolComment()
	case ref.SObj:
		p.w("{")
		if len(n.Props) == 0 {
			if p.emptyOpen(n, "}", c, level) {
				return
			}
			p.w(p.emptyGap())
			p.w("}")
			n.End = len(p.b) - 1
			p.w(c)
			p.annotation(n, level)
			p.eolComment()
			return
		}
		p.annotation(n, level)
		p.eolComment()
		for i := range n.Props {
			pr := &n.Props[i]
			if i > 0 && p.st.PropAfterArray && nonEmptyArray(n.Props[i-1].Val) && !(p.joining() && p.oneLine(n.Props[i-1].Val)) {
				// (only the closing bracket of a multi-line array: a rule may not stand on a line with several values)
				p.w(" ")
			} else if i > 0 && p.joining() && p.oneLine(n.Props[i-1].Val) && p.firstLineFree(pr.Val) {
				// several properties on one line: allowed as long as at most one value of the line
				// could take an annotation
				p.w(" ")
				Joins++
				if pv := n.Props[i-1].Val; pv.Kind == ref.SArr && len(pv.Items) > 0 && (pr.Val.Kind == ref.SObj || pr.Val.Kind == ref.SArr) && !p.oneLine(pr.Val) {
					JoinsArrayThenContainer++
				}
			} else if i > 0 && p.contLine {
				p.w(" ")
			} else if i > 0 && p.blockOver(level+1) {
				// (the sibling starts behind the comment)
			} else {
				p.w(p.st.NL)
				p.leadingComments(level + 1)
				if i == 0 {
					p.stray(level + 1)
				}
				p.indent(level + 1)
			}
			p.contLine = false
			pr.KeyBegin = len(p.b)
			p.w(pr.KeyTok)
			pr.KeyEnd = len(p.b) - 1
			if p.st.SpaceBeforeColon {
				p.w(" ")
			}
			switch p.st.ColonGap {
			case 1:
				p.w("\t")
			case 2:
				p.w(p.st.NL)
				p.indent(level + 2)
			case 3:
				p.w("  ")
			}
			kcAt := -1
			if p.st.KeyComments > 0 {
				p.kc++
				if p.kc%p.st.KeyComments == 0 {
					kcAt = (p.kc / p.st.KeyComments) % 4
				}
			}
			switch kcAt {
			case 0:
				p.w(" ### c ###")
			case 3:
				p.w(" # c")
				p.w(p.st.NL)
				p.indent(level + 2)
			}
			p.w(": ")
			switch kcAt {
			case 1:
				p.w([]string{"### c ### ", "###### "}[(p.kc/p.st.KeyComments/4)%2]) // (the second one is an empty block comment)
			case 2:
				p.w("# c")
				p.w(p.st.NL)
				p.indent(level + 2)
			}
			p.node(pr.Val, level+1, i < len(n.Props)-1)
		}
		p.w(p.st.NL)
		p.leadingComments(level)
		if !nonEmptyArray(n.Props[len(n.Props)-1].Val) {
			p.stray(level)
		}
		p.indent(level)
		n.End = len(p.b)
		p.w("}")
		p.w(c)
		p.strayAfterBrace()
	case ref.SArr:
		p.w("[")
		if len(n.Items) == 0 {
			if p.emptyOpen(n, "]", c, level) {
				return
			}
			p.w(p.emptyGap())
			p.w("]")
			n.End = len(p.b) - 1
			p.w(c)
			p.annotation(n, level)
			p.eolComment()
			return
		}
		p.annotation(n, level)
		p.eolComment()
		p.w(p.st.NL)
		for i, it := range n.Items {
			if i > 0 && p.contLine {
				p.w(" ")
			} else if i > 0 && p.blockOver(level+1) {
				// (the item starts behind the comment)
			} else {
				if i > 0 {
					p.w(p.st.NL)
				}
				p.leadingComments(level + 1)
				if i == 0 || !nonEmptyArray(n.Items[i-1]) {
					p.stray(level + 1)
				}
				p.indent(level + 1)
			}
			p.contLine = false
			p.node(it, level+1, i < len(n.Items)-1)
		}
		p.w(p.st.NL)
		p.leadingComments(level)
		if !nonEmptyArray(n.Items[len(n.Items)-1]) {
			p.stray(level)
		}
		p.indent(level)
		n.End = len(p.b)
		p.w("]")
		p.w(c)
		p.afterArr = true
	}
}

// joining: the JoinLines style is on and nothing else writes to the ends of lines.
func (p *printer) joining() bool {
	return p.st.JoinLines && p.st.Comments == 0 && p.st.EmptyAnn == 0 && p.st.AutoNotes == 0 && p.st.StrayNotes == 0
}

func bareScalar(n *ref.SNode) bool {
	return (n.Kind == ref.SLit || n.Kind == ref.SRef) && len(n.Rules) == 0 && n.Note == ""
}

// compact: a non-empty container without annotation whose children are all bare scalars; it is
// written on one line.
func (p *printer) compact(n *ref.SNode) bool {
	if len(n.Rules) > 0 || n.Note != "" {
		return false
	}
	switch n.Kind {
	case ref.SArr:
		if len(n.Items) == 0 {
			return false
		}
		for _, it := range n.Items {
			if !bareScalar(it) {
				return false
			}
		}
		return true
	case ref.SObj:
		if len(n.Props) == 0 {
			return false
		}
		for i := range n.Props {
			if !bareScalar(n.Props[i].Val) {
				return false
			}
		}
		return true
	}
	return false
}

// oneLine: the value is written on one line and carries no annotation.
func (p *printer) oneLine(n *ref.SNode) bool {
	if len(n.Rules) > 0 || n.Note != "" {
		return false
	}
	return bareScalar(n) || p.compact(n) || (n.Kind == ref.SArr && len(n.Items) == 0) || (n.Kind == ref.SObj && len(n.Props) == 0)
}

// firstLineFree: the first line of the value carries no annotation.
func (p *printer) firstLineFree(n *ref.SNode) bool {
	return len(n.Rules) == 0 && n.Note == ""
}

func (p *printer) inline(n *ref.SNode) {
	leaf := func(v *ref.SNode) {
		v.Begin = len(p.b)
		v.AnnBegin = -1
		if v.Kind == ref.SRef {
			p.w(strings.Join(v.Names, " | "))
		} else {
			p.w(v.Tok)
		}
		v.End = len(p.b) - 1
	}
	n.AnnBegin = -1
	if n.Kind == ref.SArr {
		p.w("[")
		for i, it := range n.Items {
			if i > 0 {
				p.w(", ")
			}
			leaf(it)
		}
		n.End = len(p.b)
		p.w("]")
		return
	}
	p.w("{")
	for i := range n.Props {
		if i > 0 {
			p.w(", ")
		}
		pr := &n.Props[i]
		pr.KeyBegin = len(p.b)
		p.w(pr.KeyTok)
		pr.KeyEnd = len(p.b) - 1
		p.w(": ")
		leaf(pr.Val)
	}
	n.End = len(p.b)
	p.w("}")
}

// ExampleJSON renders the example of a plain-JSON model as compact JSON (original literal
// spellings, no blanks). ok=false when the model contains a type shortcut.
func ExampleJSON(n *ref.SNode) (out []byte, ok bool) {
	ok = true
	var rec func(n *ref.SNode)
	rec = func(n *ref.SNode) {
		switch n.Kind {
		case ref.SLit:
			out = append(out, n.Tok...)
		case ref.SRef:
			ok = false
		case ref.SObj:
			out = append(out, '{')
			for i := range n.Props {
				if i > 0 {
					out = append(out, ',')
				}
				if n.Props[i].Shortcut {
					ok = false
				}
				out = append(out, n.Props[i].KeyTok...)
				out = append(out, ':')
				rec(n.Props[i].Val)
			}
			out = append(out, '}')
		case ref.SArr:
			out = append(out, '[')
			for i, it := range n.Items {
				if i > 0 {
					out = append(out, ',')
				}
				rec(it)
			}
			out = append(out, ']')
		}
	}
	rec(n)
	return out, ok
}

// ExampleValue converts a plain-JSON model into a document tree (for instance generation).
func ExampleValue(n *ref.SNode) *ref.Value {
	switch n.Kind {
	case ref.SLit:
		return &ref.Value{Kind: n.Lit, Tok: n.Tok, Str: n.Str}
	case ref.SObj:
		v := &ref.Value{Kind: ref.KObject}
		for i := range n.Props {
			v.Members = append(v.Members, ref.Member{KeyTok: n.Props[i].KeyTok, Key: n.Props[i].Key, Val: ExampleValue(n.Props[i].Val)})
		}
		return v
	case ref.SArr:
		v := &ref.Value{Kind: ref.KArray}
		for _, it := range n.Items {
			v.Items = append(v.Items, ExampleValue(it))
		}
		return v
	}
	return &ref.Value{Kind: ref.KNull, Tok: "null"}
}

// ---------------------------------------------------------------------------------------
// helpers to build rules

func BoolRule(name string, v bool) ref.SRule {
	t := "false"
	if v {
		t = "true"
	}
	return ref.SRule{Name: name, ValKind: ref.RVScalar, Tok: t}
}

func StrRule(name, v string) ref.SRule {
	return ref.SRule{Name: name, ValKind: ref.RVScalar, Tok: `"` + v + `"`}
}

func TokRule(name, tok string) ref.SRule {
	return ref.SRule{Name: name, ValKind: ref.RVScalar, Tok: tok}
}

// ---------------------------------------------------------------------------------------
// Generator for the rule-free fragment (C01): optional / nullable / type "any".

var KeyPoolC01 = []string{"a", "b", "c", "id", "", "a\"b", "é", "@x", "k\\", "x y", "\n", "say \"hi\"", "\"", "\\\"", "q\\\\"}

type ShapeOpts struct {
	Depth int
	Width int
	// Sparse: three out of four nodes carry no rule and no note (layouts that put several values
	// on one line need values without annotations)
	Sparse bool
}

// ShapeSchema draws a model of the rule-free fragment. isProp: the node is an object property
// (only those may carry `optional`).
func ShapeSchema(t *rapid.T, o ShapeOpts, label string) *ref.SNode {
	return shapeNode(t, o, o.Depth, false, true, label)
}

func shapeNode(t *rapid.T, o ShapeOpts, depth int, isProp, isRoot bool, label string) *ref.SNode {
	n := &ref.SNode{}
	max := 9
	if depth <= 0 {
		max = 6
	}
	k := rapid.IntRange(0, max).Draw(t, label+"Kind")
	if isRoot && depth > 0 && k < 5 && rapid.IntRange(0, 4).Draw(t, label+"RootContainer") > 0 {
		k = 5 + rapid.IntRange(0, 1).Draw(t, label+"RootKind") // mostly containers at the root
	}
	isAny := rapid.IntRange(0, 11).Draw(t, label+"Any") == 0
	switch {
	case k <= 1:
		n.Kind, n.Lit = ref.SLit, ref.KNumber
		if rapid.Bool().Draw(t, label+"Float") {
			n.Tok = NumberTok(t, false, label+"Num")
			if !strings.Contains(n.Tok, ".") {
				n.Tok += ".5"
			}
		} else {
			n.Tok = strings.SplitN(NumberTok(t, false, label+"Num"), ".", 2)[0]
		}
	case k == 2:
		n.Kind, n.Lit = ref.SLit, ref.KString
		n.Tok, n.Str = StringTok(t, 4, label+"Str")
	case k == 3:
		n.Kind = ref.SLit
		if rapid.Bool().Draw(t, label+"Bool") {
			n.Lit, n.Tok = ref.KTrue, "true"
		} else {
			n.Lit, n.Tok = ref.KFalse, "false"
		}
	case k == 4:
		n.Kind, n.Lit, n.Tok = ref.SLit, ref.KNull, "null"
	case k == 5 || k == 7 || k == 9:
		n.Kind = ref.SObj
		if !isAny {
			cnt := rapid.IntRange(0, o.Width+1).Draw(t, label+"ObjN")
			seen := map[string]bool{}
			for i := 0; i < cnt; i++ {
				key := rapid.SampledFrom(KeyPoolC01).Draw(t, label+"Key")
				if seen[key] {
					continue
				}
				seen[key] = true
				tok := Quote(key)
				if rapid.IntRange(0, 5).Draw(t, label+"KeySpell") == 0 {
					tok = Respell(t, key, label+"KeyResp")
				}
				n.Props = append(n.Props, ref.SProp{Key: key, KeyTok: tok, Val: shapeNode(t, o, depth-1, true, false, label+"P")})
			}
		}
	default:
		n.Kind = ref.SArr
		if !isAny {
			cnt := rapid.IntRange(0, o.Width).Draw(t, label+"ArrN")
			for i := 0; i < cnt; i++ {
				n.Items = append(n.Items, shapeNode(t, o, depth-1, false, false, label+"I"))
			}
		}
	}
	// rules
	if isAny {
		n.Rules = append(n.Rules, StrRule("type", "any"))
	}
	if o.Sparse && !isAny && rapid.IntRange(0, 3).Draw(t, label+"Plain") > 0 {
		return n
	}
	if isProp {
		switch rapid.IntRange(0, 5).Draw(t, label+"Opt") {
		case 0, 1:
			n.Rules = append(n.Rules, BoolRule("optional", true))
		case 2:
			n.Rules = append(n.Rules, BoolRule("optional", false))
		}
	}
	switch rapid.IntRange(0, 7).Draw(t, label+"Nullable") {
	case 0, 1:
		n.Rules = append(n.Rules, BoolRule("nullable", true))
	case 2:
		n.Rules = append(n.Rules, BoolRule("nullable", false))
	}
	// shuffle rule order a little
	if len(n.Rules) > 1 && rapid.Bool().Draw(t, label+"RuleSwap") {
		n.Rules[0], n.Rules[len(n.Rules)-1] = n.Rules[len(n.Rules)-1], n.Rules[0]
	}
	if rapid.IntRange(0, 9).Draw(t, label+"Note") == 0 {
		n.Note = "note"
	}
	return n
}
