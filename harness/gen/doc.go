// Package gen holds the generators and printers. Documents are modelled as *ref.Value trees
// (scalars carry their source token, keys their quoted token); the printer lays a tree out
// with arbitrary inter-token blanks and records every token's byte span in the tree.
package gen

import (
	"fmt"
	"strings"
	"unicode/utf8"

	"pgregory.net/rapid"

	"verif/ref"
)

// ---------------------------------------------------------------------------------------
// string tokens

var runePool = []rune{
	'a', 'b', 'z', 'A', '0', '9', ' ', '_', '-', '@', '#', '/', '{', '}', '[', ']', ':', ',', '*', '|',
	'"', '\\', '\n', '\r', '\t', '\b', '\f', 0x01, 0x1f, 0x7f,
	0xe9, 0x20ac, 0x1f3c6, 0xffff, 0x10000, 0x80, 0x7ff, 0x800,
}

// SpellRune returns one JSON spelling of r inside a string token. mode: 0 = shortest legal
// (raw when allowed, short escape otherwise), 1 = \uXXXX (surrogate pair above the BMP),
// 2 = short escape when one exists (incl. \/), 3 = \uXXXX with upper-case hex digits.
func SpellRune(r rune, mode int) string {
	short := map[rune]string{'"': `\"`, '\\': `\\`, '\n': `\n`, '\r': `\r`, '\t': `\t`, '\b': `\b`, '\f': `\f`}
	u := func(x rune, upper bool) string {
		if upper {
			return fmt.Sprintf("\\u%04X", x)
		}
		return fmt.Sprintf("\\u%04x", x)
	}
	uni := func(upper bool) string {
		if r >= 0x10000 {
			r1, r2 := surrogates(r)
			return u(r1, upper) + u(r2, upper)
		}
		return u(r, upper)
	}
	switch mode {
	case 1:
		return uni(false)
	case 3:
		return uni(true)
	case 2:
		if s, ok := short[r]; ok {
			return s
		}
		if r == '/' {
			return `\/`
		}
	}
	if s, ok := short[r]; ok {
		return s
	}
	if r < 0x20 {
		return uni(false)
	}
	return string(r)
}

func surrogates(r rune) (rune, rune) {
	r -= 0x10000
	return 0xd800 + (r>>10)&0x3ff, 0xdc00 + r&0x3ff
}

// LoneSurrogates lets StringTok emit escapes of unpaired surrogates (switched on by the checks
// whose reference decodes them the way the library does).
var LoneSurrogates = false

// StringTok draws a JSON string token and its decoded value.
func StringTok(t *rapid.T, maxLen int, label string) (tok, decoded string) {
	n := rapid.IntRange(0, maxLen).Draw(t, label+"Len")
	var tb, db strings.Builder
	tb.WriteByte('"')
	for i := 0; i < n; i++ {
		var r rune
		if rapid.IntRange(0, 9).Draw(t, label+"Plain") < 6 {
			r = rune('a' + rapid.IntRange(0, 5).Draw(t, label+"Ch"))
		} else {
			r = rapid.SampledFrom(runePool).Draw(t, label+"Rune")
		}
		mode := 0
		if rapid.IntRange(0, 9).Draw(t, label+"Esc") < 3 {
			mode = rapid.IntRange(1, 3).Draw(t, label+"Mode")
		}
		if LoneSurrogates && rapid.IntRange(0, 39).Draw(t, label+"Lone") == 0 {
			// an escape of half a surrogate pair: lexically fine, decodes to U+FFFD; what follows it
			// is part of the string like everything else
			tb.WriteString(rapid.SampledFrom([]string{`\ud83d`, `\uDC00`, `\ud800`}).Draw(t, label+"LoneTok"))
			db.WriteRune(utf8.RuneError)
		}
		tb.WriteString(SpellRune(r, mode))
		db.WriteRune(r)
	}
	tb.WriteByte('"')
	return tb.String(), db.String()
}

// Respell returns another JSON string token for the same decoded string.
func Respell(t *rapid.T, decoded string, label string) string {
	var tb strings.Builder
	tb.WriteByte('"')
	for _, r := range decoded {
		mode := rapid.IntRange(0, 3).Draw(t, label+"Mode")
		if r == utf8.RuneError {
			mode = 0
		}
		tb.WriteString(SpellRune(r, mode))
	}
	tb.WriteByte('"')
	return tb.String()
}

// Quote returns the canonical (mode 0) token of a decoded string.
func Quote(decoded string) string {
	var tb strings.Builder
	tb.WriteByte('"')
	for _, r := range decoded {
		tb.WriteString(SpellRune(r, 0))
	}
	tb.WriteByte('"')
	return tb.String()
}

// ---------------------------------------------------------------------------------------
// number tokens

// AvoidZeroExp makes NumberTok skip the `0e1` spelling (it was a recorded finding until ef2e152; nobody avoids it any more).
var AvoidZeroExp = false

// Avoided is called with a reason whenever a generator steers around a recorded finding.
var Avoided func(reason string)

// NumberTok draws an RFC 8259 numeral. exp=false forbids exponents (schema examples).
func NumberTok(t *rapid.T, exp bool, label string) string {
	var b strings.Builder
	if rapid.IntRange(0, 3).Draw(t, label+"Neg") == 0 {
		b.WriteByte('-')
	}
	switch rapid.IntRange(0, 5).Draw(t, label+"IntForm") {
	case 0:
		b.WriteByte('0')
	case 1:
		b.WriteString(digits(t, 1, 25, true, label+"Int"))
	default:
		b.WriteString(digits(t, 1, 4, true, label+"Int"))
	}
	hasFrac := false
	if rapid.IntRange(0, 2).Draw(t, label+"Frac") == 0 {
		hasFrac = true
		b.WriteByte('.')
		b.WriteString(digits(t, 1, 6, false, label+"FracD"))
	}
	if exp && rapid.IntRange(0, 3).Draw(t, label+"Exp") == 0 {
		if z := b.String(); AvoidZeroExp && !hasFrac && (z == "0" || z == "-0") {
			// known finding C10-zero-mantissa-exponent: `0e1` is not recognised as a number at all;
			// generators other than C10's avoid the spelling by construction and count it
			if Avoided != nil {
				Avoided("zero-mantissa-with-exponent")
			}
			return z
		}
		b.WriteString(rapid.SampledFrom([]string{"e", "E"}).Draw(t, label+"E"))
		b.WriteString(rapid.SampledFrom([]string{"", "+", "-"}).Draw(t, label+"ESign"))
		b.WriteString(digits(t, 1, 3, false, label+"ExpD"))
	}
	return b.String()
}

func digits(t *rapid.T, min, max int, noLeadingZero bool, label string) string {
	n := rapid.IntRange(min, max).Draw(t, label+"N")
	var b strings.Builder
	for i := 0; i < n; i++ {
		lo := 0
		if i == 0 && noLeadingZero {
			lo = 1
		}
		b.WriteByte(byte('0' + rapid.IntRange(lo, 9).Draw(t, label+"D")))
	}
	return b.String()
}

// ---------------------------------------------------------------------------------------
// values

type DocOpts struct {
	Depth    int
	Width    int
	Exp      bool // allow exponents in numbers
	StrLen   int
	KeyPool  []string // decoded keys drawn from here when non-empty (else random)
	DupKeys  bool     // allow duplicate keys
	RootContainer bool // the root is an object or array whenever Depth > 0
}

// Value draws a JSON value tree. Spans are filled in by Print.
func Value(t *rapid.T, o DocOpts, label string) *ref.Value {
	if o.RootContainer && o.Depth > 0 {
		return valueKind(t, o, o.Depth, label, 6+rapid.IntRange(0, 2).Draw(t, label+"RootKind"))
	}
	return value(t, o, o.Depth, label)
}

func value(t *rapid.T, o DocOpts, depth int, label string) *ref.Value {
	max := 8
	if depth <= 0 {
		max = 5
	}
	return valueKind(t, o, depth, label, rapid.IntRange(0, max).Draw(t, label+"Kind"))
}

func valueKind(t *rapid.T, o DocOpts, depth int, label string, kind int) *ref.Value {
	switch kind {
	case 0:
		return &ref.Value{Kind: ref.KNull, Tok: "null"}
	case 1:
		return &ref.Value{Kind: ref.KTrue, Tok: "true"}
	case 2:
		return &ref.Value{Kind: ref.KFalse, Tok: "false"}
	case 3, 4:
		return &ref.Value{Kind: ref.KNumber, Tok: NumberTok(t, o.Exp, label+"Num")}
	case 5:
		tok, dec := StringTok(t, o.StrLen, label+"Str")
		return &ref.Value{Kind: ref.KString, Tok: tok, Str: dec}
	case 6, 7:
		n := rapid.IntRange(0, o.Width).Draw(t, label+"ArrN")
		v := &ref.Value{Kind: ref.KArray}
		for i := 0; i < n; i++ {
			v.Items = append(v.Items, value(t, o, depth-1, label+"I"))
		}
		return v
	default:
		n := rapid.IntRange(0, o.Width).Draw(t, label+"ObjN")
		v := &ref.Value{Kind: ref.KObject}
		seen := map[string]bool{}
		for i := 0; i < n; i++ {
			var tok, dec string
			if len(o.KeyPool) > 0 {
				dec = rapid.SampledFrom(o.KeyPool).Draw(t, label+"Key")
				tok = Quote(dec)
			} else {
				tok, dec = StringTok(t, 4, label+"Key")
			}
			if seen[dec] && !o.DupKeys {
				continue
			}
			seen[dec] = true
			v.Members = append(v.Members, ref.Member{KeyTok: tok, Key: dec, Val: value(t, o, depth-1, label+"V")})
		}
		return v
	}
}

// ---------------------------------------------------------------------------------------
// printing

// Blanks produces inter-token blanks. nil => none.
type Blanks func() string

func RapidBlanks(t *rapid.T, label string) Blanks {
	pool := []string{"", "", "", " ", " ", "\n", "\t", "\r\n", "  ", " \n ", "\r", "\n\n"}
	return func() string { return rapid.SampledFrom(pool).Draw(t, label) }
}

func NoBlanks() string { return "" }

// Print lays v out as JSON text, recording Begin/End (inclusive) of every value and key.
// Blanks are inserted before and after every token (also around the whole text).
func Print(v *ref.Value, ws Blanks) []byte {
	if ws == nil {
		ws = NoBlanks
	}
	var b []byte
	b = append(b, ws()...)
	b = printValue(b, v, ws)
	b = append(b, ws()...)
	return b
}

// PrintCompact prints without any blanks and without touching the spans of v.
func PrintCompact(v *ref.Value) []byte {
	c := Clone(v)
	return Print(c, nil)
}

func printValue(b []byte, v *ref.Value, ws Blanks) []byte {
	switch v.Kind {
	case ref.KObject:
		v.Begin = len(b)
		b = append(b, '{')
		b = append(b, ws()...)
		for i := range v.Members {
			m := &v.Members[i]
			if i > 0 {
				b = append(b, ',')
				b = append(b, ws()...)
			}
			m.KeyBegin = len(b)
			b = append(b, m.KeyTok...)
			m.KeyEnd = len(b) - 1
			b = append(b, ws()...)
			b = append(b, ':')
			b = append(b, ws()...)
			b = printValue(b, m.Val, ws)
			b = append(b, ws()...)
		}
		v.End = len(b)
		b = append(b, '}')
	case ref.KArray:
		v.Begin = len(b)
		b = append(b, '[')
		b = append(b, ws()...)
		for i, it := range v.Items {
			if i > 0 {
				b = append(b, ',')
				b = append(b, ws()...)
			}
			b = printValue(b, it, ws)
			b = append(b, ws()...)
		}
		v.End = len(b)
		b = append(b, ']')
	default:
		v.Begin = len(b)
		b = append(b, v.Tok...)
		v.End = len(b) - 1
	}
	return b
}

func Clone(v *ref.Value) *ref.Value {
	if v == nil {
		return nil
	}
	c := *v
	c.Items = nil
	c.Members = nil
	for _, it := range v.Items {
		c.Items = append(c.Items, Clone(it))
	}
	for _, m := range v.Members {
		m2 := m
		m2.Val = Clone(m.Val)
		c.Members = append(c.Members, m2)
	}
	return &c
}

// Equal compares two trees structurally. spans=true also compares byte spans.
func Equal(a, b *ref.Value, spans bool) bool {
	if a.Kind != b.Kind || len(a.Items) != len(b.Items) || len(a.Members) != len(b.Members) {
		return false
	}
	if spans && (a.Begin != b.Begin || a.End != b.End) {
		return false
	}
	switch a.Kind {
	case ref.KString:
		if a.Tok != b.Tok || a.Str != b.Str {
			return false
		}
	case ref.KNumber:
		if a.Tok != b.Tok {
			return false
		}
	}
	for i := range a.Items {
		if !Equal(a.Items[i], b.Items[i], spans) {
			return false
		}
	}
	for i := range a.Members {
		x, y := a.Members[i], b.Members[i]
		if x.KeyTok != y.KeyTok || x.Key != y.Key {
			return false
		}
		if spans && (x.KeyBegin != y.KeyBegin || x.KeyEnd != y.KeyEnd) {
			return false
		}
		if !Equal(x.Val, y.Val, spans) {
			return false
		}
	}
	return true
}

// Depth returns the nesting depth (scalars 0).
func Depth(v *ref.Value) int {
	d := 0
	for _, it := range v.Items {
		if x := Depth(it) + 1; x > d {
			d = x
		}
	}
	for _, m := range v.Members {
		if x := Depth(m.Val) + 1; x > d {
			d = x
		}
	}
	return d
}
