package gen

import (
	"math/big"
	"regexp"
	"strconv"
	"strings"

	"pgregory.net/rapid"

	"verif/ref"
)

// RuledTree draws a plain-JSON schema model (no type shortcuts, no allOf) whose scalar nodes
// carry rule sets from ScalarCase and whose arrays may carry item-count rules.
func RuledTree(t *rapid.T, depth int, isProp bool, label string) *ref.SNode {
	k := rapid.IntRange(0, 9).Draw(t, label+"K")
	if depth <= 0 && k >= 6 {
		k = 0
	}
	var n *ref.SNode
	if rapid.IntRange(0, 7).Draw(t, label+"EmptyOr") == 0 {
		// an empty container whose `or` alternatives are inline type sets admitting its own kind
		n = &ref.SNode{Kind: ref.SArr}
		own := "array"
		if rapid.Bool().Draw(t, label+"EmptyOrObj") {
			n.Kind, own = ref.SObj, "object"
		}
		other := rapid.SampledFrom([]string{"string", "integer", "boolean"}).Draw(t, label+"EmptyOrOther")
		items := []ref.OrItem{{Rules: []ref.SRule{StrRule("type", own)}}, {Rules: []ref.SRule{StrRule("type", other)}}}
		if rapid.Bool().Draw(t, label+"EmptyOrSwap") {
			items[0], items[1] = items[1], items[0]
		}
		n.Rules = []ref.SRule{{Name: "or", ValKind: ref.RVOr, Or: items}}
		if isProp && rapid.IntRange(0, 3).Draw(t, label+"Opt") == 0 {
			n.Rules = append(n.Rules, BoolRule("optional", true))
		}
		return n
	}
	switch {
	case k <= 5:
		n, _ = ScalarCase(t, label+"S")
		if rapid.IntRange(0, 3).Draw(t, label+"Bare") == 0 {
			n.Rules = nil
		}
	case k <= 7:
		n = &ref.SNode{Kind: ref.SObj}
		cnt := rapid.IntRange(0, 3).Draw(t, label+"ON")
		seen := map[string]bool{}
		for i := 0; i < cnt; i++ {
			key := rapid.SampledFrom([]string{"a", "b", "c", "d e", "é"}).Draw(t, label+"Key")
			if seen[key] {
				continue
			}
			seen[key] = true
			n.Props = append(n.Props, ref.SProp{Key: key, KeyTok: Quote(key), Val: RuledTree(t, depth-1, true, label+"P")})
		}
		if rapid.IntRange(0, 4).Draw(t, label+"AP") == 0 {
			n.Rules = append(n.Rules, TokRule("additionalProperties", rapid.SampledFrom([]string{"true", "false", `"string"`}).Draw(t, label+"APM")))
		}
	default:
		n = &ref.SNode{Kind: ref.SArr}
		cnt := rapid.IntRange(0, 3).Draw(t, label+"AN")
		for i := 0; i < cnt; i++ {
			n.Items = append(n.Items, RuledTree(t, depth-1, false, label+"I"))
		}
		switch rapid.IntRange(0, 3).Draw(t, label+"Cnt") {
		case 0:
			if cnt > 0 {
				n.Rules = append(n.Rules, TokRule("minItems", strconv.Itoa(rapid.IntRange(0, cnt).Draw(t, label+"Min"))))
			}
		case 1:
			if cnt > 0 {
				n.Rules = append(n.Rules, TokRule("maxItems", strconv.Itoa(cnt+rapid.IntRange(0, 2).Draw(t, label+"Max"))))
			}
		}
	}
	if isProp && rapid.IntRange(0, 3).Draw(t, label+"Opt") == 0 {
		n.Rules = append(n.Rules, BoolRule("optional", rapid.Bool().Draw(t, label+"OptV")))
	}
	return n
}

// Corruption describes one single-rule corruption of an example value.
type Corruption struct {
	Node *ref.SNode // the corrupted node (inside the cloned tree)
	Rule string
}

// CloneSNode deep-copies a model and returns the copy plus a map old->new.
func CloneSNode(n *ref.SNode, m map[*ref.SNode]*ref.SNode) *ref.SNode {
	c := *n
	c.Rules = append([]ref.SRule(nil), n.Rules...)
	c.Props = nil
	c.Items = nil
	for _, p := range n.Props {
		p2 := p
		p2.Val = CloneSNode(p.Val, m)
		c.Props = append(c.Props, p2)
	}
	for _, it := range n.Items {
		c.Items = append(c.Items, CloneSNode(it, m))
	}
	if m != nil {
		m[n] = &c
	}
	return &c
}

// Corrupt picks one ruled node of root and replaces its example by a value that violates that
// rule while keeping the kind. ok=false when no corruption applies.
func Corrupt(t *rapid.T, root *ref.SNode, label string) (*ref.SNode, *Corruption, bool) {
	m := map[*ref.SNode]*ref.SNode{}
	clone := CloneSNode(root, m)
	type cand struct {
		n    *ref.SNode
		rule string
	}
	var cands []cand
	clone.Walk(func(n *ref.SNode) {
		for _, r := range n.Rules {
			switch r.Name {
			case "min", "max", "precision", "minLength", "maxLength", "regex", "enum", "minItems", "maxItems":
				cands = append(cands, cand{n, r.Name})
			case "or":
				if (n.Kind == ref.SArr || n.Kind == ref.SObj) && len(n.Items) == 0 && len(n.Props) == 0 {
					cands = append(cands, cand{n, "or"})
				}
			case "type":
				switch n.TypeName() {
				case "date", "datetime", "email", "uri", "uuid", "integer", "float", "string", "boolean", "null":
					cands = append(cands, cand{n, "type"})
				}
			}
		}
	})
	if len(cands) == 0 {
		return nil, nil, false
	}
	c := cands[rapid.IntRange(0, len(cands)-1).Draw(t, label+"Cand")]
	n := c.n
	setNum := func(r *big.Rat, frac int) {
		n.Tok = r.FloatString(frac)
		if strings.Trim(n.Tok, "-0.") == "" {
			n.Tok = strings.TrimPrefix(n.Tok, "-")
		}
	}
	fracOf := func(tok string) int {
		if i := strings.IndexByte(tok, '.'); i >= 0 {
			return len(tok) - i - 1
		}
		return 0
	}
	switch c.rule {
	case "min", "max":
		r := n.Rule(c.rule)
		d, ok := ref.ParseDecimal(r.Tok)
		if !ok {
			return nil, nil, false
		}
		frac := fracOf(n.Tok)
		if f := fracOf(r.Tok); f > frac && strings.Contains(n.Tok, ".") {
			frac = f
		}
		if !strings.Contains(n.Tok, ".") && fracOf(r.Tok) > 0 {
			return nil, nil, false // integer example against a fractional bound: keep it simple
		}
		delta := step(frac)
		v := d.Rat()
		exclName := map[string]string{"min": "exclusiveMinimum", "max": "exclusiveMaximum"}[c.rule]
		if ex, ok := n.BoolRule(exclName); ok && ex && fracOf(r.Tok) <= frac && rapid.Bool().Draw(t, label+"OnBound") {
			// an exclusive bound is violated by the bound itself
			c.rule = exclName
		} else if c.rule == "min" {
			v.Sub(v, delta)
		} else {
			v.Add(v, delta)
		}
		setNum(v, frac)
	case "precision":
		p, _ := strconv.Atoi(n.Rule("precision").Tok)
		d, _ := ref.ParseDecimal(n.Tok)
		v := d.Rat()
		v.Add(v, step(p+1))
		n.Tok = v.FloatString(p + 1)
	case "minLength":
		k, _ := strconv.Atoi(n.Rule("minLength").Tok)
		if k == 0 {
			return nil, nil, false
		}
		n.Str = strings.Repeat("m", k-1)
		n.Tok = Quote(n.Str)
	case "maxLength":
		k, _ := strconv.Atoi(n.Rule("maxLength").Tok)
		n.Str = strings.Repeat("m", k+1)
		n.Tok = Quote(n.Str)
	case "regex":
		pv, err := ref.Parse([]byte(n.Rule("regex").Tok))
		if err != nil {
			return nil, nil, false
		}
		re, cerr := regexp.Compile(pv.Str)
		if cerr != nil {
			return nil, nil, false
		}
		found := false
		for _, s := range []string{"", "~", "ZZZ", "\n", "~~~~~~~~~~", "q q"} {
			if !re.MatchString(s) {
				n.Str, n.Tok, found = s, Quote(s), true
				break
			}
		}
		if !found {
			return nil, nil, false
		}
	case "enum":
		e := n.Rule("enum")
		var nv *ref.Value
		for _, cnd := range []*ref.Value{numVal("424242"), strVal("not-a-member"), {Kind: ref.KNumber, Tok: "0.125"}} {
			if member, _ := ref.EnumMember(e.Enum, cnd); !member {
				nv = cnd
				break
			}
		}
		if nv == nil {
			return nil, nil, false
		}
		n.Lit, n.Tok, n.Str = nv.Kind, nv.Tok, nv.Str
	case "or":
		// declared alternatives that exclude the example's own kind
		r := n.Rule("or")
		r.Or = []ref.OrItem{{Rules: []ref.SRule{StrRule("type", "integer")}}, {Rules: []ref.SRule{StrRule("type", "string")}}}
	case "minItems":
		k, _ := strconv.Atoi(n.Rule("minItems").Tok)
		if k == 0 || len(n.Items) == 0 {
			return nil, nil, false
		}
		n.Items = n.Items[:k-1]
		if len(n.Items) == 0 {
			return nil, nil, false // an empty example array with minItems>0 is a different error class (1204)
		}
	case "maxItems":
		k, _ := strconv.Atoi(n.Rule("maxItems").Tok)
		if len(n.Items) == 0 {
			return nil, nil, false
		}
		for len(n.Items) <= k {
			n.Items = append(n.Items, CloneSNode(n.Items[len(n.Items)-1], nil))
		}
	case "type":
		switch tn := n.TypeName(); tn {
		case "date", "datetime", "email", "uri", "uuid":
			bad := map[string]string{"date": "2021-13-01", "datetime": "2021-01-01 00:00:00", "email": "no-at-sign", "uri": "/relative", "uuid": "not-a-uuid"}[tn]
			n.Str, n.Tok = bad, Quote(bad)
		case "integer":
			n.Tok = "1.5"
		case "float":
			n.Lit, n.Tok, n.Str = ref.KString, `"x"`, "x"
		case "string":
			n.Lit, n.Tok, n.Str = ref.KNumber, "1", ""
		case "boolean":
			n.Lit, n.Tok = ref.KNull, "null"
		case "null":
			n.Lit, n.Tok = ref.KTrue, "true"
		}
	}
	return clone, &Corruption{Node: n, Rule: c.rule}, true
}
