package gen

import (
	"fmt"
	"math/big"
	"strings"

	"pgregory.net/rapid"

	"verif/ref"
)

// ScalarNode draws a scalar example with a rule set constructed to pass Check (parameters are
// chosen relative to the example), plus probe values on / just inside / just outside every
// boundary.

type Probe struct {
	Val   *ref.Value
	Label string
}

func numVal(tok string) *ref.Value { return &ref.Value{Kind: ref.KNumber, Tok: tok} }
func strVal(s string) *ref.Value  { return &ref.Value{Kind: ref.KString, Tok: Quote(s), Str: s} }

// ratString renders r with exactly frac fraction digits (r must have a finite expansion).
func ratString(r *big.Rat, frac int) string { return r.FloatString(frac) }

func step(frac int) *big.Rat {
	return new(big.Rat).SetFrac(big.NewInt(1), new(big.Int).Exp(big.NewInt(10), big.NewInt(int64(frac)), nil))
}

// RegexTree: a tiny RE2 grammar from which both patterns and matching strings are generated.
type reNode struct {
	kind string // lit class opt star plus rep alt cat group
	s    string
	lo   int
	hi   int
	kids []*reNode
}

func genRegex(t *rapid.T, depth int, label string) *reNode {
	max := 7
	if depth <= 0 {
		max = 1
	}
	switch rapid.IntRange(0, max).Draw(t, label+"K") {
	case 0:
		return &reNode{kind: "lit", s: rapid.SampledFrom([]string{"a", "b", "ab", "x", "0", "-", "_", "\\.", "\\+", "/", " ", "a ", "é", "€", "ж"}).Draw(t, label+"L")}
	case 1:
		return &reNode{kind: "class", s: rapid.SampledFrom([]string{"[a-c]", "[0-9]", "\\d", "[a-z0-9]", "[^x]", "\\w", ".", "\\s", "[ ]", "[a-cé]", "[а-я]"}).Draw(t, label+"C")}
	case 2:
		return &reNode{kind: "opt", kids: []*reNode{genRegex(t, depth-1, label+"o")}}
	case 3:
		return &reNode{kind: "star", kids: []*reNode{genRegex(t, depth-1, label+"s")}}
	case 4:
		return &reNode{kind: "plus", kids: []*reNode{genRegex(t, depth-1, label+"p")}}
	case 5:
		lo := rapid.IntRange(0, 2).Draw(t, label+"Lo")
		return &reNode{kind: "rep", lo: lo, hi: lo + rapid.IntRange(0, 2).Draw(t, label+"Hi"), kids: []*reNode{genRegex(t, depth-1, label+"r")}}
	case 6:
		return &reNode{kind: "alt", kids: []*reNode{genRegex(t, depth-1, label+"a1"), genRegex(t, depth-1, label+"a2")}}
	default:
		n := rapid.IntRange(2, 3).Draw(t, label+"N")
		c := &reNode{kind: "cat"}
		for i := 0; i < n; i++ {
			c.kids = append(c.kids, genRegex(t, depth-1, fmt.Sprint(label, "c", i)))
		}
		return c
	}
}

func (r *reNode) pattern() string {
	wrap := func(k *reNode) string {
		p := k.pattern()
		if k.kind == "lit" && len(strings.TrimPrefix(p, "\\")) == 1 || k.kind == "class" || k.kind == "group" {
			return p
		}
		return "(" + p + ")"
	}
	switch r.kind {
	case "lit", "class":
		return r.s
	case "opt":
		return wrap(r.kids[0]) + "?"
	case "star":
		return wrap(r.kids[0]) + "*"
	case "plus":
		return wrap(r.kids[0]) + "+"
	case "rep":
		return fmt.Sprintf("%s{%d,%d}", wrap(r.kids[0]), r.lo, r.hi)
	case "alt":
		return "(" + r.kids[0].pattern() + "|" + r.kids[1].pattern() + ")"
	}
	var b strings.Builder
	for _, k := range r.kids {
		if k.kind == "alt" {
			b.WriteString(k.pattern())
		} else {
			b.WriteString(k.pattern())
		}
	}
	return b.String()
}

// sample draws a string matched by r.
func (r *reNode) sample(t *rapid.T, label string) string {
	switch r.kind {
	case "lit":
		return strings.ReplaceAll(r.s, "\\", "")
	case "class":
		switch r.s {
		case "[a-c]":
			return rapid.SampledFrom([]string{"a", "b", "c"}).Draw(t, label)
		case "[0-9]", "\\d":
			return rapid.SampledFrom([]string{"0", "5", "9"}).Draw(t, label)
		case "[a-z0-9]", "\\w":
			return rapid.SampledFrom([]string{"a", "z", "0"}).Draw(t, label)
		case "[^x]":
			return rapid.SampledFrom([]string{"a", "y", "-", "é"}).Draw(t, label)
		case "\\s":
			return rapid.SampledFrom([]string{" ", "\t", "\n"}).Draw(t, label)
		case "[ ]":
			return " "
		case "[a-cé]":
			return rapid.SampledFrom([]string{"a", "c", "é"}).Draw(t, label)
		case "[а-я]":
			return rapid.SampledFrom([]string{"а", "ж", "я"}).Draw(t, label)
		default:
			return rapid.SampledFrom([]string{"a", "x", " ", "é", "\""}).Draw(t, label)
		}
	case "opt":
		if rapid.Bool().Draw(t, label+"o") {
			return r.kids[0].sample(t, label)
		}
		return ""
	case "star", "plus", "rep":
		lo, hi := 0, 3
		if r.kind == "plus" {
			lo = 1
		}
		if r.kind == "rep" {
			lo, hi = r.lo, r.hi
		}
		n := rapid.IntRange(lo, hi).Draw(t, label+"n")
		s := ""
		for i := 0; i < n; i++ {
			s += r.kids[0].sample(t, label)
		}
		return s
	case "alt":
		return r.kids[rapid.IntRange(0, 1).Draw(t, label+"a")].sample(t, label)
	}
	s := ""
	for _, k := range r.kids {
		s += k.sample(t, label)
	}
	return s
}

// jsonEscape quotes a pattern as a JSON string token (backslashes doubled).
func jsonEscape(s string) string {
	var b strings.Builder
	b.WriteByte('"')
	for _, r := range s {
		switch r {
		case '\\':
			b.WriteString(`\\`)
		case '"':
			b.WriteString(`\"`)
		default:
			b.WriteRune(r)
		}
	}
	b.WriteByte('"')
	return b.String()
}

// ---------------------------------------------------------------------------------------
// format corpora: value, class (true = positive)

type fmtSample struct {
	s   string
	pos bool
}

func dateSamples(t *rapid.T, label string) []fmtSample {
	y := rapid.IntRange(1, 9999).Draw(t, label+"Y")
	m := rapid.IntRange(1, 12).Draw(t, label+"M")
	dmax := []int{31, 28, 31, 30, 31, 30, 31, 31, 30, 31, 30, 31}[m-1]
	d := rapid.IntRange(1, dmax).Draw(t, label+"D")
	ok := fmt.Sprintf("%04d-%02d-%02d", y, m, d)
	leap := rapid.SampledFrom([]int{2000, 2024, 1996, 2400}).Draw(t, label+"Leap")
	nonleap := rapid.SampledFrom([]int{1900, 2023, 2100, 2001}).Draw(t, label+"NonLeap")
	return []fmtSample{
		{ok, true},
		{fmt.Sprintf("%04d-02-29", leap), true},
		{fmt.Sprintf("%04d-02-29", nonleap), false},
		{fmt.Sprintf("%04d/%02d/%02d", y, m, d), false},
		{fmt.Sprintf("%04d-13-%02d", y, d), false},
		{fmt.Sprintf("%04d-%02d-00", y, m), false},
		{fmt.Sprintf("%04d-%02d-%02d", y, m, dmax+1+rapid.IntRange(0, 1).Draw(t, label+"Over")), m == 2 && false},
		{fmt.Sprintf("%d-%d-%d", y, m, d), len(fmt.Sprintf("%d-%d-%d", y, m, d)) == 10},
		{ok + "T00:00:00Z", false},
		// a sign where a digit belongs (a signed integer parser would take it)
		{ok[:5] + "+" + ok[6:], false}, {ok[:8] + "+" + ok[9:], false}, {"+" + ok[1:], false}, {"-" + ok[1:], false}, {ok[:5] + "-" + ok[6:], false},
		{" " + ok, false},
		{"", false},
		{ok[:9], false},
	}
}

func dateTimeSamples(t *rapid.T, label string) []fmtSample {
	date := fmt.Sprintf("%04d-%02d-%02d", rapid.IntRange(1, 9999).Draw(t, label+"Y"), rapid.IntRange(1, 12).Draw(t, label+"M"), rapid.IntRange(1, 28).Draw(t, label+"D"))
	h, mi, s := rapid.IntRange(0, 23).Draw(t, label+"h"), rapid.IntRange(0, 59).Draw(t, label+"m"), rapid.IntRange(0, 59).Draw(t, label+"s")
	tm := fmt.Sprintf("%02d:%02d:%02d", h, mi, s)
	frac := ""
	if rapid.Bool().Draw(t, label+"frac") {
		frac = "." + digits(t, 1, 9, false, label+"fr")
	}
	off := rapid.SampledFrom([]string{"Z", "+00:00", "-03:30", "+14:00", "+05:45", "-11:59"}).Draw(t, label+"off")
	ok := date + "T" + tm + frac + off
	return []fmtSample{
		{ok, true},
		{date + "T" + tm + frac, false},                          // no offset
		{date + tm + off, false},                                 // no T
		{date + "T" + fmt.Sprintf("24:%02d:%02d", mi, s) + off, false}, // hour 24
		{date + "T" + fmt.Sprintf("%02d:60:%02d", h, s) + off, false},  // minute 60
		{date[:5] + "13" + date[7:] + "T" + tm + off, false},     // month 13
		{date, false},
		{"", false},
		{ok + " ", false},
		{date + "T" + tm[:5] + off, false}, // no seconds
		// fields with a digit missing, a comma before the fraction, offsets out of range, leap seconds
		{date + "T" + strings.TrimPrefix(tm, "0") + frac + off, tm[0] != '0'},
		{date + "T" + tm[:3] + strings.TrimPrefix(tm[3:], "0") + off, tm[3] != '0'},
		{date + "T" + tm + "," + digits(t, 1, 3, false, label+"cf") + off, false},
		{date + "T" + tm + frac + rapid.SampledFrom([]string{"+24:00", "-24:00", "+23:60", "+00:60", "-99:99", "+1:00", "+01:0", "+0100", "+01"}).Draw(t, label+"badoff"), false},
		{date + "T23:59:60" + frac + off, true},
		{date[:8] + rapid.SampledFrom([]string{"31", "30"}).Draw(t, label+"eom") + "T" + rapid.SampledFrom([]string{"23:59:60Z", "15:59:60-08:00", "23:59:61Z"}).Draw(t, label+"leap"), false},
		{date + "T" + tm + "." + off, false},
		// 29 February: of years divisible by 400 (leap), by 100 only (not), by 4 (leap)
		{rapid.SampledFrom([]string{"2000", "2400", "1600", "2024", "0004"}).Draw(t, label+"leapY") + "-02-29T" + tm + off, true},
		{rapid.SampledFrom([]string{"1900", "2100", "2023", "1800"}).Draw(t, label+"noLeapY") + "-02-29T" + tm + off, false},
		{strings.ToLower(ok), true},
		{date[:5] + "+" + date[6:] + "T" + tm + off, false}, {"+" + date[1:] + "T" + tm + off, false}, {date + "T+" + tm[1:] + off, false}, {date + "T" + tm[:3] + "-" + tm[4:] + off, false},
		{date + "T" + tm + "." + digits(t, 10, 14, false, label+"longfr") + off, true},
	}
}

func emailSamples(t *rapid.T, label string) []fmtSample {
	local := rapid.SampledFrom([]string{"a", "john.doe", "x_y", "a+b", "A-1", "u.v.w"}).Draw(t, label+"L")
	dom := rapid.SampledFrom([]string{"b.c", "example.com", "x-y.org", "a1.b2.c3", "mail.example.co.uk"}).Draw(t, label+"D")
	ok := local + "@" + dom
	return []fmtSample{
		{ok, true},
		{local + dom, false},
		{"@" + dom, false},
		{local + "@", false},
		{" " + ok, false},
		{ok + " ", false},
		{"<" + ok + ">", false},
		{"<" + ok, false},
		{"", false},
		// mailbox syntax that is more than an address: display names, comments, groups, blanks other than ' '
		{"Barry Gibbs <" + ok + ">" + rapid.SampledFrom([]string{"\t", "\n", "\r", " \t"}).Draw(t, label+"WS1"), false},
		{ok + rapid.SampledFrom([]string{"\t", "\n", "\r\n", "\t "}).Draw(t, label+"WS2"), false},
		{rapid.SampledFrom([]string{"\t", "\n", "\r"}).Draw(t, label+"WS3") + ok, false},
		{ok + " (" + local + ")", false},
		{"(c)" + ok, false},
		{"friends: " + ok + ";", false},
		{local + "@ " + dom, false},
		{local + " @" + dom, false},
		{"\"" + local + "\" <" + ok + ">\t", false},
	}
}

func uriSamples(t *rapid.T, label string) []fmtSample {
	scheme := rapid.SampledFrom([]string{"http", "https", "ftp", "x1"}).Draw(t, label+"S")
	host := rapid.SampledFrom([]string{"a", "example.com", "x-y.org", "127.0.0.1", "a.b.c"}).Draw(t, label+"H")
	port := rapid.SampledFrom([]string{"", ":80", ":8080"}).Draw(t, label+"P")
	path := rapid.SampledFrom([]string{"", "/", "/a/b", "/a.b/c~d", "/x-y_z"}).Draw(t, label+"Pa")
	q := rapid.SampledFrom([]string{"", "?a=1", "?a=1&b=2"}).Draw(t, label+"Q")
	ok := scheme + "://" + host + port + path + q
	return []fmtSample{
		{ok, true},
		{host + path, !true && false},
		{"/" + host + path, false},
		{path + q, false},
		{scheme + "://", false},
		{"", false},
		{host, false},
		// an authority without a host name: only a port and / or user info
		{scheme + "://" + rapid.SampledFrom([]string{":80", ":", ":8080"}).Draw(t, label+"PO") + path + q, false},
		{scheme + "://user@" + port + path, false},
		// a fragment is part of a URI, with or without a path before it
		{scheme + "://" + host + port + path + q + "#top", true},
		{scheme + "://" + host + port + "#top", true},
		// characters no URI contains (a blank, angle brackets, braces, a bar, a caret, a backquote,
		// a backslash, a double quote), wherever they stand; a second '#'; a second '@' in the authority
		{ok + rapid.SampledFrom([]string{" ", "/a b", "/ ", "?a b", "/<a>", "/{a}", "/a|b", "/a^b", "/a`b", "/a\\b", "/a\"b"}).Draw(t, label+"Bad"), false},
		{scheme + "://exa" + rapid.SampledFrom([]string{"<", ">", "\"", " ", "{", "|"}).Draw(t, label+"BadHost") + "mple.com" + path, false},
		{ok + "#a#b", false},
		{scheme + "://a@b@" + host + path, false},
		// control characters in the fragment, a percent sign without its two hex digits in the query, a
		// second colon in the host, square brackets outside an IP literal
		{scheme + "://" + host + port + path + q + rapid.SampledFrom([]string{"#a\tb", "#\x7f", "#a\nb", "#\x01"}).Draw(t, label+"CtlFrag"), false},
		{scheme + "://" + host + port + path + rapid.SampledFrom([]string{"?q=%zz", "?d=100%", "?a=%4", "?%"}).Draw(t, label+"BadPct"), false},
		{scheme + "://" + host + rapid.SampledFrom([]string{":80:80", ":b:80", "::1"}).Draw(t, label+"Colons") + path, false},
		{scheme + "://" + host + port + rapid.SampledFrom([]string{"/[x]", "/a?a[]=1", "/#]", "/a[", "?["}).Draw(t, label+"Brackets"), false},
		// percent-encoded characters in a registered name
		{scheme + "://" + rapid.SampledFrom([]string{"example%2Ecom", "a%2Db", "%41"}).Draw(t, label+"PctHost") + port + path, true},
		// user info may hold percent-encoded characters - an encoded '@' among them
		{scheme + "://" + rapid.SampledFrom([]string{"john%40example.com@", "u:p%40ss@", "a%2Fb@", "user@"}).Draw(t, label+"UserInfo") + host + port + path, true},
	}
}

func uuidSamples(t *rapid.T, label string) []fmtSample {
	hex := func(n int) string {
		var b strings.Builder
		for i := 0; i < n; i++ {
			b.WriteByte("0123456789abcdefABCDEF"[rapid.IntRange(0, 21).Draw(t, label+"h")])
		}
		return b.String()
	}
	ok := hex(8) + "-" + hex(4) + "-" + hex(4) + "-" + hex(4) + "-" + hex(12)
	pos := rapid.IntRange(0, 35).Draw(t, label+"pos")
	bad := []byte(ok)
	if bad[pos] == '-' {
		bad[pos] = 'a'
	} else {
		// letters beyond f, punctuation next to the digits in the ASCII table, control characters
		// (0x10-0x19 differ from '0'-'9' in one bit only), DEL, a byte of a non-ASCII character
		bad[pos] = rapid.SampledFrom([]byte{'g', 'G', 'z', '-', ' ', '/', ':', '@', '`', 0x10, 0x11, 0x15, 0x19, 0x00, 0x1f, 0x7f, 0xc3}).Draw(t, label+"bad")
	}
	return []fmtSample{
		{ok, true},
		{string(bad), false},
		{ok[:35], false},
		{ok + "0", false},
		{"", false},
		{ok[:8] + ok[9:13] + "-" + ok[13:], false}, // moved dash, same length
	}
}

func formatSamples(t *rapid.T, typ, label string) []fmtSample {
	switch typ {
	case "date":
		return dateSamples(t, label)
	case "datetime":
		return dateTimeSamples(t, label)
	case "email":
		return emailSamples(t, label)
	case "uri":
		return uriSamples(t, label)
	case "uuid":
		return uuidSamples(t, label)
	}
	return nil
}

// ---------------------------------------------------------------------------------------

// ScalarCase draws the example node with rules and the probes.
func ScalarCase(t *rapid.T, label string) (*ref.SNode, []Probe) {
	n := &ref.SNode{Kind: ref.SLit}
	var probes []Probe
	add := func(v *ref.Value, l string) { probes = append(probes, Probe{v, l}) }
	kind := rapid.IntRange(0, 9).Draw(t, label+"Kind")
	nullable := rapid.IntRange(0, 3).Draw(t, label+"Nullable")
	switch {
	case kind <= 3: // number
		n.Lit = ref.KNumber
		isFloat := rapid.Bool().Draw(t, label+"Float")
		frac := 0
		if isFloat {
			frac = rapid.IntRange(1, 4).Draw(t, label+"Frac")
		}
		// example value: integer part up to 25 digits sometimes
		ex := new(big.Rat)
		mant := digits(t, 1, rapid.SampledFrom([]int{2, 4, 25}).Draw(t, label+"Digits"), true, label+"Mant")
		ex.SetString(mant)
		ex.Mul(ex, step(frac))
		if rapid.IntRange(0, 2).Draw(t, label+"Neg") == 0 {
			ex.Neg(ex)
		}
		n.Tok = ratString(ex, frac)
		if n.Tok == "-0" || strings.Trim(n.Tok, "-0.") == "" {
			n.Tok = strings.TrimPrefix(n.Tok, "-")
		}
		u := step(frac) // one unit in the example's last place
		tiny := step(frac + rapid.IntRange(1, 20).Draw(t, label+"Tiny"))
		choice := rapid.IntRange(0, 9).Draw(t, label+"NumRules")
		bound := func(name string, exclName string) {
			// parameter relative to the example: equal, one ulp off, far
			var m *big.Rat
			rel := rapid.IntRange(0, 3).Draw(t, label+name+"Rel")
			excl := rapid.IntRange(0, 3).Draw(t, label+name+"Excl") // 0: exclusive true, 1: exclusive false, 2,3: absent
			away := new(big.Rat).Set(u)
			if rel == 2 {
				away.Mul(away, big.NewRat(1000, 1))
			}
			if name == "min" {
				m = new(big.Rat).Sub(ex, away)
			} else {
				m = new(big.Rat).Add(ex, away)
			}
			if rel == 0 && excl != 0 {
				m = new(big.Rat).Set(ex)
			}
			mtok := ratString(m, frac)
			if rel == 3 { // pad the parameter with zeros (same value, other spelling)
				if strings.Contains(mtok, ".") {
					mtok += "00"
				} else if isFloat || true {
					mtok += ".0"
				}
			}
			if strings.Trim(mtok, "-0.") == "" {
				mtok = strings.TrimPrefix(mtok, "-")
			}
			n.Rules = append(n.Rules, TokRule(name, mtok))
			if excl <= 1 {
				r := BoolRule(exclName, excl == 0)
				if rapid.Bool().Draw(t, label+name+"ExclFirst") {
					n.Rules = append([]ref.SRule{r}, n.Rules...)
				} else {
					n.Rules = append(n.Rules, r)
				}
			}
			// probes around the bound
			for _, d := range []*big.Rat{new(big.Rat), u, new(big.Rat).Neg(u), tiny, new(big.Rat).Neg(tiny)} {
				v := new(big.Rat).Add(m, d)
				f := frac
				if d == tiny || d.Cmp(new(big.Rat).Neg(tiny)) == 0 {
					f = frac + 21
				}
				s := strings.TrimRight(ratString(v, f), "0")
				s = strings.TrimSuffix(s, ".")
				if !strings.Contains(ratString(v, f), ".") {
					s = ratString(v, f)
				}
				if strings.Trim(s, "-0.") == "" {
					s = "0"
				}
				add(numVal(s), "bound:"+name)
			}
			// the bound itself in exponent spelling
			d, _ := ref.ParseDecimal(mtok)
			if !d.IsZero() {
				add(numVal(fmt.Sprintf("%se%d", signed(d), d.Exp10)), "bound:"+name+":exp-spelling")
			}
		}
		switch {
		case choice <= 2:
			bound("min", "exclusiveMinimum")
		case choice <= 4:
			bound("max", "exclusiveMaximum")
		case choice == 5:
			bound("min", "exclusiveMinimum")
			bound("max", "exclusiveMaximum")
		case choice == 6 && isFloat:
			p := frac + rapid.IntRange(0, 2).Draw(t, label+"PrecExtra")
			n.Rules = append(n.Rules, TokRule("precision", fmt.Sprint(p)))
			if rapid.Bool().Draw(t, label+"Decimal") {
				n.Rules = append(n.Rules, StrRule("type", "decimal"))
			}
			base := new(big.Rat).Set(ex)
			for _, f := range []int{p - 1, p, p + 1, p + 5} {
				if f < 0 {
					continue
				}
				v := new(big.Rat).Add(base, step(f))
				add(numVal(ratString(v, f)), "bound:precision")
			}
			add(numVal(ratString(ex, p)+"000"), "bound:precision:padded")
			add(numVal(strings.Split(ratString(ex, 0), ".")[0]), "integer-for-decimal")
			if rapid.Bool().Draw(t, label+"PrecMin") {
				bound("min", "exclusiveMinimum")
			}
		case choice == 7:
			if isFloat {
				if rapid.Bool().Draw(t, label+"TypeFloat") {
					n.Rules = append(n.Rules, StrRule("type", "float"))
				}
			} else {
				n.Rules = append(n.Rules, StrRule("type", "integer"))
			}
		case choice == 8:
			n.Rules = append(n.Rules, BoolRule("const", rapid.IntRange(0, 3).Draw(t, label+"ConstTrue") > 0))
			add(numVal(n.Tok+pad(n.Tok)), "const:respelled")
			add(numVal(ratString(new(big.Rat).Add(ex, u), frac)), "const:neighbour")
		}
		// generic numeric probes
		add(numVal(n.Tok), "example")
		add(numVal(IntTok(t, true, label+"PI")), "other-int")
		add(numVal(FloatTok(t, true, label+"PF")), "other-float")
		add(numVal(strings.Split(ratString(ex, 0), ".")[0]), "int-near-example")
	case kind <= 6: // string
		n.Lit = ref.KString
		choice := rapid.IntRange(0, 9).Draw(t, label+"StrRules")
		switch {
		case choice <= 2: // lengths
			s := asciiString(t, rapid.IntRange(0, 8).Draw(t, label+"ExLen"), label+"Ex")
			n.Tok, n.Str = Quote(s), s
			l := len(s)
			which := rapid.IntRange(0, 2).Draw(t, label+"Which")
			lo, hi := -1, -1
			if which != 1 {
				lo = l - rapid.IntRange(0, 2).Draw(t, label+"LoOff")
				if lo < 0 {
					lo = 0
				}
				n.Rules = append(n.Rules, TokRule("minLength", fmt.Sprint(lo)))
			}
			if which != 0 {
				hi = l + rapid.IntRange(0, 2).Draw(t, label+"HiOff")
				n.Rules = append(n.Rules, TokRule("maxLength", fmt.Sprint(hi)))
			}
			for _, b := range []int{lo, hi} {
				if b < 0 {
					continue
				}
				for _, k := range []int{b - 1, b, b + 1} {
					if k < 0 {
						continue
					}
					sv := asciiString(t, k, label+"PL")
					v := strVal(sv)
					if rapid.Bool().Draw(t, label+"Respell") {
						v.Tok = Respell(t, sv, label+"RS") // same decoded length through escapes
					}
					add(v, "bound:length")
				}
				// non-ASCII far from the bound
				add(strVal(strings.Repeat("é", b+4)), "length:non-ascii-far")
				if b >= 1 {
					add(strVal(strings.Repeat("é", b)), "length:non-ascii-near")
				}
			}
		case choice <= 4: // regex
			re := genRegex(t, 3, label+"Re")
			pat := re.pattern()
			anch := rapid.IntRange(0, 3).Draw(t, label+"Anchor")
			if anch == 0 {
				pat = "^" + pat + "$"
			} else if anch == 1 {
				pat = "^" + pat
			}
			ex := re.sample(t, label+"ReEx")
			slashed := anch >= 2 && rapid.IntRange(0, 5).Draw(t, label+"Slashed") == 0
			if slashed {
				// the text searched for begins and ends with a slash (a path): the slashes are part of
				// the pattern, not delimiters
				pat, ex = "/"+pat+"/", "/"+ex+"/"
			}
			n.Tok, n.Str = Quote(ex), ex
			n.Rules = append(n.Rules, ref.SRule{Name: "regex", ValKind: ref.RVScalar, Tok: jsonEscape(pat)})
			for i := 0; i < 3; i++ {
				m := re.sample(t, fmt.Sprint(label, "ReM", i))
				if slashed {
					add(strVal(m), "regex:slashed-pattern:inner-match-only")
					add(strVal("/"+m), "regex:slashed-pattern:inner-match-only")
					m = "/" + m + "/"
				}
				add(strVal(m), "regex:match")
				add(strVal("zz"+m), "regex:match-with-prefix")
				// single edit
				if len(m) > 0 {
					pos := rapid.IntRange(0, len(m)-1).Draw(t, label+"EdPos")
					ed := m[:pos] + rapid.SampledFrom([]string{"", "x", "Q", "9", " "}).Draw(t, label+"Ed") + m[pos+1:]
					add(strVal(ed), "regex:single-edit")
				}
			}
			add(strVal(""), "regex:empty")
		case choice == 5: // formats
			typ := rapid.SampledFrom([]string{"date", "datetime", "email", "uri", "uuid"}).Draw(t, label+"Fmt")
			ss := formatSamples(t, typ, label+"F")
			n.Tok, n.Str = Quote(ss[0].s), ss[0].s
			n.Rules = append(n.Rules, StrRule("type", typ))
			for _, s := range ss {
				l := "format:" + typ + ":negative"
				if s.pos {
					l = "format:" + typ + ":positive"
				}
				add(strVal(s.s), l)
			}
			// a second family
			for _, s := range formatSamples(t, typ, label+"F2") {
				add(strVal(s.s), "format:"+typ+":second-family")
			}
		case choice == 6: // const
			s, dec := StringTok(t, 5, label+"CS")
			n.Tok, n.Str = s, dec
			n.Rules = append(n.Rules, BoolRule("const", rapid.IntRange(0, 3).Draw(t, label+"ConstTrue") > 0))
			add(&ref.Value{Kind: ref.KString, Tok: Respell(t, dec, label+"CR"), Str: dec}, "const:respelled")
			add(strVal(dec+"x"), "const:neighbour")
			if len(dec) > 0 {
				add(strVal(dec[:len(dec)-1]), "const:neighbour")
			}
		case choice == 7:
			s, dec := StringTok(t, 5, label+"TS")
			n.Tok, n.Str = s, dec
			n.Rules = append(n.Rules, StrRule("type", "string"))
		default:
			s, dec := StringTok(t, 5, label+"PS")
			n.Tok, n.Str = s, dec
		}
		add(&ref.Value{Kind: ref.KString, Tok: n.Tok, Str: n.Str}, "example")
		s2, d2 := StringTok(t, 6, label+"Other")
		add(&ref.Value{Kind: ref.KString, Tok: s2, Str: d2}, "other-string")
	case kind == 7: // boolean
		n.Lit, n.Tok = ref.KTrue, "true"
		if rapid.Bool().Draw(t, label+"B") {
			n.Lit, n.Tok = ref.KFalse, "false"
		}
		switch rapid.IntRange(0, 3).Draw(t, label+"BoolRules") {
		case 0:
			n.Rules = append(n.Rules, BoolRule("const", rapid.Bool().Draw(t, label+"ConstTrue")))
		case 1:
			n.Rules = append(n.Rules, StrRule("type", "boolean"))
		}
	case kind == 8: // null
		n.Lit, n.Tok = ref.KNull, "null"
		if rapid.Bool().Draw(t, label+"NullType") {
			n.Rules = append(n.Rules, StrRule("type", "null"))
		}
	default: // enum over mixed kinds; the example is one of the items
		cnt := rapid.IntRange(1, 6).Draw(t, label+"EnumN")
		var items []ref.EnumItem
		seen := map[string]bool{}
		pool := []ref.EnumItem{
			{Kind: ref.KNumber, Tok: "1"}, {Kind: ref.KString, Tok: `"1"`, Str: "1"}, {Kind: ref.KTrue, Tok: "true"},
			{Kind: ref.KString, Tok: `"true"`, Str: "true"}, {Kind: ref.KNull, Tok: "null"}, {Kind: ref.KString, Tok: `"null"`, Str: "null"},
			{Kind: ref.KNumber, Tok: "1.5"}, {Kind: ref.KNumber, Tok: "-2"}, {Kind: ref.KFalse, Tok: "false"}, {Kind: ref.KString, Tok: `""`, Str: ""},
			{Kind: ref.KString, Tok: `"a b"`, Str: "a b"}, {Kind: ref.KNumber, Tok: "100"}, {Kind: ref.KString, Tok: `"é"`, Str: "é"},
			{Kind: ref.KString, Tok: `"\n"`, Str: "\n"}, {Kind: ref.KNumber, Tok: "0.25"},
			// strings that look like numbers: membership is equality of the decoded text, not of a number
			{Kind: ref.KString, Tok: `"1.5"`, Str: "1.5"}, {Kind: ref.KString, Tok: `"100"`, Str: "100"}, {Kind: ref.KString, Tok: `"0"`, Str: "0"},
			// numbers written with trailing zeros (shown as written by the AST, equal by value)
			{Kind: ref.KNumber, Tok: "2.50"}, {Kind: ref.KNumber, Tok: "3.0"}, {Kind: ref.KNumber, Tok: "0.10"},
		}
		if rapid.IntRange(0, 4).Draw(t, label+"EnumBig") == 0 {
			// long lists (a lookup structure instead of a scan is a natural change for these)
			cnt = rapid.IntRange(12, 40).Draw(t, label+"EnumBigN")
		}
		for i := 0; i < cnt; i++ {
			it := rapid.SampledFrom(pool).Draw(t, label+"EnumItem")
			if seen[it.Tok] {
				if cnt > 6 {
					// filler items keep long lists long
					k := len(items)
					if k%2 == 0 {
						it = ref.EnumItem{Kind: ref.KNumber, Tok: fmt.Sprint(200 + k)}
					} else {
						it = ref.EnumItem{Kind: ref.KString, Tok: fmt.Sprintf(`"f%d"`, k), Str: fmt.Sprintf("f%d", k)}
					}
				}
				if seen[it.Tok] {
					continue
				}
			}
			seen[it.Tok] = true
			if it.Kind == ref.KString && rapid.IntRange(0, 3).Draw(t, label+"EnumRespell") == 0 {
				// the same string written with escapes (inside the annotation)
				it.Tok = Respell(t, it.Str, label+"EnumRS")
			}
			items = append(items, it)
		}
		ex := items[rapid.IntRange(0, len(items)-1).Draw(t, label+"EnumEx")]
		n.Lit, n.Tok, n.Str = ex.Kind, ex.Tok, ex.Str
		n.Rules = append(n.Rules, ref.SRule{Name: "enum", ValKind: ref.RVEnum, Enum: items})
		if rapid.IntRange(0, 3).Draw(t, label+"EnumType") == 0 {
			n.Rules = append(n.Rules, StrRule("type", "enum"))
		}
		for _, it := range pool {
			add(&ref.Value{Kind: it.Kind, Tok: it.Tok, Str: it.Str}, "enum:pool-item")
		}
		for _, it := range items {
			switch it.Kind {
			case ref.KNumber:
				add(numVal(it.Tok+pad(it.Tok)), "enum:respelled-number")
				add(strVal(it.Tok), "enum:kind-flip")
			case ref.KString:
				add(&ref.Value{Kind: ref.KString, Tok: Respell(t, it.Str, label+"ER"), Str: it.Str}, "enum:respelled-string")
				if d, ok := ref.ParseDecimal(it.Str); ok {
					// another numeral with the same value, as a string: a different text, so not a member
					for _, alt := range []string{it.Str + pad(it.Str), d.Expansion() + ".0", "-" + it.Str, d.Expansion() + "e0"} {
						if alt != it.Str {
							add(strVal(alt), "enum:kind-flip:number-looking-string")
						}
					}
				}
				if v, err := ref.Parse([]byte(it.Str)); err == nil && v.Kind != ref.KObject && v.Kind != ref.KArray {
					add(v, "enum:kind-flip")
				}
			default:
				add(strVal(it.Tok), "enum:kind-flip")
			}
		}
	}
	// const next to other value rules (the example still has to obey all of them)
	if (n.Lit == ref.KNumber || n.Lit == ref.KString) && len(n.Rules) > 0 && n.Rule("const") == nil && n.Rule("enum") == nil && !n.IsAny() &&
		rapid.IntRange(0, 7).Draw(t, label+"AlsoConst") == 0 {
		n.Rules = append(n.Rules, BoolRule("const", rapid.IntRange(0, 3).Draw(t, label+"AlsoConstTrue") > 0))
	}
	switch nullable {
	case 0:
		n.Rules = append(n.Rules, BoolRule("nullable", true))
	case 1:
		n.Rules = append(n.Rules, BoolRule("nullable", false))
	}
	if len(n.Rules) > 1 && rapid.Bool().Draw(t, label+"Shuffle") {
		n.Rules = rapid.Permutation(n.Rules).Draw(t, label+"Perm")
	}
	// one value of every kind
	add(Null(), "null")
	add(&ref.Value{Kind: ref.KTrue, Tok: "true"}, "kind:boolean")
	add(numVal("7"), "kind:integer")
	add(numVal("7.25"), "kind:float")
	add(strVal("s"), "kind:string")
	return n, probes
}

func signed(d ref.Decimal) string {
	if d.Neg {
		return "-" + d.Mant.String()
	}
	return d.Mant.String()
}

// pad returns a suffix that re-spells a numeral with the same value (trailing zeros).
func pad(tok string) string {
	if strings.Contains(tok, ".") {
		return "0"
	}
	return "e0"
}

func asciiString(t *rapid.T, n int, label string) string {
	var b strings.Builder
	for i := 0; i < n; i++ {
		b.WriteByte("abcxyz019 _-\"\\\n/"[rapid.IntRange(0, 15).Draw(t, label)])
	}
	return b.String()
}

// Regex is the exported handle on the small RE2 grammar: a pattern and a sampler of matches.
type Regex struct{ n *reNode }

func GenRegex(t *rapid.T, depth int, label string) Regex { return Regex{genRegex(t, depth, label)} }
func (r Regex) Pattern() string                         { return r.n.pattern() }
func (r Regex) Sample(t *rapid.T, label string) string  { return r.n.sample(t, label) }
func JSONEscape(s string) string                        { return jsonEscape(s) }
