package c03

import (
	"encoding/json"
	"fmt"
	"sort"
	"strings"
	"testing"

	"pgregory.net/rapid"

	"verif/gen"
	"verif/lib"
	"verif/ref"
	"verif/run"
)

func TestMain(m *testing.M) { gen.Avoided = run.Avoided; run.Main(m, "C03") }

const chk = "composition"

type Case struct {
	Spec  lib.Spec   `json:"spec"`
	Graph *ref.Graph `json:"graph"`
	Doc   string     `json:"doc"`
}

func init() {
	run.RegisterReplay(chk, func(t run.TB, raw json.RawMessage) {
		var c Case
		if err := json.Unmarshal(raw, &c); err != nil {
			t.Fatalf("bad case: %v", err)
		}
		check(t, c)
	})
}

type outcome struct {
	judged, accepted bool
	feat             map[string]bool
}

func check(t run.TB, c Case) outcome {
	doc, perr := ref.Parse([]byte(c.Doc))
	if perr != nil {
		t.Fatalf("harness bug: document is not JSON: %v", perr)
	}
	want := ref.Accepts(c.Graph, doc)
	add, chkRes, val := lib.ValidateSpec(c.Spec, []byte(c.Doc))
	if add.Panic != "" || chkRes.Panic != "" || val.Panic != "" {
		run.Fail(t, chk, c, "panic: add=%v check=%v validate=%v", add, chkRes, val)
	}
	if !add.OK || !chkRes.OK {
		r := chkRes
		if !add.OK {
			r = add
		}
		switch r.Code {
		case 301, 302, 303, 304, 1302, 1303, 1304:
			// the generator writes syntactically valid texts, adds every type it names, makes no
			// required cycles and uses string types (or references to them) for key shortcuts: a
			// rejection for one of these reasons is a wrong verdict about the graph, not a discard
			run.Fail(t, chk, c, "Check rejects a generated type graph for a reason the generator excludes by construction: %v", r)
		}
		// the graph is outside the fragment Check accepts: discarded by the caller
		return outcome{}
	}
	if want.Unspecified != "" {
		run.Excluded("unspecified:" + want.Unspecified)
		return outcome{}
	}
	if val.OK != want.OK {
		run.Fail(t, chk, c, "Validate=%v, set semantics of the type graph say accept=%v", val, want.OK)
	}
	return outcome{true, val.OK, want.Features}
}

func specOf(pg gen.PrintedGraph, keysOpt bool) lib.Spec {
	sp := lib.Spec{Schema: pg.Schema, KeysOptional: keysOpt}
	for _, t := range pg.Types {
		sp.Types = append(sp.Types, lib.Named{Name: t.Name, Text: t.Text})
	}
	return sp
}

func TestComposition(t *testing.T) {
	run.SkipIfReplaying(t)
	defer run.Done(t, chk)
	rapid.Check(t, func(t *rapid.T) {
		gc := gen.GenGraph(t, gen.GraphOpts{MaxTypes: 6, Recursion: true, MixedRule: true}, "g")
		pg := gc.Print(nil)
		sp := specOf(pg, gc.G.KeysOptional)
		// the file name of a schema object is independent of the name it is added under: sometimes
		// every object gets the same one (anonymous `or` types must still be kept apart)
		sp.SameFile = rapid.IntRange(0, 2).Draw(t, "sameFile") == 0
		if sp.SameFile {
			run.Label("all-objects-with-one-file-name")
		}
		s, add := lib.Build(sp)
		cr := lib.Check(s)
		if add.Panic != "" || cr.Panic != "" {
			run.Fail(t, chk, Case{Spec: sp, Graph: gc.G, Doc: "null"}, "panic while loading: add=%v check=%v", add, cr)
		}
		if !add.OK || !cr.OK {
			run.Label("graph-rejected-by-check")
			r := cr
			if !add.OK {
				r = add
			}
			check(t, Case{Spec: sp, Graph: gc.G, Doc: "null"}) // fails when the reason is one the generator excludes
			run.Note("graph rejected by Check (discarded): code %d %s", r.Code, r.Msg)
			run.Eval(chk, false)
			return
		}
		run.Label("graph-accepted-by-check")
		ndocs := rapid.IntRange(3, 10).Draw(t, "ndocs")
		for d := 0; d < ndocs; d++ {
			var doc *ref.Value
			if rapid.IntRange(0, 9).Draw(t, "flavour") == 0 {
				doc = gen.Value(t, gen.DocOpts{Depth: 2, Width: 3, Exp: true, StrLen: 3, KeyPool: []string{"a", "b", "c", "id", "n", "kab", "zz"}}, "rnd")
				run.Label("doc:random")
			} else {
				doc = gc.Instance(t, gc.G.Root, gc.G.KeysOptional, 4, "inst")
				nm := rapid.IntRange(0, 2).Draw(t, "nmut")
				for k := 0; k < nm; k++ {
					var name string
					doc, name = gen.Mutate(t, doc, []string{"a", "b", "c", "id", "n", "kab", "kx", "L1234", "self"}, "mut")
					run.Label("mut:" + name)
				}
				if nm == 0 {
					run.Label("doc:instance")
				}
			}
			text := gen.Print(doc, nil)
			c := Case{Spec: sp, Graph: gc.G, Doc: string(text)}
			o := check(t, c)
			nt := false
			if o.judged {
				var fs []string
				for f := range o.feat {
					fs = append(fs, f)
					run.Label("feature:" + f)
				}
				sort.Strings(fs)
				nt = len(fs) > 0
				if o.accepted {
					run.Label("accepted")
				} else {
					run.Label("rejected")
				}
				if nt {
					run.Sample(chk, map[string]any{"schema": sp.Schema, "types": sp.Types, "doc": string(text), "accepted": o.accepted, "features": strings.Join(fs, ",")})
				}
			}
			run.Eval(chk, nt, fmt.Sprint(sp), string(text))
		}
	})
}

func TestReplay(t *testing.T) { run.TestReplay(t) }
