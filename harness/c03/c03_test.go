package c03

import (
	"encoding/json"
	"fmt"
	"regexp"
	"sort"
	"strings"
	"testing"

	"pgregory.net/rapid"

	"verif/gen"
	"verif/lib"
	"verif/ref"
	"verif/run"
)

func TestMain(m *testing.M) { gen.Avoided = run.Avoided; run.Main(m, "C03") }

const chk = "composition"

type Case struct {
	Spec  lib.Spec   `json:"spec"`
	Graph *ref.Graph `json:"graph"`
	Doc   string     `json:"doc"`
}

func init() {
	run.RegisterReplay(chk, func(t run.TB, raw json.RawMessage) {
		var c Case
		if err := json.Unmarshal(raw, &c); err != nil {
			t.Fatalf("bad case: %v", err)
		}
		check(t, c)
	})
}

type outcome struct {
	judged, accepted bool
	feat             map[string]bool
}

func check(t run.TB, c Case) outcome {
	doc, perr := ref.Parse([]byte(c.Doc))
	if perr != nil {
		t.Fatalf("harness bug: document is not JSON: %v", perr)
	}
	want := ref.Accepts(c.Graph, doc)
	add, chkRes, val := lib.ValidateSpec(c.Spec, []byte(c.Doc))
	if add.Panic != "" || chkRes.Panic != "" || val.Panic != "" {
		run.Fail(t, chk, c, "panic: add=%v check=%v validate=%v", add, chkRes, val)
	}
	if !add.OK || !chkRes.OK {
		r := chkRes
		if !add.OK {
			r = add
		}
		switch r.Code {
		case 301, 302, 303, 304, 1302, 1303, 1304:
			// the generator writes syntactically valid texts, adds every type it names, makes no
			// required cycles and uses string types (or references to them) for key shortcuts: a
			// rejection for one of these reasons is a wrong verdict about the graph, not a discard
			run.Fail(t, chk, c, "Check rejects a generated type graph for a reason the generator excludes by construction: %v", r)
		}
		// the graph is outside the fragment Check accepts: discarded by the caller
		return outcome{}
	}
	if want.Unspecified != "" {
		run.Excluded("unspecified:" + want.Unspecified)
		return outcome{}
	}
	if val.OK != want.OK {
		run.Fail(t, chk, c, "Validate=%v, set semantics of the type graph say accept=%v", val, want.OK)
	}
	return outcome{true, val.OK, want.Features}
}

func specOf(pg gen.PrintedGraph, keysOpt bool, optTypes map[string]bool) lib.Spec {
	sp := lib.Spec{Schema: pg.Schema, KeysOptional: keysOpt}
	for _, t := range pg.Types {
		sp.Types = append(sp.Types, lib.Named{Name: t.Name, Text: t.Text, KeysOptional: optTypes[t.Name]})
	}
	return sp
}

var reTypeName = regexp.MustCompile(`@[A-Za-z0-9_]+`)

// nestTypes: every type the root text does not name itself is added, not to the root, but to each
// type whose text names it (and so on downwards) - the root gets to know it through the tables of
// the types it has. The names mean the same everywhere, so nothing changes for any document.
func nestTypes(sp lib.Spec) (lib.Spec, bool) {
	direct := map[string]bool{}
	for _, n := range reTypeName.FindAllString(sp.Schema, -1) {
		direct[n] = true
	}
	byName := map[string]lib.Named{}
	for _, t := range sp.Types {
		byName[t.Name] = t
	}
	var build func(t lib.Named, path map[string]bool) lib.Named
	build = func(t lib.Named, path map[string]bool) lib.Named {
		seen := map[string]bool{}
		for _, n := range reTypeName.FindAllString(t.Text, -1) {
			d, ok := byName[n]
			if !ok || direct[n] || path[n] || seen[n] || n == t.Name {
				continue
			}
			seen[n] = true
			path[n] = true
			t.Inner = append(t.Inner, build(d, path))
			delete(path, n)
		}
		return t
	}
	out := sp
	out.Types = nil
	nested := false
	for _, t := range sp.Types {
		if !direct[t.Name] {
			continue
		}
		nt := build(t, map[string]bool{t.Name: true})
		nested = nested || len(nt.Inner) > 0
		out.Types = append(out.Types, nt)
	}
	// a type nobody reaches from the root stays where it was
	reach := map[string]bool{}
	var mark func(ts []lib.Named)
	mark = func(ts []lib.Named) {
		for _, t := range ts {
			reach[t.Name] = true
			mark(t.Inner)
		}
	}
	mark(out.Types)
	for _, t := range sp.Types {
		if !reach[t.Name] {
			out.Types = append(out.Types, t)
		}
	}
	return out, nested
}

func TestComposition(t *testing.T) {
	run.SkipIfReplaying(t)
	defer run.Done(t, chk)
	rapid.Check(t, func(t *rapid.T) {
		gc := gen.GenGraph(t, gen.GraphOpts{MaxTypes: 6, Recursion: true, MixedRule: true}, "g")
		pg := gc.Print(nil)
		// some object types are created with KeysAreOptionalByDefault (their keys stay optional where
		// the type is referenced and where its properties are inherited)
		gc.G.OptTypes = map[string]bool{}
		for _, ty := range pg.Types {
			if n := gc.G.Types[ty.Name]; n != nil && n.Kind == ref.SObj && rapid.IntRange(0, 3).Draw(t, "optType") == 0 {
				gc.G.OptTypes[ty.Name] = true
				run.Label("type-with-keys-optional-by-default")
			}
		}
		sp := specOf(pg, gc.G.KeysOptional, gc.G.OptTypes)
		// the file name of a schema object is independent of the name it is added under: sometimes
		// every object gets the same one (anonymous `or` types must still be kept apart)
		sp.SameFile = rapid.IntRange(0, 2).Draw(t, "sameFile") == 0
		if sp.SameFile {
			run.Label("all-objects-with-one-file-name")
		}
		if rapid.IntRange(0, 2).Draw(t, "nest") == 0 {
			if nsp, nested := nestTypes(sp); nested {
				sp = nsp
				sp.Types[0].InnerLate = rapid.Bool().Draw(t, "innerLate")
				run.Label("types-known-through-the-tables-of-other-types")
			}
		}
		s, add := lib.Build(sp)
		cr := lib.Check(s)
		if add.Panic != "" || cr.Panic != "" {
			run.Fail(t, chk, Case{Spec: sp, Graph: gc.G, Doc: "null"}, "panic while loading: add=%v check=%v", add, cr)
		}
		if !add.OK || !cr.OK {
			run.Label("graph-rejected-by-check")
			r := cr
			if !add.OK {
				r = add
			}
			check(t, Case{Spec: sp, Graph: gc.G, Doc: "null"}) // fails when the reason is one the generator excludes
			run.Note("graph rejected by Check (discarded): code %d %s", r.Code, r.Msg)
			run.Eval(chk, false)
			return
		}
		run.Label("graph-accepted-by-check")
		ndocs := rapid.IntRange(3, 10).Draw(t, "ndocs")
		for d := 0; d < ndocs; d++ {
			var doc *ref.Value
			if rapid.IntRange(0, 9).Draw(t, "flavour") == 0 {
				doc = gen.Value(t, gen.DocOpts{Depth: 2, Width: 3, Exp: true, StrLen: 3, KeyPool: []string{"a", "b", "c", "id", "n", "kab", "zz"}}, "rnd")
				run.Label("doc:random")
			} else {
				doc = gc.Instance(t, gc.G.Root, gc.G.KeysOptional, 4, "inst")
				nm := rapid.IntRange(0, 2).Draw(t, "nmut")
				for k := 0; k < nm; k++ {
					var name string
					doc, name = gen.Mutate(t, doc, []string{"a", "b", "c", "id", "n", "kab", "kx", "L1234", "self"}, "mut")
					run.Label("mut:" + name)
				}
				if nm == 0 {
					run.Label("doc:instance")
				}
			}
			text := gen.Print(doc, nil)
			c := Case{Spec: sp, Graph: gc.G, Doc: string(text)}
			o := check(t, c)
			nt := false
			if o.judged {
				var fs []string
				for f := range o.feat {
					fs = append(fs, f)
					run.Label("feature:" + f)
				}
				sort.Strings(fs)
				nt = len(fs) > 0
				if o.accepted {
					run.Label("accepted")
				} else {
					run.Label("rejected")
				}
				if nt {
					run.Sample(chk, map[string]any{"schema": sp.Schema, "types": sp.Types, "doc": string(text), "accepted": o.accepted, "features": strings.Join(fs, ",")})
				}
			}
			run.Eval(chk, nt, fmt.Sprint(sp), string(text))
		}
	})
}

// Inheritance is a set operation: the order in which allOf lists its parents changes neither
// Check's verdict nor any validation verdict; and when the additionalProperties rules that meet in
// one object (own and inherited) are all the same, that rule decides the keys no example names.
const chkOrder = "allOf-order"

type OrderCase struct {
	Types   []lib.Named `json:"types"`
	Child   []string    `json:"child_variants"` // the same child with its allOf list in different orders
	Docs    []string    `json:"docs"`
	SameAP  string      `json:"the_one_additionalProperties_rule,omitempty"` // set when all rules that meet are equal ("" none at all)
	AllSame bool        `json:"all_rules_equal"`
	// Required / Optional: the property requirements the child ends up with, own and inherited
	// (through one or two steps)
	Required []string `json:"required_keys"`
	Optional []string `json:"optional_keys,omitempty"`
}

func init() {
	run.RegisterReplay(chkOrder, func(t run.TB, raw json.RawMessage) {
		var c OrderCase
		if err := json.Unmarshal(raw, &c); err != nil {
			t.Fatalf("bad case: %v", err)
		}
		checkOrder(t, c)
	})
}

func checkOrder(t run.TB, c OrderCase) (accepted bool) {
	type verdicts struct {
		check lib.Res
		docs  []bool
	}
	var all []verdicts
	for _, child := range c.Child {
		sp := lib.Spec{Schema: child, Types: c.Types}
		s, add := lib.Build(sp)
		cr := lib.Check(s)
		if add.Panic != "" || cr.Panic != "" {
			run.Fail(t, chkOrder, c, "panic: add=%v check=%v", add, cr)
		}
		v := verdicts{check: cr}
		if !add.OK {
			v.check = add
		}
		if v.check.OK {
			for _, d := range c.Docs {
				r := lib.Validate(s, []byte(d))
				if r.Panic != "" {
					run.Fail(t, chkOrder, c, "Validate panicked on %s: %v", d, r)
				}
				v.docs = append(v.docs, r.OK)
			}
		}
		all = append(all, v)
	}
	for i := 1; i < len(all); i++ {
		if all[i].check.OK != all[0].check.OK {
			run.Fail(t, chkOrder, c, "Check depends on the order of the allOf list: %q -> %v, %q -> %v", c.Child[0], all[0].check, c.Child[i], all[i].check)
		}
		for k := range all[i].docs {
			if all[i].docs[k] != all[0].docs[k] {
				run.Fail(t, chkOrder, c, "document %s: accepted=%v with %q, accepted=%v with %q", c.Docs[k], all[0].docs[k], c.Child[0], all[i].docs[k], c.Child[i])
			}
		}
	}
	if c.AllSame {
		if !all[0].check.OK {
			run.Fail(t, chkOrder, c, "Check rejects an inheritance in which every additionalProperties rule is the same: %v", all[0].check)
		}
		for k, d := range c.Docs {
			doc, _ := ref.Parse([]byte(d))
			want := true
			have := map[string]bool{}
			known := map[string]bool{}
			for _, k := range append(append([]string{}, c.Required...), c.Optional...) {
				known[k] = true
			}
			for _, m := range doc.Members {
				have[m.Key] = true
				switch {
				case known[m.Key]:
					if m.Val.Kind != ref.KNumber {
						want = false
					}
				default:
					switch c.SameAP {
					case "", "false":
						want = false
					case `"integer"`:
						want = want && m.Val.Kind == ref.KNumber
					case `"string"`:
						want = want && m.Val.Kind == ref.KString
					}
				}
			}
			for _, k := range c.Required {
				if !have[k] {
					want = false
				}
			}
			if all[0].docs[k] != want {
				run.Fail(t, chkOrder, c, "document %s: accepted=%v, the inherited requirements and additionalProperties %s say %v", d, all[0].docs[k], c.SameAP, want)
			}
		}
	}
	return all[0].check.OK
}

func TestAllOfOrder(t *testing.T) {
	run.SkipIfReplaying(t)
	defer run.Done(t, chkOrder)
	aps := []string{"", "", "true", "false", `"any"`, `"integer"`, `"string"`}
	rapid.Check(t, func(t *rapid.T) {
		keys := []string{"a", "b", "c"}[:rapid.IntRange(2, 3).Draw(t, "nParents")]
		var c OrderCase
		var met []string // the additionalProperties rules that meet in the child
		var names []string
		c.Required = []string{"own"}
		grand := false
		for _, k := range keys {
			ap := rapid.SampledFrom(aps).Draw(t, "ap"+k)
			// a parent may itself inherit from a grandparent (whose key "g" is required), and its own
			// key may be optional - so that it brings no requirement of its own
			middle := rapid.IntRange(0, 3).Draw(t, "middle"+k) == 0 && !grand // (one path to the grandparent: a diamond is a duplicate-key error)
			optOwn := rapid.IntRange(0, 2).Draw(t, "optOwn"+k) == 0
			var rules []string
			if middle {
				rules = append(rules, "allOf: \"@pg\"")
				if !grand {
					grand = true
					c.Required = append(c.Required, "g")
				}
			}
			if ap != "" {
				rules = append(rules, "additionalProperties: "+ap)
				met = append(met, ap)
			}
			text := "{"
			if len(rules) > 0 {
				text += " // {" + strings.Join(rules, ", ") + "}"
			}
			text += "\n  \"" + k + "\": 1"
			if optOwn {
				text += " // {optional: true}"
				c.Optional = append(c.Optional, k)
			} else {
				c.Required = append(c.Required, k)
			}
			text += "\n}"
			c.Types = append(c.Types, lib.Named{Name: "@p" + k, Text: text})
			names = append(names, "@p"+k)
		}
		if grand {
			c.Types = append(c.Types, lib.Named{Name: "@pg", Text: "{\n  \"g\": 1\n}"})
		}
		own := rapid.SampledFrom(append([]string{"", "", ""}, aps...)).Draw(t, "ownAP")
		if own != "" {
			met = append(met, own)
		}
		for _, perm := range [][]int{{0, 1, 2}, {1, 0, 2}, {2, 1, 0}, {1, 2, 0}} {
			var list []string
			for _, i := range perm {
				if i < len(names) {
					list = append(list, "\""+names[i]+"\"")
				}
			}
			rules := "allOf: [" + strings.Join(list, ", ") + "]"
			if own != "" {
				if rapid.Bool().Draw(t, "ownFirst") {
					rules = "additionalProperties: " + own + ", " + rules
				} else {
					rules += ", additionalProperties: " + own
				}
			}
			c.Child = append(c.Child, "{ // {"+rules+"}\n  \"own\": 1\n}")
		}
		c.AllSame = true
		for _, m := range met {
			if m != met[0] {
				c.AllSame = false
			}
		}
		if c.AllSame && len(met) > 0 {
			c.SameAP = met[0]
		}
		full := ""
		for _, k := range keys {
			full += "\"" + k + "\":1,"
		}
		if grand {
			full += "\"g\":1,"
		}
		c.Docs = []string{"{" + full + "\"own\":2}", strings.Replace("{"+full+"\"own\":2}", "\"g\":1,", "", 1), "{" + full + "\"own\":2,\"z\":3}", "{" + full + "\"own\":2,\"z\":\"s\"}", "{" + full + "\"own\":2,\"z\":null}",
			"{\"own\":2,\"z\":3}", "{" + full + "\"z\":3}", "{" + full + "\"own\":\"s\"}", "{" + full + "\"own\":2,\"y\":1,\"z\":\"s\"}"}
		acc := checkOrder(t, c)
		run.Eval(chkOrder, len(met) >= 2, fmt.Sprint(c.Types), c.Child[0])
		if acc {
			run.Label("inheritance-accepted")
		} else {
			run.Label("inheritance-rejected-in-every-order")
		}
		if c.AllSame {
			run.Label("all-additionalProperties-rules-equal")
		} else {
			run.Label("different-additionalProperties-rules-meet")
		}
		run.Sample(chkOrder, c)
	})
}

// A type added to another type under a name the root defines itself: whatever that inner definition
// means inside the type it was added to, a reference written in the ROOT text means the root's own
// type of that name.
const chkShadow = "inner-type-does-not-rebind-the-root"

type ShadowCase struct {
	Spec lib.Spec `json:"spec"`
	Good []string `json:"documents_of_which_one_must_be_accepted"`
	Bad  []string `json:"documents_that_must_be_rejected"`
}

func init() {
	run.RegisterReplay(chkShadow, func(t run.TB, raw json.RawMessage) {
		var c ShadowCase
		if err := json.Unmarshal(raw, &c); err != nil {
			t.Fatalf("bad case: %v", err)
		}
		checkShadow(t, c)
	})
}

func checkShadow(t run.TB, c ShadowCase) {
	s, add := lib.Build(c.Spec)
	cr := lib.Check(s)
	if add.Panic != "" || cr.Panic != "" {
		run.Fail(t, chkShadow, c, "panic: add=%v check=%v", add, cr)
	}
	if !add.OK || !cr.OK {
		run.Fail(t, chkShadow, c, "Check rejects the schema: add=%v check=%v", add, cr)
	}
	any := false
	var last lib.Res
	for _, d := range c.Good {
		last = lib.Validate(s, []byte(d))
		any = any || last.OK
	}
	if !any {
		run.Fail(t, chkShadow, c, "the root's own reference is satisfied in each of %v (the inner part is written once for either reading of the inner name), yet all are rejected; last: %v", c.Good, last)
	}
	for _, d := range c.Bad {
		if v := lib.Validate(s, []byte(d)); v.OK {
			run.Fail(t, chkShadow, c, "document %s violates the root's own type of the shadowed name but is accepted", d)
		}
	}
}

func TestInnerTypeDoesNotRebindRoot(t *testing.T) {
	run.SkipIfReplaying(t)
	defer run.Done(t, chkShadow)
	rapid.Check(t, func(t *rapid.T) {
		// the root's @x is a number, the @x added to @p a string (or the other way round)
		rootX, innerX := "1 // {min: 0}", "\"s\" // {minLength: 1}"
		okB, badB, inA := "5", "\"str\"", []string{"7", "\"str\""}
		if rapid.Bool().Draw(t, "swap") {
			rootX, innerX = innerX, rootX
			okB, badB = badB, okB
		}
		// @p needs something the root does not know yet for its table to be looked at: an or rule
		// with rule sets, or one more inner type
		pText := rapid.SampledFrom([]string{
			"{\n  \"a\": @x,\n  \"o\": 1 // {or: [{type: \"integer\"}, {type: \"string\"}]}\n}",
			"{\n  \"a\": @x,\n  \"o\": @only\n}",
			"{\n  \"a\": @x, // {optional: true}\n  \"o\": 1 // {or: [{type: \"integer\", min: 0}, \"null\"]}\n}",
		}).Draw(t, "pText")
		inner := []lib.Named{{Name: "@x", Text: innerX}}
		if strings.Contains(pText, "@only") {
			inner = append(inner, lib.Named{Name: "@only", Text: "1"})
		}
		if rapid.Bool().Draw(t, "innerOrder") {
			inner[0], inner[len(inner)-1] = inner[len(inner)-1], inner[0]
		}
		types := []lib.Named{{Name: "@x", Text: rootX}, {Name: "@p", Text: pText, Inner: inner, InnerLate: rapid.Bool().Draw(t, "late")}}
		if rapid.Bool().Draw(t, "typeOrder") {
			types[0], types[1] = types[1], types[0]
		}
		root := rapid.SampledFrom([]string{"{\n  \"b\": @x,\n  \"p\": @p\n}", "{\n  \"p\": @p,\n  \"b\": @x\n}", "{\n  \"b\": [@x],\n  \"p\": @p // {optional: true}\n}",
			"{ // {allOf: \"@p\"}\n  \"b\": @x\n}"}).Draw(t, "root")
		inherits := strings.Contains(root, "allOf")
		b := func(v string) string {
			if strings.Contains(root, "[@x]") {
				return "[" + v + "]"
			}
			return v
		}
		c := ShadowCase{Spec: lib.Spec{Schema: root, Types: types}}
		for _, a := range inA {
			if inherits {
				// the root inherits the properties of @p instead of having a property of that type
				c.Good = append(c.Good, "{\"b\":"+b(okB)+",\"a\":"+a+",\"o\":1}")
				c.Bad = append(c.Bad, "{\"b\":"+b(badB)+",\"a\":"+a+",\"o\":1}")
				continue
			}
			c.Good = append(c.Good, "{\"b\":"+b(okB)+",\"p\":{\"a\":"+a+",\"o\":1}}")
			c.Bad = append(c.Bad, "{\"b\":"+b(badB)+",\"p\":{\"a\":"+a+",\"o\":1}}")
		}
		checkShadow(t, c)
		run.Eval(chkShadow, true, fmt.Sprint(c.Spec))
		run.Sample(chkShadow, c)
	})
}

// ---------------------------------------------------------------------------------------
// Truth tables: a position with an "or" rule (or a reference to a type that has one) accepts exactly
// the union of what its alternatives accept. Every alternative comes with the probes it admits; the
// expected verdict of a probe is the OR over the alternatives. Probes on which an alternative's
// verdict is not certain (non-empty containers under by-name container alternatives) are left out.
const chkTable = "alternatives-truth-table"

type TableCase struct {
	Spec   lib.Spec `json:"spec"`
	Accept []string `json:"documents_that_must_be_accepted"`
	Reject []string `json:"documents_that_must_be_rejected"`
	// MustCheck: the example is a value of one of the alternatives, so Check has to accept the schema
	MustCheck bool `json:"check_must_accept,omitempty"`
}

func init() {
	run.RegisterReplay(chkTable, func(t run.TB, raw json.RawMessage) {
		var c TableCase
		if err := json.Unmarshal(raw, &c); err != nil {
			t.Fatalf("bad case: %v", err)
		}
		checkTable(t, c)
	})
}

func checkTable(t run.TB, c TableCase) bool {
	s, add := lib.Build(c.Spec)
	cr := lib.Check(s)
	if add.Panic != "" || cr.Panic != "" {
		run.Fail(t, chkTable, c, "panic: add=%v check=%v", add, cr)
	}
	if !add.OK || !cr.OK {
		if c.MustCheck {
			run.Fail(t, chkTable, c, "the example is a value of one of the alternatives, yet Check refuses the schema (the position then accepts nothing): add=%v check=%v", add, cr)
		}
		return false
	}
	for _, d := range c.Accept {
		if v := lib.Validate(s, []byte(d)); !v.OK {
			run.Fail(t, chkTable, c, "document %s is admitted by one of the alternatives but rejected: %v", d, v)
		}
	}
	for _, d := range c.Reject {
		if v := lib.Validate(s, []byte(d)); v.OK {
			run.Fail(t, chkTable, c, "document %s is admitted by none of the alternatives but accepted", d)
		}
	}
	return true
}

func TestAlternativeTables(t *testing.T) {
	run.SkipIfReplaying(t)
	defer run.Done(t, chkTable)
	probes := []string{"[]", "[1]", "{}", `{"a":1}`, "1", "5", `"ab"`, `"y"`, "null", "true", "1.5"}
	type alt struct {
		text  string
		admit string // space separated probes; "*" all
		arr   bool   // says something about arrays beyond the empty one that this table does not model
		obj   bool
	}
	pool := []alt{
		{`"string"`, `"ab" "y"`, false, false}, {`"integer"`, "1 5", false, false}, {`"null"`, "null", false, false}, {`"boolean"`, "true", false, false},
		{`{type: "integer", min: 2}`, "5", false, false}, {`{type: "string", minLength: 2}`, `"ab"`, false, false}, {`{enum: ["y", 1]}`, `"y" 1`, false, false},
		{`{type: "float"}`, "1 5 1.5", false, false}, // (rule sets that name no type are left out: which kind they stand for is not stated)
		{`{type: "array", minItems: 1}`, "", true, false}, {`{type: "array", minItems: 2, maxItems: 3}`, "", true, false},
		{`{type: "array"}`, "[]", true, false}, {`{type: "array", maxItems: 3}`, "[]", true, false}, {`{type: "array", minItems: 0}`, "[]", true, false}, {`{type: "array", maxItems: 0}`, "[]", true, false},
		{`{type: "object"}`, "{}", false, true}, {`"any"`, "*", false, false}, {`{type: "any"}`, "*", false, false},
	}
	rapid.Check(t, func(t *rapid.T) {
		var c TableCase
		fam := rapid.IntRange(0, 3).Draw(t, "family")
		switch fam {
		case 0, 1:
			n := rapid.IntRange(2, 3).Draw(t, "n")
			var alts []alt
			seen := map[string]bool{}
			for len(alts) < n {
				a := rapid.SampledFrom(pool).Draw(t, "alt")
				if !seen[a.text] {
					seen[a.text] = true
					alts = append(alts, a)
				}
			}
			admits := func(d string) (yes, certain bool) {
				certain = true
				for _, a := range alts {
					if a.admit == "*" {
						return true, true
					}
					for _, x := range strings.Fields(a.admit) {
						if x == d {
							yes = true
						}
					}
					if a.arr && strings.HasPrefix(d, "[") && d != "[]" || a.obj && strings.HasPrefix(d, "{") && d != "{}" {
						certain = false
					}
				}
				return yes, certain || yes
			}
			// the example: a scalar some alternative admits
			example := ""
			for _, e := range []string{"1", "5", `"ab"`, `"y"`, "true", "null", "1.5"} {
				if y, _ := admits(e); y {
					example = e
					break
				}
			}
			if example == "" {
				return
			}
			var texts []string
			for _, a := range alts {
				texts = append(texts, a.text)
			}
			or := example + " // {or: [" + strings.Join(texts, ", ") + "]}"
			wrap := func(d string) string { return d }
			switch rapid.IntRange(0, 3).Draw(t, "host") {
			case 0:
				c.Spec = lib.Spec{Schema: or}
			case 1:
				c.Spec = lib.Spec{Schema: "{\n  \"p\": " + or + "\n}"}
				wrap = func(d string) string { return `{"p":` + d + `}` }
			case 2:
				c.Spec = lib.Spec{Schema: "{ // {additionalProperties: \"@t\"}\n}", Types: []lib.Named{{Name: "@t", Text: or}}}
				wrap = func(d string) string { return `{"k":` + d + `}` }
			default:
				c.Spec = lib.Spec{Schema: "[\n  @t\n]", Types: []lib.Named{{Name: "@t", Text: or}}}
				wrap = func(d string) string { return `[` + d + `]` }
			}
			for _, d := range probes {
				y, certain := admits(d)
				switch {
				case !certain:
				case y:
					c.Accept = append(c.Accept, wrap(d))
				default:
					c.Reject = append(c.Reject, wrap(d))
				}
			}
			run.Label("table:or-of-rule-sets")
		case 2:
			// a type whose values are of several JSON kinds, named on an example of one of them
			e := lib.Named{Name: "@e", Text: rapid.SampledFrom([]string{`"a" // {enum: ["a", 1, null]}`, `1 // {enum: [1, "a", null]}`, "null // {enum: [null, \"a\", 1]}"}).Draw(t, "enumType")}
			b := lib.Named{Name: "@b", Text: "true"}
			ex := rapid.SampledFrom([]string{"1", `"a"`, "null"}).Draw(t, "example")
			rule := rapid.SampledFrom([]string{`{type: "@e"}`, `{or: ["@e", "@b"]}`, `{or: [{type: "@e"}, {type: "boolean"}]}`}).Draw(t, "rule")
			c.Spec = lib.Spec{Schema: ex + " // " + rule, Types: []lib.Named{e, b}}
			c.MustCheck = true
			c.Accept = []string{"1", `"a"`, "null"}
			c.Reject = []string{"2", `"b"`, "[]", "{}", "1.5"}
			if strings.Contains(rule, "or") {
				c.Accept = append(c.Accept, "true")
			} else {
				c.Reject = append(c.Reject, "true")
			}
			run.Label("table:type-of-several-kinds")
		default:
			// a key shortcut whose string type has an alternative that takes every string
			every := rapid.SampledFrom([]string{`"string"`, `{type: "string"}`, `{type: "string", minLength: 0}`, `"@c"`, `{type: "@c"}`}).Draw(t, "everyString")
			// (@c: a type whose values are not bound to the kind of its own example)
			cText := rapid.SampledFrom([]string{`12 // {or: ["any", "boolean"]}`, `12 // {type: "any"}`, `null // {type: "any"}`, `12 // {or: [{type: "any"}, "null"]}`}).Draw(t, "anyType")
			ex := rapid.SampledFrom([]string{`"x"`, `"12"`, `"nn"`}).Draw(t, "keyExample")
			alts := []string{every, `"@n"`}
			if rapid.Bool().Draw(t, "order") {
				alts[0], alts[1] = alts[1], alts[0]
			}
			c.Spec = lib.Spec{Schema: "{\n  @k: 1\n}", Types: []lib.Named{{Name: "@k", Text: ex + " // {or: [" + strings.Join(alts, ", ") + "]}"}, {Name: "@n", Text: `"nn"`}, {Name: "@c", Text: cText}}}
			c.MustCheck = true
			c.Accept = []string{`{"abc":1}`, `{"x":1}`, `{"nn":1}`, `{"12":2}`, `{"":3}`, `{"abc":1,"x":2}`}
			c.Reject = []string{`{"abc":"s"}`, `{"x":null}`}
			run.Label("table:key-type-with-an-alternative-for-every-string")
		}
		judged := checkTable(t, c)
		run.Eval(chkTable, judged, fmt.Sprint(c.Spec))
		if judged {
			run.Sample(chkTable, c)
		}
	})
}

func TestReplay(t *testing.T) { run.TestReplay(t) }
