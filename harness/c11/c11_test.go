package c11

import (
	"encoding/json"
	"fmt"
	"regexp"
	"runtime"
	"strings"
	"sync"
	"testing"

	"pgregory.net/rapid"

	"verif/gen"
	"verif/hist"
	"verif/lib"
	"verif/run"
)

func TestMain(m *testing.M) { gen.Avoided = run.Avoided; run.Main(m, "C11") }

const chk = "history"

type Step struct {
	Action string `json:"action"` // create | create-sharing | op | touch
	Spec   int    `json:"spec"`
	Obj    int    `json:"obj,omitempty"`
	Op     string `json:"op,omitempty"`
}

type Case struct {
	Pool  []*hist.Spec `json:"pool"`
	Steps []Step       `json:"steps"`
}

func init() {
	run.RegisterReplay(chk, func(t run.TB, raw json.RawMessage) {
		var c Case
		if err := json.Unmarshal(raw, &c); err != nil {
			t.Fatalf("bad case: %v", err)
		}
		replay(t, c)
	})
}

// engine executes steps against the model "what a freshly built object returns".
type engine struct {
	c        *Case
	objs     map[int][]*hist.Obj
	expected map[string]string
	kept     []hist.Retained
	keptAt   []int
}

func newEngine(c *Case) *engine {
	return &engine{c: c, objs: map[int][]*hist.Obj{}, expected: map[string]string{}}
}

// pristine: the library keeps objects for re-use (loaders, buffers) in sync.Pools; two collections
// empty them, so that what is built next starts from nothing an earlier call could have left behind.
func pristine() {
	runtime.GC()
	runtime.GC()
}

// precompute works out what a freshly built object returns for every operation of every spec
// before the history begins, each in a process state no earlier call has touched.
func (e *engine) precompute() {
	for i, sp := range e.c.Pool {
		pristine() // (once per spec: what the operations of one spec leave behind meets objects of the same spec only)
		for _, op := range hist.OpsSequential(sp) {
			e.want(i, op)
		}
	}
}

func (e *engine) want(spec int, op string) string {
	k := fmt.Sprintf("%d/%s", spec, op)
	if w, ok := e.expected[k]; ok {
		return w
	}
	w, _ := hist.Do(hist.Build(e.c.Pool[spec]), op)
	e.expected[k] = w
	return w
}

// step returns "" or a deviation.
func (e *engine) step(i int, s Step) string {
	switch {
	case len(s.Action) > 13 && s.Action[:13] == "stream-after-":
		sp := e.c.Pool[s.Spec]
		if got, fresh := hist.Stream(hist.Build(sp), s.Action[13:]), hist.Stream(hist.Build(sp), ""); got != fresh {
			return fmt.Sprintf("document spec %d: the events read after the first %s differ from those of a fresh document:\n  %s\nfresh:\n  %s", s.Spec, s.Action[13:], trunc(got), trunc(fresh))
		}
		return ""
	}
	switch s.Action {
	case "create":
		e.objs[s.Spec] = append(e.objs[s.Spec], hist.Build(e.c.Pool[s.Spec]))
	case "create-sharing":
		// a new root that is given the type objects of an existing object of the same spec - or of
		// another spec of the same sharing group
		os := append([]*hist.Obj{}, e.objs[s.Spec]...)
		if g := e.c.Pool[s.Spec].Group; g != "" {
			for j, sp := range e.c.Pool {
				if j != s.Spec && sp.Group == g {
					os = append(os, e.objs[j]...)
				}
			}
		}
		if len(os) == 0 {
			return ""
		}
		e.objs[s.Spec] = append(e.objs[s.Spec], hist.BuildSharing(e.c.Pool[s.Spec], os[s.Obj%len(os)]))
	case "touch":
		hist.Do(hist.Build(e.c.Pool[s.Spec]), s.Op)
	case "op":
		os := e.objs[s.Spec]
		if len(os) == 0 {
			return ""
		}
		o := os[s.Obj%len(os)]
		w := e.want(s.Spec, s.Op)
		got, kept := hist.Do(o, s.Op)
		if strings.Contains(got, "FOREIGN-FILE") || strings.Contains(w, "FOREIGN-FILE") {
			return fmt.Sprintf("step %d: %s on object %d of spec %d: %s", i, s.Op, s.Obj%len(os), s.Spec, trunc(got+" / fresh: "+w))
		}
		if got != w {
			return fmt.Sprintf("step %d: %s on object %d of spec %d returned\n  %s\na freshly built object returns\n  %s", i, s.Op, s.Obj%len(os), s.Spec, trunc(got), trunc(w))
		}
		for _, k := range kept {
			e.kept = append(e.kept, k)
			e.keptAt = append(e.keptAt, i)
		}
	}
	for j, k := range e.kept {
		if live := k.Live(); live != k.Snapshot {
			return fmt.Sprintf("step %d: the %s handed out at step %d changed afterwards: was %s, now %s", i, k.What, e.keptAt[j], trunc(k.Snapshot), trunc(live))
		}
	}
	return ""
}

func trunc(s string) string {
	if len(s) > 300 {
		return s[:300] + "…"
	}
	return s
}

func replay(t run.TB, c Case) {
	e := newEngine(&c)
	for i, s := range c.Steps {
		if d := e.step(i, s); d != "" {
			run.Fail(t, chk, c, "%s", d)
		}
	}
}

func TestHistories(t *testing.T) {
	run.SkipIfReplaying(t)
	defer run.Done(t, chk)
	rapid.Check(t, func(t *rapid.T) {
		c := &Case{}
		n := rapid.IntRange(3, 5).Draw(t, "pool")
		for i := 0; i < n; i++ {
			c.Pool = append(c.Pool, hist.DrawSpec(t, fmt.Sprint("s", i)))
		}
		if rapid.IntRange(0, 2).Draw(t, "twins") == 0 {
			c.Pool = append(c.Pool, hist.DrawTwinSpecs(t, "tw")...)
			run.Label("pool-with-roots-sharing-type-objects-but-not-their-definitions")
		}
		e := newEngine(c)
		e.precompute()
		maxSteps := run.Scale(12, 40)
		steps := rapid.IntRange(4, maxSteps).Draw(t, "steps")
		repeats, interleaved, shared := 0, false, 0
		seen := map[string]bool{}
		lastSpec := -1
		for i := 0; i < steps; i++ {
			var s Step
			s.Spec = rapid.IntRange(0, len(c.Pool)-1).Draw(t, "spec")
			if len(c.Pool) > n && rapid.Bool().Draw(t, "twinStep") {
				s.Spec = rapid.IntRange(n, len(c.Pool)-1).Draw(t, "twinSpec")
			}
			switch a := rapid.IntRange(0, 9).Draw(t, "action"); {
			case a <= 1 || len(e.objs[s.Spec]) == 0:
				s.Action = "create"
			case (a == 3 || a == 4 && c.Pool[s.Spec].Group != "") && c.Pool[s.Spec].Kind == "schema" && len(c.Pool[s.Spec].Schema.Types) > 0:
				s.Action = "create-sharing"
				s.Obj = rapid.IntRange(0, 3).Draw(t, "shareFrom")
				shared++
			case a == 2:
				s.Action = "touch"
				s.Op = rapid.SampledFrom(hist.OpsSequential(c.Pool[s.Spec])).Draw(t, "op")
			default:
				s.Action = "op"
				s.Obj = rapid.IntRange(0, 3).Draw(t, "obj")
				s.Op = rapid.SampledFrom(hist.OpsSequential(c.Pool[s.Spec])).Draw(t, "op")
				k := fmt.Sprintf("%d/%s", s.Spec, s.Op)
				if seen[k] {
					repeats++
				}
				seen[k] = true
				if lastSpec >= 0 && lastSpec != s.Spec {
					interleaved = true
				}
				lastSpec = s.Spec
			}
			if s.Action == "op" && strings.HasPrefix(s.Op, "ValidateKept:") && rapid.Bool().Draw(t, "checkKeptFirst") {
				// the kept Document object is checked right before it is validated
				pre := s
				pre.Op = "CheckKept:" + strings.TrimPrefix(s.Op, "ValidateKept:")
				c.Steps = append(c.Steps, pre)
				if d := e.step(i, pre); d != "" {
					run.Fail(t, chk, *c, "%s", d)
				}
			}
			c.Steps = append(c.Steps, s)
			if d := e.step(i, s); d != "" {
				run.Fail(t, chk, *c, "%s", d)
			}
		}
		// a document read from its start gives the same events whether it is fresh or has just been
		// measured / checked for the first time (both leave it at its start)
		for si, sp := range c.Pool {
			if sp.Kind != "json" {
				continue
			}
			fresh := hist.Stream(hist.Build(sp), "")
			for _, first := range []string{"Check", "Len"} {
				if got := hist.Stream(hist.Build(sp), first); got != fresh {
					run.Fail(t, chk, Case{Pool: c.Pool, Steps: []Step{{Action: "stream-after-" + first, Spec: si}}},
						"document spec %d: the events read after the first %s differ from those of a fresh document:\n  %s\nfresh:\n  %s", si, first, trunc(got), trunc(fresh))
				}
			}
			run.Label("json:stream-fresh-vs-after-first-call")
		}
		run.Eval(chk, repeats > 0 && interleaved, fmt.Sprint(c.Steps), fmt.Sprint(len(c.Pool)))
		run.LabelN("steps", int64(steps))
		run.LabelN("repeated-(spec,op)", int64(repeats))
		run.LabelN("roots-sharing-type-objects", int64(shared))
		if steps <= 8 {
			run.Sample(chk, map[string]any{"steps": c.Steps, "pool_kinds": kinds(c.Pool)})
		}
	})
}

func kinds(p []*hist.Spec) []string {
	var out []string
	for _, s := range p {
		out = append(out, s.Kind)
	}
	return out
}

// ---------------------------------------------------------------------------------------
// Equal texts, fresh objects, many times: a schema with several defects has to report the same one
// every time - whichever heap addresses the objects get (anonymous types of "or" rule sets are
// named after their addresses) and whoever else is building schemas at the moment.

const chkFresh = "fresh-objects-agree"

type FreshCase struct {
	Spec lib.Spec `json:"spec"`
	Doc  string   `json:"doc,omitempty"`
}

func init() {
	run.RegisterReplay(chkFresh, func(t run.TB, raw json.RawMessage) {
		var c FreshCase
		if err := json.Unmarshal(raw, &c); err != nil {
			t.Fatalf("bad case: %v", err)
		}
		checkFresh(t, c, 8, 400)
	})
}

var reAddress = regexp.MustCompile(`0x[0-9a-f]+`)

// maskAddresses: the text of a message may name an anonymous type (by its address); which defect is
// reported, where, with which code and wording is compared - not that name.
func maskAddresses(s string) string { return reAddress.ReplaceAllString(s, "0x?") }

func freshResult(c FreshCase) string {
	s, add := lib.Build(c.Spec)
	r := lib.Check(s)
	out := fmt.Sprint(add.OK, add.Code, add.Pos, " ", r.OK, r.Code, r.Pos, r.HasPos, r.Panic != "", " ", maskAddresses(r.Msg))
	if c.Doc != "" {
		v := lib.Validate(s, []byte(c.Doc))
		out += fmt.Sprint(" ", v.OK, v.Code, v.Pos, " ", maskAddresses(v.Msg))
	}
	return out
}

func checkFresh(t run.TB, c FreshCase, goroutines, perG int) {
	want := freshResult(c)
	var mu sync.Mutex
	other := map[string]int{}
	var wg sync.WaitGroup
	for g := 0; g < goroutines; g++ {
		wg.Add(1)
		go func() {
			defer wg.Done()
			for i := 0; i < perG; i++ {
				if got := freshResult(c); got != want {
					mu.Lock()
					other[got]++
					mu.Unlock()
				}
				if i%100 == 50 {
					runtime.GC()
				}
			}
		}()
	}
	wg.Wait()
	for got, n := range other {
		run.Fail(t, chkFresh, c, "%d of %d fresh objects built from the same texts answered\n  %s\nthe first one answered\n  %s", n, goroutines*perG, got, want)
	}
}

func TestFreshObjectsAgree(t *testing.T) {
	run.SkipIfReplaying(t)
	defer run.Done(t, chkFresh)
	faulty := []string{
		`{type: "integer", minLength: 1}`, `{type: "string", min: 1}`, `{type: "boolean", maxLength: 2}`,
		`{type: "float", regex: "a"}`, `{type: "null", max: 1}`, `{type: "integer", maxItems: 1}`,
		`{type: "string", minItems: 1}`, `{type: "boolean", min: 1}`, `{type: "string", max: 1}`,
		`{type: "integer", regex: "a"}`, `{type: "integer", min: 5, max: 1}`, `{type: "string", minLength: 3, maxLength: 1}`,
	}
	fine := []string{`{type: "integer", min: 0}`, `{type: "string", minLength: 1}`, `"null"`, `{type: "boolean"}`}
	rapid.Check(t, func(t *rapid.T) {
		var sets []string
		for _, i := range rapid.Permutation(faulty).Draw(t, "faulty")[:rapid.IntRange(2, 10).Draw(t, "nfaulty")] {
			sets = append(sets, i)
		}
		for i, n := 0, rapid.IntRange(0, 2).Draw(t, "nfine"); i < n; i++ {
			pos := rapid.IntRange(0, len(sets)).Draw(t, "finePos")
			sets = append(sets[:pos], append([]string{rapid.SampledFrom(fine).Draw(t, "fine")}, sets[pos:]...)...)
		}
		or := "1 // {or: [" + strings.Join(sets, ", ") + "]}"
		var c FreshCase
		switch rapid.IntRange(0, 3).Draw(t, "place") {
		case 0:
			c.Spec.Schema = or
		case 1:
			c.Spec.Schema = "{\n  \"k\": " + or + "\n}"
		case 2:
			// the defects sit in a type, and in a second type with the same file name
			c.Spec = lib.Spec{Schema: "{\n  \"a\": @a,\n  \"b\": @b\n}", SameFile: true, Types: []lib.Named{{Name: "@a", Text: or}, {Name: "@b", Text: or}}}
		case 3:
			c.Spec = lib.Spec{Schema: "[\n  " + or + ",\n  @a | @b\n]", Types: []lib.Named{{Name: "@a", Text: "1"}, {Name: "@b", Text: "\"s\""}}}
		}
		checkFresh(t, c, 8, run.Scale(250, 1000))
		run.Eval(chkFresh, true, fmt.Sprint(c.Spec))
		run.Label("several-defective-rule-sets-in-one-or")
		run.Sample(chkFresh, c)
	})
}

func TestReplay(t *testing.T) { run.TestReplay(t) }
