package c11

import (
	"encoding/json"
	"fmt"
	"strings"
	"testing"

	"pgregory.net/rapid"

	"verif/gen"
	"verif/hist"
	"verif/run"
)

func TestMain(m *testing.M) { gen.Avoided = run.Avoided; run.Main(m, "C11") }

const chk = "history"

type Step struct {
	Action string `json:"action"` // create | create-sharing | op | touch
	Spec   int    `json:"spec"`
	Obj    int    `json:"obj,omitempty"`
	Op     string `json:"op,omitempty"`
}

type Case struct {
	Pool  []*hist.Spec `json:"pool"`
	Steps []Step       `json:"steps"`
}

func init() {
	run.RegisterReplay(chk, func(t run.TB, raw json.RawMessage) {
		var c Case
		if err := json.Unmarshal(raw, &c); err != nil {
			t.Fatalf("bad case: %v", err)
		}
		replay(t, c)
	})
}

// engine executes steps against the model "what a freshly built object returns".
type engine struct {
	c        *Case
	objs     map[int][]*hist.Obj
	expected map[string]string
	kept     []hist.Retained
	keptAt   []int
}

func newEngine(c *Case) *engine {
	return &engine{c: c, objs: map[int][]*hist.Obj{}, expected: map[string]string{}}
}

func (e *engine) want(spec int, op string) string {
	k := fmt.Sprintf("%d/%s", spec, op)
	if w, ok := e.expected[k]; ok {
		return w
	}
	w, _ := hist.Do(hist.Build(e.c.Pool[spec]), op)
	e.expected[k] = w
	return w
}

// step returns "" or a deviation.
func (e *engine) step(i int, s Step) string {
	switch {
	case len(s.Action) > 13 && s.Action[:13] == "stream-after-":
		sp := e.c.Pool[s.Spec]
		if got, fresh := hist.Stream(hist.Build(sp), s.Action[13:]), hist.Stream(hist.Build(sp), ""); got != fresh {
			return fmt.Sprintf("document spec %d: the events read after the first %s differ from those of a fresh document:\n  %s\nfresh:\n  %s", s.Spec, s.Action[13:], trunc(got), trunc(fresh))
		}
		return ""
	}
	switch s.Action {
	case "create":
		e.objs[s.Spec] = append(e.objs[s.Spec], hist.Build(e.c.Pool[s.Spec]))
	case "create-sharing":
		// a new root that is given the type objects of an existing object of the same spec - or of
		// another spec of the same sharing group
		os := append([]*hist.Obj{}, e.objs[s.Spec]...)
		if g := e.c.Pool[s.Spec].Group; g != "" {
			for j, sp := range e.c.Pool {
				if j != s.Spec && sp.Group == g {
					os = append(os, e.objs[j]...)
				}
			}
		}
		if len(os) == 0 {
			return ""
		}
		e.objs[s.Spec] = append(e.objs[s.Spec], hist.BuildSharing(e.c.Pool[s.Spec], os[s.Obj%len(os)]))
	case "touch":
		hist.Do(hist.Build(e.c.Pool[s.Spec]), s.Op)
	case "op":
		os := e.objs[s.Spec]
		if len(os) == 0 {
			return ""
		}
		o := os[s.Obj%len(os)]
		w := e.want(s.Spec, s.Op)
		got, kept := hist.Do(o, s.Op)
		if got != w {
			return fmt.Sprintf("step %d: %s on object %d of spec %d returned\n  %s\na freshly built object returns\n  %s", i, s.Op, s.Obj%len(os), s.Spec, trunc(got), trunc(w))
		}
		for _, k := range kept {
			e.kept = append(e.kept, k)
			e.keptAt = append(e.keptAt, i)
		}
	}
	for j, k := range e.kept {
		if live := k.Live(); live != k.Snapshot {
			return fmt.Sprintf("step %d: the %s handed out at step %d changed afterwards: was %s, now %s", i, k.What, e.keptAt[j], trunc(k.Snapshot), trunc(live))
		}
	}
	return ""
}

func trunc(s string) string {
	if len(s) > 300 {
		return s[:300] + "…"
	}
	return s
}

func replay(t run.TB, c Case) {
	e := newEngine(&c)
	for i, s := range c.Steps {
		if d := e.step(i, s); d != "" {
			run.Fail(t, chk, c, "%s", d)
		}
	}
}

func TestHistories(t *testing.T) {
	run.SkipIfReplaying(t)
	defer run.Done(t, chk)
	rapid.Check(t, func(t *rapid.T) {
		c := &Case{}
		n := rapid.IntRange(3, 5).Draw(t, "pool")
		for i := 0; i < n; i++ {
			c.Pool = append(c.Pool, hist.DrawSpec(t, fmt.Sprint("s", i)))
		}
		if rapid.IntRange(0, 2).Draw(t, "twins") == 0 {
			c.Pool = append(c.Pool, hist.DrawTwinSpecs(t, "tw")...)
			run.Label("pool-with-roots-sharing-type-objects-but-not-their-definitions")
		}
		e := newEngine(c)
		maxSteps := run.Scale(12, 40)
		steps := rapid.IntRange(4, maxSteps).Draw(t, "steps")
		repeats, interleaved, shared := 0, false, 0
		seen := map[string]bool{}
		lastSpec := -1
		for i := 0; i < steps; i++ {
			var s Step
			s.Spec = rapid.IntRange(0, len(c.Pool)-1).Draw(t, "spec")
			if len(c.Pool) > n && rapid.Bool().Draw(t, "twinStep") {
				s.Spec = rapid.IntRange(n, len(c.Pool)-1).Draw(t, "twinSpec")
			}
			switch a := rapid.IntRange(0, 9).Draw(t, "action"); {
			case a <= 1 || len(e.objs[s.Spec]) == 0:
				s.Action = "create"
			case (a == 3 || a == 4 && c.Pool[s.Spec].Group != "") && c.Pool[s.Spec].Kind == "schema" && len(c.Pool[s.Spec].Schema.Types) > 0:
				s.Action = "create-sharing"
				s.Obj = rapid.IntRange(0, 3).Draw(t, "shareFrom")
				shared++
			case a == 2:
				s.Action = "touch"
				s.Op = rapid.SampledFrom(hist.OpsSequential(c.Pool[s.Spec])).Draw(t, "op")
			default:
				s.Action = "op"
				s.Obj = rapid.IntRange(0, 3).Draw(t, "obj")
				s.Op = rapid.SampledFrom(hist.OpsSequential(c.Pool[s.Spec])).Draw(t, "op")
				k := fmt.Sprintf("%d/%s", s.Spec, s.Op)
				if seen[k] {
					repeats++
				}
				seen[k] = true
				if lastSpec >= 0 && lastSpec != s.Spec {
					interleaved = true
				}
				lastSpec = s.Spec
			}
			if s.Action == "op" && strings.HasPrefix(s.Op, "ValidateKept:") && rapid.Bool().Draw(t, "checkKeptFirst") {
				// the kept Document object is checked right before it is validated
				pre := s
				pre.Op = "CheckKept:" + strings.TrimPrefix(s.Op, "ValidateKept:")
				c.Steps = append(c.Steps, pre)
				if d := e.step(i, pre); d != "" {
					run.Fail(t, chk, *c, "%s", d)
				}
			}
			c.Steps = append(c.Steps, s)
			if d := e.step(i, s); d != "" {
				run.Fail(t, chk, *c, "%s", d)
			}
		}
		// a document read from its start gives the same events whether it is fresh or has just been
		// measured / checked for the first time (both leave it at its start)
		for si, sp := range c.Pool {
			if sp.Kind != "json" {
				continue
			}
			fresh := hist.Stream(hist.Build(sp), "")
			for _, first := range []string{"Check", "Len"} {
				if got := hist.Stream(hist.Build(sp), first); got != fresh {
					run.Fail(t, chk, Case{Pool: c.Pool, Steps: []Step{{Action: "stream-after-" + first, Spec: si}}},
						"document spec %d: the events read after the first %s differ from those of a fresh document:\n  %s\nfresh:\n  %s", si, first, trunc(got), trunc(fresh))
				}
			}
			run.Label("json:stream-fresh-vs-after-first-call")
		}
		run.Eval(chk, repeats > 0 && interleaved, fmt.Sprint(c.Steps), fmt.Sprint(len(c.Pool)))
		run.LabelN("steps", int64(steps))
		run.LabelN("repeated-(spec,op)", int64(repeats))
		run.LabelN("roots-sharing-type-objects", int64(shared))
		if steps <= 8 {
			run.Sample(chk, map[string]any{"steps": c.Steps, "pool_kinds": kinds(c.Pool)})
		}
	})
}

func kinds(p []*hist.Spec) []string {
	var out []string
	for _, s := range p {
		out = append(out, s.Kind)
	}
	return out
}

func TestReplay(t *testing.T) { run.TestReplay(t) }
