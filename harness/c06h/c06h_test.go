// Package c06h is the hook-dependent half of C06: the schema scanner and the enum-rule scanner
// must produce the same event sequence as the document scanner (new-line events aside) for the
// plain-JSON part of their input. Needs the overlay hooks jschemainternal.go and enumscan.go.
package c06h

import (
	"encoding/json"
	"errors"
	"fmt"
	"io"
	"testing"

	"pgregory.net/rapid"

	libjson "github.com/jsightapi/jsight-schema-go-library/formats/json"
	"github.com/jsightapi/jsight-schema-go-library/notations/jschema/verifhook"
	"github.com/jsightapi/jsight-schema-go-library/rules/enum"

	"verif/gen"
	"verif/lex"
	"verif/ref"
	"verif/run"
)

func TestMain(m *testing.M) { run.Main(m, "C06") }

const chk = "three-scanners"

type Case struct {
	Input string `json:"input"`
	Enum  bool   `json:"also_enum_scanner"`
}

func init() {
	run.RegisterReplay(chk, func(t run.TB, raw json.RawMessage) {
		var c Case
		if err := json.Unmarshal(raw, &c); err != nil {
			t.Fatalf("bad case: %v", err)
		}
		check(t, c)
	})
}

func docEvents(in []byte) (evs []lex.Ev, err error) {
	defer func() {
		if r := recover(); r != nil {
			err = fmt.Errorf("panic: %v", r)
		}
	}()
	d := libjson.New("doc", in)
	for {
		l, e := d.NextLexeme()
		if e != nil {
			if errors.Is(e, io.EOF) {
				return evs, nil
			}
			return evs, e
		}
		evs = append(evs, lex.Ev{Type: l.Type().String(), Begin: int(l.Begin()), End: int(l.End())})
	}
}

func check(t run.TB, c Case) {
	in := []byte(c.Input)
	doc, err := docEvents(in)
	if err != nil {
		run.Fail(t, chk, c, "document scanner failed on a valid text: %v", err)
	}
	se, err := verifhook.SchemaEvents(in)
	if err != nil {
		run.Fail(t, chk, c, "schema scanner failed on plain JSON: %v", err)
	}
	var sch []lex.Ev
	for _, e := range se {
		sch = append(sch, lex.Ev{Type: e.Type, Begin: e.Begin, End: e.End})
	}
	sch = lex.DropNewLines(sch)
	if i, ok := lex.Same(doc, sch); !ok {
		run.Fail(t, chk, c, "schema scanner differs from document scanner at event %d: doc=%v schema=%v", i, at(doc, i), at(sch, i))
	}
	if c.Enum {
		ee, err := enum.VerifEvents(in)
		if err != nil {
			run.Fail(t, chk, c, "enum scanner failed on a flat array of distinct scalars: %v", err)
		}
		var en []lex.Ev
		for _, e := range ee {
			en = append(en, lex.Ev{Type: e.Type, Begin: e.Begin, End: e.End})
		}
		en = lex.DropNewLines(en)
		if i, ok := lex.Same(doc, en); !ok {
			run.Fail(t, chk, c, "enum scanner differs from document scanner at event %d: doc=%v enum=%v", i, at(doc, i), at(en, i))
		}
	}
}

func at(evs []lex.Ev, i int) string {
	if i < 0 || i >= len(evs) {
		return "<end>"
	}
	return evs[i].String()
}

func TestThreeScanners(t *testing.T) {
	run.SkipIfReplaying(t)
	defer run.Done(t, chk)
	rapid.Check(t, func(t *rapid.T) {
		var model *ref.Value
		isEnum := rapid.IntRange(0, 2).Draw(t, "enumShape") == 0
		if isEnum {
			// flat array of distinct scalars (duplicates are an enum error by design)
			model = &ref.Value{Kind: ref.KArray}
			seen := map[string]bool{}
			n := rapid.IntRange(0, 8).Draw(t, "n")
			for i := 0; i < n; i++ {
				k := rapid.SampledFrom([]ref.Kind{ref.KString, ref.KNumber, ref.KTrue, ref.KNull}).Draw(t, "k")
				v := gen.ScalarOfKind(t, k, "s")
				if k == ref.KNumber {
					v = &ref.Value{Kind: ref.KNumber, Tok: gen.NumberTok(t, false, "num")}
				}
				key := fmt.Sprint(v.Kind, v.Str, v.Tok)
				if v.Kind == ref.KString {
					key = "s" + v.Str
				} else if v.Kind == ref.KNumber {
					d, _ := ref.ParseDecimal(v.Tok)
					key = "n" + d.Expansion()
				}
				if seen[key] {
					continue
				}
				seen[key] = true
				model.Items = append(model.Items, v)
			}
		} else {
			model = gen.Value(t, gen.DocOpts{Depth: rapid.IntRange(0, 6).Draw(t, "depth"), Width: 5, Exp: false, StrLen: 6}, "v")
		}
		text := gen.Print(model, gen.RapidBlanks(t, "ws"))
		c := Case{Input: string(text), Enum: isEnum}
		check(t, c)
		nt := (model.Kind == ref.KArray || model.Kind == ref.KObject) && len(text) > 4
		run.Eval(chk, nt, string(text), fmt.Sprint(isEnum))
		run.Sample(chk, c)
		if isEnum {
			run.Label("enum-shaped")
		} else {
			run.Label("schema-shaped")
		}
	})
}

// The same JSON value embedded into schema syntax: user comments ('#' lines, '###' blocks,
// end-of-line '#'), blank lines, a blank before the colon and LF / CRLF / CR line ends between
// the tokens. The schema scanner must deliver, new-line events aside, exactly the events the
// statement describes for the JSON tokens at their (printer-recorded) offsets.
type DecoratedCase struct {
	Input string     `json:"input"`
	Want  []lex.Want `json:"expected_events"`
}

const chkDec = "schema-scanner-on-decorated-json"

func init() {
	run.RegisterReplay(chkDec, func(t run.TB, raw json.RawMessage) {
		var c DecoratedCase
		if err := json.Unmarshal(raw, &c); err != nil {
			t.Fatalf("bad case: %v", err)
		}
		checkDecorated(t, c)
	})
}

func checkDecorated(t run.TB, c DecoratedCase) {
	in := []byte(c.Input)
	se, err := verifhook.SchemaEvents(in)
	if err != nil {
		run.Fail(t, chkDec, c, "schema scanner failed on JSON decorated with comments and line ends: %v", err)
	}
	var sch []lex.Ev
	for _, e := range se {
		sch = append(sch, lex.Ev{Type: e.Type, Begin: e.Begin, End: e.End})
	}
	sch = lex.DropNewLines(sch)
	if m := lex.Compare(sch, c.Want, len(in)); m != "" {
		run.Fail(t, chkDec, c, "%s", m)
	}
}

// toSNode converts a JSON value into a rule-free schema model; spanned mirrors it back with the
// offsets the schema printer recorded.
func toSNode(v *ref.Value) *ref.SNode {
	switch v.Kind {
	case ref.KObject:
		n := &ref.SNode{Kind: ref.SObj}
		for _, m := range v.Members {
			n.Props = append(n.Props, ref.SProp{Key: m.Key, KeyTok: m.KeyTok, Val: toSNode(m.Val)})
		}
		return n
	case ref.KArray:
		n := &ref.SNode{Kind: ref.SArr}
		for _, it := range v.Items {
			n.Items = append(n.Items, toSNode(it))
		}
		return n
	}
	return &ref.SNode{Kind: ref.SLit, Lit: v.Kind, Tok: v.Tok, Str: v.Str}
}

func spanned(n *ref.SNode) *ref.Value {
	v := &ref.Value{Begin: n.Begin, End: n.End}
	switch n.Kind {
	case ref.SObj:
		v.Kind = ref.KObject
		for _, p := range n.Props {
			v.Members = append(v.Members, ref.Member{Key: p.Key, KeyTok: p.KeyTok, KeyBegin: p.KeyBegin, KeyEnd: p.KeyEnd, Val: spanned(p.Val)})
		}
	case ref.SArr:
		v.Kind = ref.KArray
		for _, it := range n.Items {
			v.Items = append(v.Items, spanned(it))
		}
	default:
		v.Kind, v.Tok, v.Str = n.Lit, n.Tok, n.Str
	}
	return v
}

func TestDecoratedSchema(t *testing.T) {
	run.SkipIfReplaying(t)
	defer run.Done(t, chkDec)
	rapid.Check(t, func(t *rapid.T) {
		model := gen.Value(t, gen.DocOpts{Depth: rapid.IntRange(0, 5).Draw(t, "depth"), Width: 4, Exp: false, StrLen: 6, RootContainer: rapid.IntRange(0, 4).Draw(t, "rootc") > 0}, "v")
		sn := toSNode(model)
		st := gen.DefaultStyle()
		st.NL = rapid.SampledFrom([]string{"\n", "\r\n", "\r"}).Draw(t, "nl")
		st.Indent = rapid.SampledFrom([]string{"", "  ", "\t"}).Draw(t, "indent")
		st.Comments = rapid.IntRange(0, 4).Draw(t, "comments")
		st.TightComments = rapid.Bool().Draw(t, "tightComments")
		st.BlankLines = rapid.Bool().Draw(t, "blank")
		st.SpaceBeforeColon = rapid.Bool().Draw(t, "sbc")
		text := gen.PrintSchema(sn, st)
		c := DecoratedCase{Input: string(text), Want: lex.Expected(spanned(sn))}
		checkDecorated(t, c)
		nt := (model.Kind == ref.KArray || model.Kind == ref.KObject) && (st.Comments > 0 || st.NL != "\n")
		run.Eval(chkDec, nt, string(text))
		run.Label(fmt.Sprintf("comments=%d", st.Comments))
		run.Label(fmt.Sprintf("line-end=%q", st.NL))
		if nt {
			run.Sample(chkDec, map[string]any{"input": string(text)})
		}
	})
}

func TestReplay(t *testing.T) { run.TestReplay(t) }
