// Package c06h is the hook-dependent half of C06: the schema scanner and the enum-rule scanner
// must produce the same event sequence as the document scanner (new-line events aside) for the
// plain-JSON part of their input. Needs the overlay hooks jschemainternal.go and enumscan.go.
package c06h

import (
	"encoding/json"
	"errors"
	"fmt"
	"io"
	"testing"

	"pgregory.net/rapid"

	libjson "github.com/jsightapi/jsight-schema-go-library/formats/json"
	"github.com/jsightapi/jsight-schema-go-library/notations/jschema/verifhook"
	"github.com/jsightapi/jsight-schema-go-library/rules/enum"

	"verif/gen"
	"verif/lex"
	"verif/ref"
	"verif/run"
)

func TestMain(m *testing.M) { run.Main(m, "C06") }

const chk = "three-scanners"

type Case struct {
	Input string `json:"input"`
	Enum  bool   `json:"also_enum_scanner"`
}

func init() {
	run.RegisterReplay(chk, func(t run.TB, raw json.RawMessage) {
		var c Case
		if err := json.Unmarshal(raw, &c); err != nil {
			t.Fatalf("bad case: %v", err)
		}
		check(t, c)
	})
}

func docEvents(in []byte) (evs []lex.Ev, err error) {
	defer func() {
		if r := recover(); r != nil {
			err = fmt.Errorf("panic: %v", r)
		}
	}()
	d := libjson.New("doc", in)
	for {
		l, e := d.NextLexeme()
		if e != nil {
			if errors.Is(e, io.EOF) {
				return evs, nil
			}
			return evs, e
		}
		evs = append(evs, lex.Ev{Type: l.Type().String(), Begin: int(l.Begin()), End: int(l.End())})
	}
}

func check(t run.TB, c Case) {
	in := []byte(c.Input)
	doc, err := docEvents(in)
	if err != nil {
		run.Fail(t, chk, c, "document scanner failed on a valid text: %v", err)
	}
	se, err := verifhook.SchemaEvents(in)
	if err != nil {
		run.Fail(t, chk, c, "schema scanner failed on plain JSON: %v", err)
	}
	var sch []lex.Ev
	for _, e := range se {
		sch = append(sch, lex.Ev{Type: e.Type, Begin: e.Begin, End: e.End})
	}
	sch = lex.DropNewLines(sch)
	if i, ok := lex.Same(doc, sch); !ok {
		run.Fail(t, chk, c, "schema scanner differs from document scanner at event %d: doc=%v schema=%v", i, at(doc, i), at(sch, i))
	}
	if c.Enum {
		ee, err := enum.VerifEvents(in)
		if err != nil {
			run.Fail(t, chk, c, "enum scanner failed on a flat array of distinct scalars: %v", err)
		}
		var en []lex.Ev
		for _, e := range ee {
			en = append(en, lex.Ev{Type: e.Type, Begin: e.Begin, End: e.End})
		}
		en = lex.DropNewLines(en)
		if i, ok := lex.Same(doc, en); !ok {
			run.Fail(t, chk, c, "enum scanner differs from document scanner at event %d: doc=%v enum=%v", i, at(doc, i), at(en, i))
		}
	}
}

func at(evs []lex.Ev, i int) string {
	if i < 0 || i >= len(evs) {
		return "<end>"
	}
	return evs[i].String()
}

func TestThreeScanners(t *testing.T) {
	run.SkipIfReplaying(t)
	defer run.Done(t, chk)
	rapid.Check(t, func(t *rapid.T) {
		var model *ref.Value
		isEnum := rapid.IntRange(0, 2).Draw(t, "enumShape") == 0
		if isEnum {
			// flat array of distinct scalars (duplicates are an enum error by design)
			model = &ref.Value{Kind: ref.KArray}
			seen := map[string]bool{}
			n := rapid.IntRange(0, 8).Draw(t, "n")
			for i := 0; i < n; i++ {
				k := rapid.SampledFrom([]ref.Kind{ref.KString, ref.KNumber, ref.KTrue, ref.KNull}).Draw(t, "k")
				v := gen.ScalarOfKind(t, k, "s")
				if k == ref.KNumber {
					v = &ref.Value{Kind: ref.KNumber, Tok: gen.NumberTok(t, false, "num")}
				}
				key := fmt.Sprint(v.Kind, v.Str, v.Tok)
				if v.Kind == ref.KString {
					key = "s" + v.Str
				} else if v.Kind == ref.KNumber {
					d, _ := ref.ParseDecimal(v.Tok)
					key = "n" + d.Expansion()
				}
				if seen[key] {
					continue
				}
				seen[key] = true
				model.Items = append(model.Items, v)
			}
		} else {
			model = gen.Value(t, gen.DocOpts{Depth: rapid.IntRange(0, 6).Draw(t, "depth"), Width: 5, Exp: false, StrLen: 6}, "v")
		}
		text := gen.Print(model, gen.RapidBlanks(t, "ws"))
		c := Case{Input: string(text), Enum: isEnum}
		check(t, c)
		nt := (model.Kind == ref.KArray || model.Kind == ref.KObject) && len(text) > 4
		run.Eval(chk, nt, string(text), fmt.Sprint(isEnum))
		run.Sample(chk, c)
		if isEnum {
			run.Label("enum-shaped")
		} else {
			run.Label("schema-shaped")
		}
	})
}

func TestReplay(t *testing.T) { run.TestReplay(t) }
