// Package c10h is the unit half of C10: internal/json.Number against math/big through the
// overlay hook verifhook (module root).
package c10h

import (
	"encoding/json"
	"fmt"
	"testing"

	"pgregory.net/rapid"

	"github.com/jsightapi/jsight-schema-go-library/verifhook"

	"verif/num"
	"verif/ref"
	"verif/run"
)

func TestMain(m *testing.M) { run.Main(m, "C10") }

const chk = "number-unit"

type Case struct {
	A string `json:"a"`
	B string `json:"b"`
}

func init() {
	run.RegisterReplay(chk, func(t run.TB, raw json.RawMessage) {
		var c Case
		if err := json.Unmarshal(raw, &c); err != nil {
			t.Fatalf("bad case: %v", err)
		}
		check(t, c)
	})
}

func sign(x int) int {
	switch {
	case x < 0:
		return -1
	case x > 0:
		return 1
	}
	return 0
}

func parse(t run.TB, c Case, tok string) (verifhook.Num, ref.Decimal, bool) {
	d, ok := ref.ParseDecimal(tok)
	if !ok {
		t.Fatalf("harness bug: %q is not a numeral", tok)
	}
	n, err := verifhook.NewNumber(tok)
	if err != nil {
		if num.ZeroMantissaExp(tok) && run.MatchKnown("C10-zero-mantissa-exponent") {
			return n, d, false
		}
		run.Fail(t, chk, c, "NewNumber(%q) fails on an RFC 8259 numeral: %v", tok, err)
	}
	if got, want := n.String(), d.Expansion(); got != want {
		run.Fail(t, chk, c, "NewNumber(%q).String()=%q, normalised expansion is %q", tok, got, want)
	}
	if got, want := int64(n.LengthOfFractionalPart()), d.FractionDigits(); got != want {
		run.Fail(t, chk, c, "NewNumber(%q).LengthOfFractionalPart()=%d, want %d", tok, got, want)
	}
	return n, d, true
}

func check(t run.TB, c Case) bool {
	a, da, ok1 := parse(t, c, c.A)
	b, db, ok2 := parse(t, c, c.B)
	if !ok1 || !ok2 {
		return false
	}
	w := da.Cmp(db)
	if g := a.Cmp(b); sign(g) != w || (g != -1 && g != 0 && g != 1) {
		run.Fail(t, chk, c, "Cmp(%s,%s)=%d, exact comparison gives %d", c.A, c.B, g, w)
	}
	if g := b.Cmp(a); sign(g) != -w {
		run.Fail(t, chk, c, "Cmp(%s,%s)=%d, exact comparison gives %d (antisymmetry)", c.B, c.A, g, -w)
	}
	if a.Cmp(a) != 0 {
		run.Fail(t, chk, c, "Cmp(x,x) != 0 for %s", c.A)
	}
	if a.Equal(b) != (w == 0) || a.GreaterThan(b) != (w > 0) || a.GreaterThanOrEqual(b) != (w >= 0) || a.LessThan(b) != (w < 0) || a.LessThanOrEqual(b) != (w <= 0) {
		run.Fail(t, chk, c, "relational helpers disagree with exact comparison %d for (%s,%s)", w, c.A, c.B)
	}
	return true
}

func nontrivial(c Case) bool {
	da, _ := ref.ParseDecimal(c.A)
	db, _ := ref.ParseDecimal(c.B)
	return c.A != c.B && (da.Cmp(db) == 0 || num.HasExp(c.A) || num.HasExp(c.B) || da.IsZero() || db.IsZero())
}

func TestExhaustiveUnit(t *testing.T) {
	run.SkipIfReplaying(t)
	defer run.Done(t, chk)
	shortLen := run.Scale(4, 5)
	longLen := run.Scale(6, 7)
	short := num.Enumerate(shortLen)
	long := num.Enumerate(longLen)
	shard, shards := run.Shard(), run.Shards()
	var n int64
	for i, a := range short {
		if i%shards != shard {
			continue
		}
		for _, b := range short {
			c := Case{A: a, B: b}
			j := check(t, c)
			run.Eval(chk, j && nontrivial(c), a, b)
			n++
			if n%50021 == 0 {
				run.Sample(chk, c)
			}
		}
	}
	pivots := []string{"0", "-0", "1", "-1", "1.5", "0.1", "10", "1e1", "1e-1", "0.05", "9.9", "15e-1", "100", "-0.0", "5E+1"}
	for i, a := range long {
		if i%shards != shard {
			continue
		}
		for _, b := range pivots {
			c := Case{A: a, B: b}
			j := check(t, c)
			run.Eval(chk, j && nontrivial(c), a, b)
			n++
		}
	}
	run.LabelN("exhaustive-unit-pairs", n)
	run.Exhaustive(chk, fmt.Sprintf("all ordered pairs of numerals of <=%d characters over -0159.eE+ (%d numerals); all numerals of <=%d characters (%d) against %d pivots", shortLen, len(short), longLen, len(long), len(pivots)))
}

func TestRandomUnit(t *testing.T) {
	run.SkipIfReplaying(t)
	defer run.Done(t, chk)
	rapid.Check(t, func(t *rapid.T) {
		maxDigits := rapid.SampledFrom([]int{3, 8, 20, 60}).Draw(t, "maxDigits")
		a := num.Random(t, maxDigits, rapid.SampledFrom([]int{3, 30, 400}).Draw(t, "maxExp"), true, "a")
		var b, kind string
		if rapid.IntRange(0, 3).Draw(t, "fresh") == 0 {
			b, kind = num.Random(t, maxDigits, 400, true, "b"), "random"
		} else {
			b, kind = num.Respell(t, a, true, "rs")
		}
		c := Case{A: a, B: b}
		j := check(t, c)
		run.Eval(chk, j && nontrivial(c), a, b)
		run.Label("spelling:" + kind)
		run.Sample(chk, c)
		// transitivity on a triple
		c3 := num.Random(t, maxDigits, 30, true, "c")
		na, e1 := verifhook.NewNumber(a)
		nb, e2 := verifhook.NewNumber(b)
		nc, e3 := verifhook.NewNumber(c3)
		if e1 == nil && e2 == nil && e3 == nil && na.Cmp(nb) <= 0 && nb.Cmp(nc) <= 0 && na.Cmp(nc) > 0 {
			run.Fail(t, chk, Case{A: a, B: c3}, "transitivity broken: %s <= %s <= %s but %s > %s", a, b, c3, a, c3)
		}
	})
}

func TestReplay(t *testing.T) { run.TestReplay(t) }
