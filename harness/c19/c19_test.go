package c19

import (
	"encoding/json"
	"fmt"
	"testing"

	"pgregory.net/rapid"

	jschema "github.com/jsightapi/jsight-schema-go-library"

	"verif/omap"
	"verif/run"
)

func TestMain(m *testing.M) { run.Main(m, "C19") }

// keys: plain ones for the keys of the exhaustive vocabulary, awkward ones (a quote, a control
// character, DEL, a non-printable rune above U+FFFF, invalid UTF-8, the empty string) for the
// others - the JSON rendering has to quote them as JSON does
var keyNames = []string{"k0", "k1", "k2", "k\"3", "k\x014", "k\x7f5", "k\U000e00016", "", "é8"}

func key(k int) string {
	if k >= 0 && k < len(keyNames) {
		return keyNames[k]
	}
	return fmt.Sprintf("k%d", k)
}

func unkey(s string) int {
	for i, n := range keyNames {
		if n == s {
			return i
		}
	}
	var k int
	fmt.Sscanf(s, "k%d", &k)
	return k
}

// --- adapter: ASTNodes (payload in ASTNode.Value)

type astMap struct{ m *jschema.ASTNodes }

func (a astMap) Set(k int, v string) { a.m.Set(key(k), jschema.ASTNode{Value: v}) }
func (a astMap) Update(k int, fn func(string) string) {
	a.m.Update(key(k), func(n jschema.ASTNode) jschema.ASTNode { n.Value = fn(n.Value); return n })
}
func (a astMap) GetValue(k int) string { return a.m.GetValue(key(k)).Value }
func (a astMap) Get(k int) (string, bool) {
	n, ok := a.m.Get(key(k))
	return n.Value, ok
}
func (a astMap) Has(k int) bool { return a.m.Has(key(k)) }
func (a astMap) Len() int       { return a.m.Len() }
func (a astMap) Delete(k int)   { a.m.Delete(key(k)) }
func (a astMap) Filter(fn func(int, string) bool) {
	a.m.Filter(func(k string, v jschema.ASTNode) bool { return fn(unkey(k), v.Value) })
}
func (a astMap) Find(fn func(int, string) bool) (int, string, bool) {
	it, ok := a.m.Find(func(k string, v jschema.ASTNode) bool { return fn(unkey(k), v.Value) })
	return unkey(it.Key), it.Value.Value, ok
}
func (a astMap) Each(fn func(int, string) error) error {
	return a.m.Each(func(k string, v jschema.ASTNode) error { return fn(unkey(k), v.Value) })
}
func (a astMap) EachSafe(fn func(int, string)) {
	a.m.EachSafe(func(k string, v jschema.ASTNode) { fn(unkey(k), v.Value) })
}
func (a astMap) Map(fn func(int, string) (string, error)) error {
	return a.m.Map(func(k string, v jschema.ASTNode) (jschema.ASTNode, error) {
		nv, err := fn(unkey(k), v.Value)
		v.Value = nv
		return v, err
	})
}
func (a astMap) MarshalJSON() ([]byte, error) { return a.m.MarshalJSON() }
func (a astMap) KeyJSON(k int) string         { b, _ := json.Marshal(key(k)); return string(b) }
func (a astMap) ValJSON(v string) string {
	b, _ := json.Marshal(jschema.ASTNode{Value: v})
	return string(b)
}

// --- adapter: RuleASTNodes

type ruleMap struct{ m *jschema.RuleASTNodes }

func (a ruleMap) Set(k int, v string) { a.m.Set(key(k), jschema.RuleASTNode{Value: v}) }
func (a ruleMap) Update(k int, fn func(string) string) {
	a.m.Update(key(k), func(n jschema.RuleASTNode) jschema.RuleASTNode { n.Value = fn(n.Value); return n })
}
func (a ruleMap) GetValue(k int) string { return a.m.GetValue(key(k)).Value }
func (a ruleMap) Get(k int) (string, bool) {
	n, ok := a.m.Get(key(k))
	return n.Value, ok
}
func (a ruleMap) Has(k int) bool { return a.m.Has(key(k)) }
func (a ruleMap) Len() int       { return a.m.Len() }
func (a ruleMap) Delete(k int)   { a.m.Delete(key(k)) }
func (a ruleMap) Filter(fn func(int, string) bool) {
	a.m.Filter(func(k string, v jschema.RuleASTNode) bool { return fn(unkey(k), v.Value) })
}
func (a ruleMap) Find(fn func(int, string) bool) (int, string, bool) {
	it, ok := a.m.Find(func(k string, v jschema.RuleASTNode) bool { return fn(unkey(k), v.Value) })
	return unkey(it.Key), it.Value.Value, ok
}
func (a ruleMap) Each(fn func(int, string) error) error {
	return a.m.Each(func(k string, v jschema.RuleASTNode) error { return fn(unkey(k), v.Value) })
}
func (a ruleMap) EachSafe(fn func(int, string)) {
	a.m.EachSafe(func(k string, v jschema.RuleASTNode) { fn(unkey(k), v.Value) })
}
func (a ruleMap) Map(fn func(int, string) (string, error)) error {
	return a.m.Map(func(k string, v jschema.RuleASTNode) (jschema.RuleASTNode, error) {
		nv, err := fn(unkey(k), v.Value)
		v.Value = nv
		return v, err
	})
}
func (a ruleMap) MarshalJSON() ([]byte, error) { return a.m.MarshalJSON() }
func (a ruleMap) KeyJSON(k int) string         { b, _ := json.Marshal(key(k)); return string(b) }
func (a ruleMap) ValJSON(v string) string {
	b, _ := json.Marshal(jschema.RuleASTNode{Value: v})
	return string(b)
}

func init() {
	omap.Factories["ASTNodes"] = func() omap.Map { return astMap{&jschema.ASTNodes{}} }
	omap.Factories["RuleASTNodes"] = func() omap.Map { return ruleMap{&jschema.RuleASTNodes{}} }
	omap.Factories["RuleASTNodes(Make)"] = func() omap.Map { return ruleMap{jschema.MakeRuleASTNodes(2)} }
}

// newRuleTwins: two maps from the same arguments of NewRuleASTNodes (a data map and an order list
// with spare capacity, n entries in them) - each must be a map of its own afterwards.
func newRuleTwins(n int) func() (omap.Map, omap.Map, []omap.Op) {
	return func() (omap.Map, omap.Map, []omap.Op) {
		data := map[string]jschema.RuleASTNode{}
		order := make([]string, 0, 16)
		var init []omap.Op
		for k := 0; k < n; k++ {
			v := string(rune('p' + k))
			data[key(k)] = jschema.RuleASTNode{Value: v}
			order = append(order, key(k))
			init = append(init, omap.Op{Kind: "set", K: k, V: v})
		}
		return ruleMap{jschema.NewRuleASTNodes(data, order)}, ruleMap{jschema.NewRuleASTNodes(data, order)}, init
	}
}

func init() {
	for typ, n := range map[string]int{"RuleASTNodes(New,0)": 0, "RuleASTNodes(New,3)": 3} {
		tf := newRuleTwins(n)
		omap.TwinFactories[typ] = tf
		omap.Factories[typ] = func() omap.Map { m, _, _ := tf(); return m }
	}
}

var types = []string{"ASTNodes", "RuleASTNodes", "RuleASTNodes(Make)", "RuleASTNodes(New,0)", "RuleASTNodes(New,3)"}

func TestExhaustive(t *testing.T) {
	run.SkipIfReplaying(t)
	defer run.Done(t, omap.Chk)
	maxLen := run.Scale(4, 6)
	var n int64
	for _, typ := range types[:2] {
		n += omap.Exhaustive(t, typ, maxLen, run.Shard(), run.Shards())
	}
	run.LabelN("exhaustive-sequences", n)
	run.Exhaustive(omap.Chk, fmt.Sprintf("all sequences of 1..%d ops from a 16-op vocabulary (Set 3 keys x 2 values, Update x3, Delete x3, Filter x2 predicates, Map x2 functions) on ASTNodes and RuleASTNodes, full observation after the last step of every prefix", maxLen))
}

func TestRandomSequences(t *testing.T) {
	run.SkipIfReplaying(t)
	defer run.Done(t, omap.Chk)
	rapid.Check(t, func(t *rapid.T) {
		typ := rapid.SampledFrom(types).Draw(t, "type")
		n := rapid.IntRange(1, 200).Draw(t, "len")
		ops := make([]omap.Op, 0, n)
		for i := 0; i < n; i++ {
			ops = append(ops, omap.RandomOp(t))
		}
		c := omap.Case{Type: typ, Ops: ops}
		omap.RunCase(t, c, true)
		run.Eval(omap.Chk, omap.Nontrivial(ops), typ, fmt.Sprint(ops))
		run.Label("random-sequence")
		if n <= 12 {
			run.Sample(omap.Chk, c)
		}
	})
}

const chkConc = "omap-concurrent"

func TestConcurrent(t *testing.T) {
	run.SkipIfReplaying(t)
	defer run.Done(t, chkConc)
	rapid.Check(t, func(t *rapid.T) {
		typ := rapid.SampledFrom(types).Draw(t, "type")
		g := rapid.IntRange(2, 8).Draw(t, "goroutines")
		plans := make([][]omap.Op, g)
		for i := range plans {
			n := rapid.IntRange(1, 30).Draw(t, "len")
			for j := 0; j < n; j++ {
				plans[i] = append(plans[i], omap.RandomOp(t))
			}
		}
		before := run.RaceLogSize()
		maps := []omap.Map{omap.Factories[typ]()}
		if tf := omap.TwinFactories[typ]; tf != nil {
			a, b, _ := tf()
			maps = []omap.Map{a, b}
		}
		if d := omap.ConcurrentOn(maps, plans); d != "" {
			run.Fail(t, chkConc, map[string]any{"map_type": typ, "plans": plans}, "%s", d)
		}
		if run.RaceLogSize() > before {
			run.Fail(t, chkConc, map[string]any{"map_type": typ, "plans": plans}, "the race detector reported a data race during this plan:\n%s", run.RaceLogTail())
		}
		run.Eval(chkConc, true, typ, fmt.Sprint(plans))
		run.Label("concurrent-plan")
	})
}

const chkLin = "omap-linearizable"

// Small concurrent plans whose outcome must be the outcome of some order of their operations.
func TestLinearizable(t *testing.T) {
	run.SkipIfReplaying(t)
	defer run.Done(t, chkLin)
	rapid.Check(t, func(t *rapid.T) {
		typ := rapid.SampledFrom(types[:3]).Draw(t, "type")
		op := func(l string) omap.Op {
			switch rapid.IntRange(0, 6).Draw(t, l) {
			case 0, 1, 2:
				return omap.Op{Kind: "set", K: rapid.IntRange(0, 2).Draw(t, l+"k"), V: rapid.SampledFrom([]string{"a", "b", "ax", "by"}).Draw(t, l+"v")}
			case 3:
				return omap.Op{Kind: "update", K: rapid.IntRange(0, 2).Draw(t, l+"k")}
			case 4:
				return omap.Op{Kind: "delete", K: rapid.IntRange(0, 2).Draw(t, l+"k")}
			case 5:
				return omap.Op{Kind: "filter", P: rapid.IntRange(0, 3).Draw(t, l+"p")}
			}
			return omap.Op{Kind: "map", P: 0}
		}
		var init []omap.Op
		for k := 0; k < 3; k++ {
			init = append(init, omap.Op{Kind: "set", K: k, V: rapid.SampledFrom([]string{"a", "b", "bz"}).Draw(t, "init")})
		}
		g := rapid.IntRange(2, 3).Draw(t, "goroutines")
		plans := make([][]omap.Op, g)
		hasFilter := false
		for i := range plans {
			for j, n := 0, rapid.IntRange(1, 3).Draw(t, "len"); j < n; j++ {
				o := op(fmt.Sprint("op", i, "_", j))
				hasFilter = hasFilter || o.Kind == "filter" || o.Kind == "map"
				plans[i] = append(plans[i], o)
			}
		}
		for rep := 0; rep < 40; rep++ {
			if d := omap.Linearizable(omap.Factories[typ], init, plans); d != "" {
				run.Fail(t, chkLin, map[string]any{"map_type": typ, "initial": init, "plans": plans}, "%s", d)
			}
		}
		run.Eval(chkLin, hasFilter, typ, fmt.Sprint(init), fmt.Sprint(plans))
		run.Label("linearizable-plan")
	})
}

func TestReplay(t *testing.T) { run.TestReplay(t) }
