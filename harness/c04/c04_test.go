package c04

import (
	"encoding/json"
	"testing"

	"pgregory.net/rapid"

	"verif/gen"
	"verif/lib"
	"verif/ref"
	"verif/run"
)

func TestMain(m *testing.M) { gen.Avoided = run.Avoided; run.Main(m, "C04") }

const (
	chkFwd = "check-implies-example-valid"
	chkCnv = "violating-example-rejected-at-its-position"
)

type FwdCase struct {
	Schema  string `json:"schema"`
	Example string `json:"example"`
}

type CnvCase struct {
	Schema string `json:"schema"`
	Rule   string `json:"corrupted_rule"`
	Pos    int    `json:"value_offset"`
}

func init() {
	run.RegisterReplay(chkFwd, func(t run.TB, raw json.RawMessage) {
		var c FwdCase
		if err := json.Unmarshal(raw, &c); err != nil {
			t.Fatalf("bad case: %v", err)
		}
		forward(t, c)
	})
	run.RegisterReplay(chkCnv, func(t run.TB, raw json.RawMessage) {
		var c CnvCase
		if err := json.Unmarshal(raw, &c); err != nil {
			t.Fatalf("bad case: %v", err)
		}
		converse(t, c)
	})
}

// forward: Check ok => Validate(example) ok. Returns whether Check accepted.
func forward(t run.TB, c FwdCase) bool {
	s, _ := lib.Build(lib.Spec{Schema: c.Schema})
	cr := lib.Check(s)
	if cr.Panic != "" {
		run.Fail(t, chkFwd, c, "Check panicked: %s", cr.Panic)
	}
	if !cr.OK {
		return false
	}
	v := lib.Validate(s, []byte(c.Example))
	if !v.OK {
		run.Fail(t, chkFwd, c, "Check accepts the schema but validating its own example fails: %v", v)
	}
	return true
}

func converse(t run.TB, c CnvCase) {
	s, _ := lib.Build(lib.Spec{Schema: c.Schema})
	cr := lib.Check(s)
	if cr.Panic != "" {
		run.Fail(t, chkCnv, c, "Check panicked: %s", cr.Panic)
	}
	if cr.OK {
		run.Fail(t, chkCnv, c, "the example violates its own %q rule but Check accepts the schema", c.Rule)
	}
	if !cr.HasPos || cr.Pos != c.Pos {
		run.Fail(t, chkCnv, c, "example violates %q: Check fails (%v) but reports position %d, the value starts at %d", c.Rule, cr, cr.Pos, c.Pos)
	}
}

func ruleDepth(root *ref.SNode) int {
	best := -1
	var rec func(n *ref.SNode, d int)
	rec = func(n *ref.SNode, d int) {
		for _, r := range n.Rules {
			if r.Name != "optional" && d > best {
				best = d
			}
		}
		for i := range n.Props {
			rec(n.Props[i].Val, d+1)
		}
		for _, it := range n.Items {
			rec(it, d+1)
		}
	}
	rec(root, 0)
	return best
}

func TestCheckVsExample(t *testing.T) {
	run.SkipIfReplaying(t)
	defer run.Done(t, chkFwd, chkCnv)
	rapid.Check(t, func(t *rapid.T) {
		model := gen.RuledTree(t, rapid.IntRange(0, 3).Draw(t, "depth"), false, "m")
		st := gen.DefaultStyle()
		st.MultiLine = rapid.IntRange(0, 5).Draw(t, "multi") == 0
		schema := string(gen.PrintSchema(model, st))
		ex, ok := gen.ExampleJSON(model)
		if !ok {
			t.Fatalf("harness bug: plain-JSON model has no example")
		}
		fc := FwdCase{Schema: schema, Example: string(ex)}
		accepted := forward(t, fc)
		d := ruleDepth(model)
		run.Eval(chkFwd, accepted && d >= 1, schema)
		if accepted {
			run.Label("fwd:check-accepted")
			if d >= 1 {
				run.Sample(chkFwd, fc)
			}
		} else {
			run.Label("fwd:check-rejected")
			return
		}
		// converse on the accepted model
		for k := 0; k < 2; k++ {
			bad, cor, ok := gen.Corrupt(t, model, "cor")
			if !ok {
				run.Label("cnv:no-corruption-applies")
				return
			}
			bschema := string(gen.PrintSchema(bad, st))
			cc := CnvCase{Schema: bschema, Rule: cor.Rule, Pos: cor.Node.Begin}
			converse(t, cc)
			run.Eval(chkCnv, true, bschema)
			run.Label("cnv:" + cor.Rule)
			run.Sample(chkCnv, cc)
			// the corrupted schema is also a forward case (Check must reject, or example must validate)
			if bex, ok := gen.ExampleJSON(bad); ok {
				forward(t, FwdCase{Schema: bschema, Example: string(bex)})
				run.Eval(chkFwd, false)
			}
		}
	})
}

func TestReplay(t *testing.T) { run.TestReplay(t) }
