package c04

import (
	"encoding/json"
	"fmt"
	"strings"
	"testing"

	"pgregory.net/rapid"

	js "github.com/jsightapi/jsight-schema-go-library/notations/jschema"

	"verif/gen"
	"verif/lib"
	"verif/ref"
	"verif/run"
)

func TestMain(m *testing.M) { gen.Avoided = run.Avoided; run.Main(m, "C04") }

const (
	chkFwd = "check-implies-example-valid"
	chkCnv = "violating-example-rejected-at-its-position"
)

type FwdCase struct {
	Schema  string `json:"schema"`
	Example string `json:"example"`
}

type CnvCase struct {
	Schema string `json:"schema"`
	Rule   string `json:"corrupted_rule"`
	Pos    int    `json:"value_offset"`
	// Extra: the text of an added type that nothing refers to (it must not change the verdict
	// about the root; it is the uncorrupted schema, so it has values, rules and anonymous `or`
	// types at the very same offsets)
	Extra string `json:"unreferenced_added_type,omitempty"`
}

func init() {
	run.RegisterReplay(chkFwd, func(t run.TB, raw json.RawMessage) {
		var c FwdCase
		if err := json.Unmarshal(raw, &c); err != nil {
			t.Fatalf("bad case: %v", err)
		}
		forward(t, c)
	})
	run.RegisterReplay(chkCnv, func(t run.TB, raw json.RawMessage) {
		var c CnvCase
		if err := json.Unmarshal(raw, &c); err != nil {
			t.Fatalf("bad case: %v", err)
		}
		converse(t, c)
	})
}

// forward: Check ok => Validate(example) ok. Returns whether Check accepted.
func forward(t run.TB, c FwdCase) bool {
	s, _ := lib.Build(lib.Spec{Schema: c.Schema})
	cr := lib.Check(s)
	if cr.Panic != "" {
		run.Fail(t, chkFwd, c, "Check panicked: %s", cr.Panic)
	}
	if !cr.OK {
		return false
	}
	v := lib.Validate(s, []byte(c.Example))
	if !v.OK {
		run.Fail(t, chkFwd, c, "Check accepts the schema but validating its own example fails: %v", v)
	}
	return true
}

func converse(t run.TB, c CnvCase) {
	sp := lib.Spec{Schema: c.Schema}
	if c.Extra != "" {
		sp.Types = []lib.Named{{Name: "@unrelated", Text: c.Extra}}
	}
	s, _ := lib.Build(sp) // AddType loads the root first: a defect of the root may already surface there
	cr := lib.Check(s)
	if cr.Panic != "" {
		run.Fail(t, chkCnv, c, "Check panicked: %s", cr.Panic)
	}
	if cr.OK {
		run.Fail(t, chkCnv, c, "the example violates its own %q rule but Check accepts the schema", c.Rule)
	}
	if !cr.HasPos || cr.Pos != c.Pos {
		run.Fail(t, chkCnv, c, "example violates %q: Check fails (%v) but reports position %d, the value starts at %d", c.Rule, cr, cr.Pos, c.Pos)
	}
}

func ruleDepth(root *ref.SNode) int {
	best := -1
	var rec func(n *ref.SNode, d int)
	rec = func(n *ref.SNode, d int) {
		for _, r := range n.Rules {
			if r.Name != "optional" && d > best {
				best = d
			}
		}
		for i := range n.Props {
			rec(n.Props[i].Val, d+1)
		}
		for _, it := range n.Items {
			rec(it, d+1)
		}
	}
	rec(root, 0)
	return best
}

func TestCheckVsExample(t *testing.T) {
	run.SkipIfReplaying(t)
	defer run.Done(t, chkFwd, chkCnv)
	rapid.Check(t, func(t *rapid.T) {
		model := gen.RuledTree(t, rapid.IntRange(0, 3).Draw(t, "depth"), false, "m")
		st := gen.DefaultStyle()
		st.MultiLine = rapid.IntRange(0, 5).Draw(t, "multi") == 0
		schema := string(gen.PrintSchema(model, st))
		ex, ok := gen.ExampleJSON(model)
		if !ok {
			t.Fatalf("harness bug: plain-JSON model has no example")
		}
		fc := FwdCase{Schema: schema, Example: string(ex)}
		accepted := forward(t, fc)
		d := ruleDepth(model)
		run.Eval(chkFwd, accepted && d >= 1, schema)
		if accepted {
			run.Label("fwd:check-accepted")
			if d >= 1 {
				run.Sample(chkFwd, fc)
			}
		} else {
			run.Label("fwd:check-rejected")
			return
		}
		// converse on the accepted model
		for k := 0; k < 2; k++ {
			bad, cor, ok := gen.Corrupt(t, model, "cor")
			if !ok {
				run.Label("cnv:no-corruption-applies")
				return
			}
			bschema := string(gen.PrintSchema(bad, st))
			cc := CnvCase{Schema: bschema, Rule: cor.Rule, Pos: cor.Node.Begin}
			if rapid.Bool().Draw(t, "extra") {
				cc.Extra = schema
				run.Label("cnv:with-unreferenced-added-type")
			}
			converse(t, cc)
			run.Eval(chkCnv, true, bschema)
			run.Label("cnv:" + cor.Rule)
			run.Sample(chkCnv, cc)
			// the corrupted schema is also a forward case (Check must reject, or example must validate)
			if bex, ok := gen.ExampleJSON(bad); ok {
				forward(t, FwdCase{Schema: bschema, Example: string(bex)})
				run.Eval(chkFwd, false)
			}
		}
	})
}

// A literal declared with {type: "@T"}: its example must obey the rules of the referenced scalar
// type; a violation is reported at the referencing value (in the root text), not inside the type.
type RefCase struct {
	Schema   string `json:"schema"`
	TypeText string `json:"type_text"`
	Example  string `json:"example"`
	Rule     string `json:"corrupted_rule,omitempty"`
	Pos      int    `json:"value_offset"`
	Corrupt  bool   `json:"corrupted"`
}

const chkRef = "type-rule-reference"

func init() {
	run.RegisterReplay(chkRef, func(t run.TB, raw json.RawMessage) {
		var c RefCase
		if err := json.Unmarshal(raw, &c); err != nil {
			t.Fatalf("bad case: %v", err)
		}
		checkRef(t, c)
	})
}

func checkRef(t run.TB, c RefCase) bool {
	// @pet and @list: an object and an array type which reference forms may list next to @t (a
	// literal example is never one of them)
	s, add := lib.Build(lib.Spec{Schema: c.Schema, Types: []lib.Named{{Name: "@t", Text: c.TypeText},
		{Name: "@pet", Text: "{\n  \"name\": \"Tom\"\n}"}, {Name: "@list", Text: "[1, 2]"}, {Name: "@tOrPet", Text: "@t | @pet"}}})
	cr := lib.Check(s)
	if add.Panic != "" || cr.Panic != "" {
		run.Fail(t, chkRef, c, "panic: %v %v", add, cr)
	}
	if !add.OK {
		return false
	}
	if !c.Corrupt {
		if cr.OK {
			if v := lib.Validate(s, []byte(c.Example)); !v.OK {
				run.Fail(t, chkRef, c, "Check accepts the schema but validating its own example fails: %v", v)
			}
		}
		return cr.OK
	}
	if cr.OK {
		run.Fail(t, chkRef, c, "the example violates the %q rule of the type it declares, but Check accepts", c.Rule)
	}
	if !cr.HasPos || cr.Pos != c.Pos || (cr.File != "" && cr.File != "root") {
		run.Fail(t, chkRef, c, "example violates %q of @t: Check fails (%v) at %d in file %q, the value starts at %d in the root text", c.Rule, cr, cr.Pos, cr.File, c.Pos)
	}
	return true
}

func TestTypeRuleReference(t *testing.T) {
	run.SkipIfReplaying(t)
	defer run.Done(t, chkRef)
	rapid.Check(t, func(t *rapid.T) {
		typ, _ := gen.ScalarCase(t, "ty")
		if typ.Rule("enum") != nil || typ.Rule("const") != nil || typ.IsAny() {
			return // keep to types whose kind is fixed by the example
		}
		typeText := string(gen.PrintSchema(typ, nil))
		form := rapid.SampledFrom([]int{0, 0, 1, 2, 3, 4, 5, 6}).Draw(t, "referenceForm")
		mk := func(val *ref.SNode) (*ref.SNode, *ref.SNode) {
			n := &ref.SNode{Kind: ref.SLit, Lit: val.Lit, Tok: val.Tok, Str: val.Str, Rules: []ref.SRule{gen.StrRule("type", "@t")}}
			// the other ways of saying "a @t" (the example is a literal, so object and array types
			// listed next to @t never admit it, and nullable only adds null)
			switch form {
			case 1:
				n.Rules = []ref.SRule{gen.StrRule("type", "@t"), gen.BoolRule("nullable", true)}
			case 2:
				n.Rules = []ref.SRule{gen.BoolRule("nullable", true), gen.StrRule("type", "@t")}
			case 3:
				n.Rules = []ref.SRule{{Name: "or", ValKind: ref.RVOr, Or: []ref.OrItem{{Name: "@pet"}, {Name: "@t"}}}}
			case 4:
				n.Rules = []ref.SRule{{Name: "or", ValKind: ref.RVOr, Or: []ref.OrItem{{Rules: []ref.SRule{gen.StrRule("type", "@t"), gen.BoolRule("nullable", true)}}, {Name: "@list"}}}}
			case 5:
				n.Rules = []ref.SRule{gen.StrRule("type", "@tOrPet")}
			case 6:
				n.Rules = []ref.SRule{{Name: "or", ValKind: ref.RVOr, Or: []ref.OrItem{{Name: "@t"}, {Name: "@pet"}, {Name: "@list"}}}, gen.BoolRule("nullable", true)}
			}
			var root *ref.SNode
			switch rapid.IntRange(0, 2).Draw(t, "wrap") {
			case 0:
				root = n
			case 1:
				root = &ref.SNode{Kind: ref.SArr, Items: []*ref.SNode{{Kind: ref.SLit, Lit: ref.KNumber, Tok: "7"}, n}}
			default:
				root = &ref.SNode{Kind: ref.SObj, Props: []ref.SProp{{Key: "a", KeyTok: `"a"`, Val: &ref.SNode{Kind: ref.SLit, Lit: ref.KTrue, Tok: "true"}}, {Key: "b", KeyTok: `"b"`, Val: n}}}
			}
			return root, n
		}
		root, n := mk(typ)
		schema := string(gen.PrintSchema(root, nil))
		ex, _ := gen.ExampleJSON(root)
		c := RefCase{Schema: schema, TypeText: typeText, Example: string(ex), Pos: n.Begin}
		ok := checkRef(t, c)
		run.Eval(chkRef, ok, schema, typeText)
		if !ok {
			run.Label("ref:check-rejected")
			return
		}
		run.Label("ref:check-accepted")
		bad, cor, okc := gen.Corrupt(t, typ, "cor")
		if !okc || cor.Rule == "type" || bad.Lit != typ.Lit {
			return
		}
		root2, n2 := mk(cor.Node)
		schema2 := string(gen.PrintSchema(root2, nil))
		c2 := RefCase{Schema: schema2, TypeText: typeText, Rule: cor.Rule, Pos: n2.Begin, Corrupt: true}
		checkRef(t, c2)
		run.Eval(chkRef, true, schema2, typeText)
		run.Label("ref-cnv:" + cor.Rule)
		run.Label(fmt.Sprintf("ref-cnv:reference-form-%d", form))
		run.Sample(chkRef, c2)
	})
}

// One type object added to two root schemas (AddType stores the same compiled type in every
// root): each root's Check must visit it and judge it against that root's own type registry, as
// a fresh object would be.
type SharedCase struct {
	Root     string `json:"root_text"`
	TypeText string `json:"shared_type_text"` // @t, one object added to both roots
	U1       string `json:"u_in_root_1"`      // @u as root 1 defines it
	U2       string `json:"u_in_root_2"`      // @u as root 2 defines it
	Rule     string `json:"violated_rule"`
	Scenario string `json:"scenario"`
}

const chkShared = "type-object-shared-between-roots"

func init() {
	run.RegisterReplay(chkShared, func(t run.TB, raw json.RawMessage) {
		var c SharedCase
		if err := json.Unmarshal(raw, &c); err != nil {
			t.Fatalf("bad case: %v", err)
		}
		checkShared(t, c)
	})
}

func buildRoot(rootText string, tObj *js.Schema, u string) (*js.Schema, lib.Res) {
	r := js.New("root", rootText)
	add := lib.Safe(func() error { return r.AddType("@t", tObj) })
	if u != "" {
		if a2 := lib.Safe(func() error { return r.AddType("@u", js.New("@u", u)) }); add.OK {
			add = a2
		}
	}
	return r, add
}

// checkShared returns the verdicts of root 1 and root 2 (shared @t), after comparing each with
// the verdict of the same root built from fresh objects only.
func checkShared(t run.TB, c SharedCase) (lib.Res, lib.Res) {
	fresh := func(u string) lib.Res {
		r, add := buildRoot(c.Root, js.New("@t", c.TypeText), u)
		if !add.OK {
			return add
		}
		return lib.Check(r)
	}
	f1, f2 := fresh(c.U1), fresh(c.U2)
	shared := js.New("@t", c.TypeText)
	r1, a1 := buildRoot(c.Root, shared, c.U1)
	s1 := a1
	if a1.OK {
		s1 = lib.Check(r1)
	}
	r2, a2 := buildRoot(c.Root, shared, c.U2)
	s2 := a2
	if a2.OK {
		s2 = lib.Check(r2)
	}
	for _, r := range []lib.Res{f1, f2, s1, s2} {
		if r.Panic != "" {
			run.Fail(t, chkShared, c, "panic: %v", r)
		}
	}
	same := func(a, b lib.Res) bool { return a.OK == b.OK && a.Code == b.Code && a.Pos == b.Pos && a.File == b.File }
	if !same(f1, s1) {
		run.Fail(t, chkShared, c, "root 1: Check gives %v with fresh objects but %v with the shared type object", f1, s1)
	}
	if !same(f2, s2) {
		run.Fail(t, chkShared, c, "root 2 (type object already checked as part of root 1): Check gives %v, a root built from fresh objects gives %v", s2, f2)
	}
	return s1, s2
}

func TestSharedTypeObject(t *testing.T) {
	run.SkipIfReplaying(t)
	defer run.Done(t, chkShared)
	rapid.Check(t, func(t *rapid.T) {
		typ, _ := gen.ScalarCase(t, "ty")
		if typ.Rule("enum") != nil || typ.Rule("const") != nil || typ.IsAny() {
			return
		}
		bad, cor, ok := gen.Corrupt(t, typ, "cor")
		if !ok || cor.Rule == "type" || bad.Lit != typ.Lit {
			return
		}
		goodText := string(gen.PrintSchema(typ, nil))
		badText := string(gen.PrintSchema(bad, nil))
		root := rapid.SampledFrom([]string{"@t", "[@t]", `{"k": @t}`, `{"k": @t, "j": [@t, @t]}`}).Draw(t, "root")
		var c SharedCase
		switch rapid.IntRange(0, 1).Draw(t, "scenario") {
		case 0:
			// the shared type's own example violates its own rule: both roots must reject it
			c = SharedCase{Root: root, TypeText: badText, Rule: cor.Rule, Scenario: "shared type with a violating example"}
			s1, s2 := checkShared(t, c)
			if s1.OK || s2.OK {
				run.Fail(t, chkShared, c, "the shared type's example violates its %q rule but Check accepts (root 1: %v, root 2: %v)", cor.Rule, s1, s2)
			}
		default:
			// the shared type refers to @u; root 1 defines @u without rules, root 2 with a rule
			// that the shared type's example violates
			plain := &ref.SNode{Kind: ref.SLit, Lit: bad.Lit, Tok: bad.Tok, Str: bad.Str}
			holder := &ref.SNode{Kind: ref.SLit, Lit: bad.Lit, Tok: bad.Tok, Str: bad.Str, Rules: []ref.SRule{gen.StrRule("type", "@u")}}
			c = SharedCase{Root: root, TypeText: string(gen.PrintSchema(holder, nil)), U1: string(gen.PrintSchema(plain, nil)), U2: goodText,
				Rule: cor.Rule, Scenario: "shared type refers to @u, which only root 2 restricts"}
			s1, s2 := checkShared(t, c)
			if !s1.OK {
				run.Label("shared:root1-rejected")
			}
			if s2.OK {
				run.Fail(t, chkShared, c, "in root 2 the shared type's example violates the %q rule of @u but Check accepts", cor.Rule)
			}
		}
		run.Eval(chkShared, true, c.Root, c.TypeText, c.U1, c.U2)
		run.Label("shared:" + c.Scenario)
		run.Sample(chkShared, c)
	})
}

// An empty container example under an "or" rule: it obeys the rule iff some alternative admits an
// empty array / an empty object - an alternative of that kind (by name, or a rule set whose type
// says so, or a rule set without type made of rules for that kind only) whose item counts admit 0
// items. A rule set of rules for literals (enum, bounds, lengths, regex) never admits a container.
func TestContainerExampleUnderOr(t *testing.T) {
	run.SkipIfReplaying(t)
	defer run.Done(t, chkCnv)
	type alt struct {
		text          string
		array, object bool // admits [] / {}
	}
	pool := []alt{
		{`"string"`, false, false}, {`"integer"`, false, false}, {`"null"`, false, false}, {`"boolean"`, false, false},
		{`{type: "string"}`, false, false}, {`{type: "integer", min: 1}`, false, false}, {`{type: "string", minLength: 2}`, false, false},
		{`{enum: ["y", 1]}`, false, false}, {`{min: 1}`, false, false}, {`{max: 3}`, false, false}, {`{minLength: 2}`, false, false}, {`{regex: "^a"}`, false, false},
		{`{type: "array", minItems: 1}`, false, false}, {`{type: "array", minItems: 2, maxItems: 3}`, false, false}, {`{minItems: 1}`, false, false},
		{`{type: "array"}`, true, false}, {`{type: "array", maxItems: 3}`, true, false}, {`{type: "array", minItems: 0}`, true, false}, {`{minItems: 0}`, true, false}, {`"array"`, true, false},
		{`{type: "object"}`, false, true}, {`{type: "object", additionalProperties: true}`, false, true}, {`{additionalProperties: "any"}`, false, true}, {`"object"`, false, true},
		{`"any"`, true, true}, {`{type: "any"}`, true, true},
	}
	rapid.Check(t, func(t *rapid.T) {
		example := rapid.SampledFrom([]string{"[]", "{}", "[ ]", "{ }"}).Draw(t, "example")
		isArr := example[0] == '['
		n := rapid.IntRange(2, 3).Draw(t, "n")
		var texts []string
		admitted := false
		seen := map[string]bool{}
		for len(texts) < n {
			a := rapid.SampledFrom(pool).Draw(t, "alt")
			if seen[a.text] {
				continue
			}
			seen[a.text] = true
			texts = append(texts, a.text)
			admitted = admitted || (isArr && a.array) || (!isArr && a.object)
		}
		rule := "{or: [" + strings.Join(texts, ", ") + "]}"
		lead := rapid.SampledFrom([]string{"", "", "  ", "{\n  \"p\": "}).Draw(t, "lead")
		schema := lead + example + " // " + rule
		if strings.HasPrefix(lead, "{") {
			schema += "\n}"
		}
		pos := len(lead)
		s, _ := lib.Build(lib.Spec{Schema: schema})
		cr := lib.Check(s)
		c := CnvCase{Schema: schema, Rule: "or", Pos: pos}
		if cr.Panic != "" {
			run.Fail(t, chkCnv, c, "Check panicked: %s", cr.Panic)
		}
		switch {
		case !admitted:
			converse(t, c)
			run.Label("container-example-admitted-by-no-alternative")
		case cr.OK:
			ex := example
			if strings.HasPrefix(lead, "{") {
				ex = "{\"p\":" + example + "}"
			}
			if v := lib.Validate(s, []byte(ex)); !v.OK {
				run.Fail(t, chkFwd, FwdCase{Schema: schema, Example: ex}, "Check accepts the schema but validating its own example fails: %v", v)
			}
			run.Label("container-example-admitted:check-accepts")
		case cr.Code == 204:
			run.Fail(t, chkCnv, c, "the example %s is admitted by an alternative of %s, but Check says none is: %v", example, rule, cr)
		default:
			run.Label("container-example-admitted:rejected-for-another-reason")
			run.Note("or over a container example rejected: %s -> %v", schema, cr)
		}
		run.Eval(chkCnv, true, schema)
	})
}

// A scalar example under an or rule none of whose alternatives admits it: alternatives that declare
// another kind, and rule sets WITHOUT a type whose rule cannot apply to a value of the example's
// kind (a length for a number, a bound for a string, an item count for a scalar ...). Whatever kind
// such a rule set is given, the example is not a value its rule speaks about.
func TestScalarExampleUnderOr(t *testing.T) {
	run.SkipIfReplaying(t)
	defer run.Done(t, chkCnv)
	type ex struct{ tok, kind string }
	examples := []ex{{"55", "integer"}, {"5", "integer"}, {"1.5", "float"}, {"true", "boolean"}, {"false", "boolean"}, {"null", "null"}, {`"x"`, "string"}, {`"true"`, "string"}}
	declared := map[string][]string{
		"integer": {`"string"`, `{type: "string"}`, `"boolean"`, `{type: "string", minLength: 1}`, `"null"`},
		"float":   {`"string"`, `{type: "integer"}`, `"boolean"`, `"null"`},
		"boolean": {`"string"`, `{type: "integer", min: 0}`, `"null"`, `{type: "string"}`},
		"null":    {`"string"`, `{type: "integer"}`, `"boolean"`},
		"string":  {`"integer"`, `{type: "integer", min: 0}`, `"boolean"`, `"null"`, `{type: "float"}`},
	}
	foreign := map[string][]string{
		"integer": {`{minLength: 2}`, `{maxLength: 5}`, `{regex: "^5"}`, `{minItems: 3}`, `{additionalProperties: false}`, `{minLength: 1, maxLength: 9}`},
		"float":   {`{minLength: 2}`, `{regex: "^1"}`, `{maxItems: 3}`},
		"boolean": {`{regex: "^t"}`, `{maxLength: 5}`, `{min: 0}`, `{minItems: 0}`},
		"null":    {`{regex: "^n"}`, `{minLength: 1}`, `{max: 3}`},
		"string":  {`{minItems: 3}`, `{min: 1}`, `{additionalProperties: true}`, `{precision: 2}`},
	}
	rapid.Check(t, func(t *rapid.T) {
		e := rapid.SampledFrom(examples).Draw(t, "example")
		alts := []string{rapid.SampledFrom(foreign[e.kind]).Draw(t, "foreign")}
		for i, n := 0, rapid.IntRange(1, 2).Draw(t, "ndeclared"); i < n; i++ {
			a := rapid.SampledFrom(declared[e.kind]).Draw(t, "declared")
			dup := false
			for _, x := range alts {
				dup = dup || x == a
			}
			if !dup {
				alts = append(alts, a)
			}
		}
		if rapid.Bool().Draw(t, "foreignLast") {
			alts[0], alts[len(alts)-1] = alts[len(alts)-1], alts[0]
		}
		rule := "{or: [" + strings.Join(alts, ", ") + "]}"
		lead := rapid.SampledFrom([]string{"", "  ", "{\n  \"p\": ", "[\n  "}).Draw(t, "lead")
		schema := lead + e.tok + " // " + rule
		switch {
		case strings.HasPrefix(lead, "{"):
			schema += "\n}"
		case strings.HasPrefix(lead, "["):
			schema += "\n]"
		}
		converse(t, CnvCase{Schema: schema, Rule: "or", Pos: len(lead)})
		run.Eval(chkCnv, true, schema)
		run.Label("scalar-example-admitted-by-no-alternative")
	})
}

func TestReplay(t *testing.T) { run.TestReplay(t) }
