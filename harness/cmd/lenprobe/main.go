package main

import (
	"fmt"
	"os"

	libjson "github.com/jsightapi/jsight-schema-go-library/formats/json"
	"github.com/jsightapi/jsight-schema-go-library/rules/enum"
)

func main() {
	for _, s := range os.Args[1:] {
		l, err := libjson.New("d", s, libjson.AllowTrailingNonSpaceCharacters()).Len()
		el, eerr := enum.New("e", s).Len()
		fmt.Printf("%q json Len=%d err=%v | enum Len=%d err=%v\n", s, l, err, el, eerr)
	}
}
