// maporder rewrites every `for k[, v] := range <map>` of the module at -repo (non-test files)
// into iteration over an explicitly ordered key list taken from internal/verifmaporder.Keys,
// writes the rewritten files under -out and prints an overlay JSON object {original: rewritten}
// (plus the injected verifmaporder package). Every order Keys can produce is one the Go runtime
// may produce, so a result that differs between orders is a genuine map-order dependence.
package main

import (
	"bytes"
	"encoding/json"
	"flag"
	"fmt"
	"go/ast"
	"go/format"
	"go/token"
	"go/types"
	"os"
	"path/filepath"
	"strings"

	"golang.org/x/tools/go/packages"
)

const modPath = "github.com/jsightapi/jsight-schema-go-library"

func main() {
	repo := flag.String("repo", "/repo", "module root")
	out := flag.String("out", "", "output directory for rewritten files")
	hook := flag.String("hook", "", "path of the verifmaporder package source to inject")
	list := flag.Bool("list", false, "only list the sites")
	flag.Parse()
	cfg := &packages.Config{Mode: packages.NeedName | packages.NeedFiles | packages.NeedSyntax | packages.NeedTypes | packages.NeedTypesInfo | packages.NeedImports | packages.NeedDeps | packages.NeedCompiledGoFiles,
		Dir: *repo, Env: append(os.Environ(), "GOFLAGS=-mod=mod", "GOPROXY=off", "GOSUMDB=off", "GOTOOLCHAIN=local")}
	pkgs, err := packages.Load(cfg, "./...")
	if err != nil {
		fmt.Fprintln(os.Stderr, "load:", err)
		os.Exit(1)
	}
	overlay := map[string]string{}
	sites := 0
	for _, p := range pkgs {
		if len(p.Errors) > 0 {
			fmt.Fprintln(os.Stderr, "package errors:", p.PkgPath, p.Errors)
			os.Exit(1)
		}
		if strings.Contains(p.PkgPath, "/internal/mocks") || strings.HasSuffix(p.PkgPath, "/internal/cmd/generator") {
			continue
		}
		for i, f := range p.Syntax {
			name := p.CompiledGoFiles[i]
			if strings.HasSuffix(name, "_test.go") {
				continue
			}
			changed := false
			counter := 0
			ast.Inspect(f, func(n ast.Node) bool {
				rs, ok := n.(*ast.RangeStmt)
				if !ok || rs.Tok != token.DEFINE || rs.Key == nil {
					return true
				}
				tv, ok := p.TypesInfo.Types[rs.X]
				if !ok {
					return true
				}
				mt, ok := tv.Type.Underlying().(*types.Map)
				if !ok {
					return true
				}
				_ = mt
				sites++
				if *list {
					pos := p.Fset.Position(rs.Pos())
					fmt.Printf("%s:%d\n", strings.TrimPrefix(pos.Filename, *repo+"/"), pos.Line)
					return true
				}
				// for _, k := range verifmaporder.Keys(X) { v, ok := X[k]; if !ok { continue }; body }
				counter++
				keyIdent, isIdent := rs.Key.(*ast.Ident)
				keyName := fmt.Sprintf("verifKey%d", counter)
				if isIdent && keyIdent.Name != "_" {
					keyName = keyIdent.Name
				}
				var pre []ast.Stmt
				okName := fmt.Sprintf("verifOk%d", counter)
				valExpr := ast.Expr(ast.NewIdent("_"))
				if rs.Value != nil {
					if id, ok := rs.Value.(*ast.Ident); !ok || id.Name != "_" {
						valExpr = rs.Value
					}
				}
				pre = append(pre, &ast.AssignStmt{
					Lhs: []ast.Expr{valExpr, ast.NewIdent(okName)}, Tok: token.DEFINE,
					Rhs: []ast.Expr{&ast.IndexExpr{X: rs.X, Index: ast.NewIdent(keyName)}},
				})
				pre = append(pre, &ast.IfStmt{Cond: &ast.UnaryExpr{Op: token.NOT, X: ast.NewIdent(okName)},
					Body: &ast.BlockStmt{List: []ast.Stmt{&ast.BranchStmt{Tok: token.CONTINUE}}}})
				rs.Body.List = append(pre, rs.Body.List...)
				rs.Key = ast.NewIdent("_")
				rs.Value = ast.NewIdent(keyName)
				rs.X = &ast.CallExpr{Fun: &ast.SelectorExpr{X: ast.NewIdent("verifmaporder"), Sel: ast.NewIdent("Keys")}, Args: []ast.Expr{rs.X}}
				changed = true
				return true
			})
			if changed {
				// add the import
				imp := &ast.ImportSpec{Path: &ast.BasicLit{Kind: token.STRING, Value: `"` + modPath + `/verifmaporder"`}}
				f.Decls = append([]ast.Decl{&ast.GenDecl{Tok: token.IMPORT, Specs: []ast.Spec{imp}}}, f.Decls...)
				var buf bytes.Buffer
				if err := format.Node(&buf, p.Fset, f); err != nil {
					fmt.Fprintln(os.Stderr, "format:", err)
					os.Exit(1)
				}
				rel, _ := filepath.Rel(*repo, name)
				dst := filepath.Join(*out, strings.ReplaceAll(rel, "/", "__"))
				os.MkdirAll(*out, 0o755)
				if err := os.WriteFile(dst, buf.Bytes(), 0o644); err != nil {
					fmt.Fprintln(os.Stderr, err)
					os.Exit(1)
				}
				overlay[name] = dst
			}
		}
	}
	if *list {
		fmt.Fprintf(os.Stderr, "%d range-over-map sites\n", sites)
		return
	}
	if *hook != "" {
		overlay[filepath.Join(*repo, "verifmaporder", "order.go")] = *hook
	}
	fmt.Fprintf(os.Stderr, "rewrote %d range-over-map sites in %d files\n", sites, len(overlay))
	json.NewEncoder(os.Stdout).Encode(overlay)
}
