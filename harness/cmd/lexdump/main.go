package main

import (
	"fmt"
	"os"

	libjson "github.com/jsightapi/jsight-schema-go-library/formats/json"
)

func main() {
	d := libjson.New("d", os.Args[1])
	for {
		l, err := d.NextLexeme()
		if err != nil {
			fmt.Println("END:", err)
			return
		}
		fmt.Printf("%s [%d,%d] %q\n", l.Type().String(), l.Begin(), l.End(), l.Value())
	}
}
