// probe: ad-hoc exploration helper.  probe [-opt] [-t name=text]... [-e name=enumtext]... schema [doc...]
package main

import (
	"encoding/json"
	"flag"
	"fmt"
	"strings"

	jschema "github.com/jsightapi/jsight-schema-go-library"
	libjson "github.com/jsightapi/jsight-schema-go-library/formats/json"
	js "github.com/jsightapi/jsight-schema-go-library/notations/jschema"
	"github.com/jsightapi/jsight-schema-go-library/notations/regex"
	"github.com/jsightapi/jsight-schema-go-library/rules/enum"
)

type multi []string

func (m *multi) String() string     { return strings.Join(*m, ",") }
func (m *multi) Set(s string) error { *m = append(*m, s); return nil }

func errStr(err error) string {
	if err == nil {
		return "<nil>"
	}
	s := fmt.Sprintf("%T ", err)
	if pe, ok := err.(jschema.ParsingError); ok {
		s += fmt.Sprintf("code=%d pos=%d msg=%q", pe.ErrCode(), pe.Position(), pe.Message())
	} else if ve, ok := err.(jschema.ValidationError); ok {
		s += fmt.Sprintf("code=%d msg=%q", ve.ErrCode(), ve.Message())
	} else {
		s += err.Error()
	}
	return s
}

func main() {
	var types, enums multi
	opt := flag.Bool("opt", false, "KeysAreOptionalByDefault")
	ast := flag.Bool("ast", false, "print AST")
	ex := flag.Bool("ex", false, "print Example")
	flag.Var(&types, "t", "name=text (regex when text starts with /)")
	flag.Var(&enums, "e", "name=enum text")
	flag.Parse()
	a := flag.Args()
	var oo []js.Option
	if *opt {
		oo = append(oo, js.KeysAreOptionalByDefault())
	}
	mk := func() *js.Schema {
		s := js.New("root", a[0], oo...)
		for _, e := range enums {
			kv := strings.SplitN(e, "=", 2)
			fmt.Println("AddRule", kv[0], errStr(s.AddRule(kv[0], enum.New(kv[0], kv[1]))))
		}
		for _, t := range types {
			kv := strings.SplitN(t, "=", 2)
			var err error
			if strings.HasPrefix(kv[1], "/") {
				err = s.AddType(kv[0], regex.New(kv[0], kv[1]))
			} else {
				err = s.AddType(kv[0], js.New(kv[0], kv[1]))
			}
			if err != nil {
				fmt.Println("AddType", kv[0], errStr(err))
			}
		}
		return s
	}
	func() {
		defer func() {
			if r := recover(); r != nil {
				fmt.Println("PANIC:", r)
			}
		}()
		s := mk()
		l, lerr := s.Len()
		fmt.Println("Len:", l, errStr(lerr))
		fmt.Println("Check:", errStr(s.Check()))
		if *ast {
			n, err := s.GetAST()
			b, _ := json.MarshalIndent(n, "", " ")
			fmt.Println("AST:", string(b), errStr(err))
		}
		if *ex {
			b, err := s.Example()
			fmt.Printf("Example: %s %s\n", b, errStr(err))
		}
		u, _ := s.UsedUserTypes()
		fmt.Println("Used:", u)
		for _, d := range a[1:] {
			func() {
				defer func() {
					if r := recover(); r != nil {
						fmt.Println("PANIC:", r)
					}
				}()
				fmt.Printf("Validate %s: %s\n", d, errStr(s.Validate(libjson.New("doc", d))))
			}()
		}
	}()
}
