// Package c11m: results must not depend on map iteration order. Built with the map-order
// overlay (cmd/maporder): every range-over-map site of the library iterates in the order
// chosen by verifmaporder.Mode.
package c11m

import (
	"encoding/json"
	"fmt"
	"sync/atomic"
	"testing"

	"pgregory.net/rapid"

	"github.com/jsightapi/jsight-schema-go-library/verifmaporder"

	"verif/gen"
	"verif/hist"
	"verif/lib"
	"verif/run"
)

func TestMain(m *testing.M) { gen.Avoided = run.Avoided; run.Main(m, "C11") }

const chk = "map-order"

type Case struct {
	Spec *hist.Spec `json:"spec"`
}

func init() {
	run.RegisterReplay(chk, func(t run.TB, raw json.RawMessage) {
		var c Case
		if err := json.Unmarshal(raw, &c); err != nil {
			t.Fatalf("bad case: %v", err)
		}
		check(t, c)
	})
}

var modeNames = []string{"ascending", "descending", "rotate-1", "rotate-2"}

func check(t run.TB, c Case) (reached int64) {
	ops := hist.Ops(c.Spec)
	var base []string
	before := atomic.LoadInt64(&verifmaporder.MultiEntry)
	for mode := int32(0); mode < 4; mode++ {
		atomic.StoreInt32(&verifmaporder.Mode, mode)
		o := hist.Build(c.Spec)
		var res []string
		for _, op := range ops {
			r, _ := hist.Do(o, op)
			res = append(res, r)
		}
		if mode == 0 {
			base = res
			continue
		}
		for i := range res {
			if res[i] != base[i] {
				atomic.StoreInt32(&verifmaporder.Mode, 0)
				run.Fail(t, chk, c, "%s differs between map iteration orders: %s -> %s ; %s -> %s", ops[i], modeNames[0], trunc(base[i]), modeNames[mode], trunc(res[i]))
			}
		}
	}
	atomic.StoreInt32(&verifmaporder.Mode, 0)
	return atomic.LoadInt64(&verifmaporder.MultiEntry) - before
}

func trunc(s string) string {
	if len(s) > 300 {
		return s[:300] + "…"
	}
	return s
}

// overlapSpec: schemas biased to what the range sites touch – several added types, several or
// alternatives alive at once, >=2 missing required keys, overlapping key shortcuts, allOf from
// several parents, unnamed types from several or rule sets.
func overlapSpec(t *rapid.T) *hist.Spec {
	sp := &hist.Spec{Kind: "schema"}
	sp.Schema = lib.Spec{
		Schema: "{ // {allOf: [\"@p1\", \"@p2\"]}\n  @k: 1,\n  @j: \"s\",\n  \"o\": 5, // {or: [{type: \"integer\", min: 0}, {type: \"string\", maxLength: 3}, \"@u\", \"boolean\"]}\n  \"m\": @u | @w | @p1\n}",
		Types: []lib.Named{
			{Name: "@k", Text: `"ab" // {minLength: 2}`}, {Name: "@j", Text: `"abc" // {maxLength: 3}`},
			{Name: "@p1", Text: "{\n  \"r1\": 1,\n  \"r2\": 2\n}"}, {Name: "@p2", Text: "{\n  \"q1\": 1, // {optional: true}\n  \"q2\": \"x\"\n}"},
			{Name: "@u", Text: "{\n  \"ua\": 1,\n  \"ub\": 2\n}"}, {Name: "@w", Text: "[@u]"},
		},
	}
	docs := []string{
		`{"ab":1,"abc":"s","o":5,"m":{"ua":1,"ub":2},"r1":1,"r2":2,"q2":"x"}`,
		`{"abc":1,"ab":"s","o":"xyz","m":[],"r1":1,"r2":2,"q2":"x"}`,
		`{"o":true}`, `{}`, `{"abc":"s","abcd":1}`, `{"ab":1,"abc":"s","o":{"ua":1},"m":{"r1":1},"r1":1,"r2":2,"q2":"x","zz":1}`,
	}
	k := rapid.IntRange(2, len(docs)).Draw(t, "ndocs")
	sp.Docs = rapid.Permutation(docs).Draw(t, "docs")[:k]
	if rapid.IntRange(0, 3).Draw(t, "missingType") == 0 {
		sp.Schema.Types = sp.Schema.Types[:rapid.IntRange(2, 5).Draw(t, "ntypes")]
	}
	return sp
}

// guessSpec: additional properties of a declared JSON kind against literals in every spelling
// (the kind of a literal is guessed by trying a set of predicates kept in a map).
func guessSpec(t *rapid.T) *hist.Spec {
	kind := rapid.SampledFrom([]string{"integer", "float", "string", "boolean", "null", "any", "array", "object"}).Draw(t, "apKind")
	sp := &hist.Spec{Kind: "schema"}
	sp.Schema = lib.Spec{Schema: "{ // {additionalProperties: \"" + kind + "\"}\n  \"a\": 1\n}"}
	toks := []string{"1", "-0", "0", "1e2", "1.5e1", "12E0", "-3e+1", "1e-2", "1.0", "1.50", "100e-2", "2.5", "1E400", "true", "false", "null", `"s"`, `"1"`, `""`, `"1.5"`, `"a.b"`, `"-0.0"`, "[]", "{}", "[1]", `{"k":1}`}
	n := rapid.IntRange(3, 8).Draw(t, "ndocs")
	for i := 0; i < n; i++ {
		sp.Docs = append(sp.Docs, `{"a":1,"x":`+rapid.SampledFrom(toks).Draw(t, "tok")+`}`)
	}
	return sp
}

// defectsSpec: schemas that are wrong in two or three ways at once (which defect is reported, and
// with which message, must not depend on the order some table is walked in).
func defectsSpec(t *rapid.T) *hist.Spec {
	sp := &hist.Spec{Kind: "schema"}
	sp.Schema = lib.Spec{Schema: rapid.SampledFrom([]string{
		`"a@b.c" // {type: "email", minLength: 1, maxLength: 100}`,
		`"a@b.c" // {maxLength: 100, regex: "a", type: "email", minLength: 1}`,
		`"2021-01-01" // {type: "date", regex: "^2", maxLength: 10}`,
		`"http://a.b" // {minLength: 1, type: "uri", regex: "a", maxLength: 50}`,
		`"550e8400-e29b-41d4-a716-446655440000" // {type: "uuid", maxLength: 36, minLength: 36}`,
		`1 // {foo: 1, bar: 2, baz: 3}`,
		`1 // {minLength: 1, maxLength: 2, regex: "a", minItems: 1}`,
		"{\n  \"a\": @x,\n  \"b\": @y,\n  \"c\": @z\n}",
		"{\n  \"a\": 1, // {minLength: 1, regex: \"a\"}\n  \"b\": \"s\" // {min: 1, max: 2, precision: 1}\n}",
		`1.5 // {precision: 1, minLength: 2, exclusiveMinimum: true, exclusiveMaximum: true}`,
		"{ // {minItems: 1, maxItems: 2, regex: \"a\"}\n  \"a\": 1\n}",
		"[ // {additionalProperties: true, min: 1, allOf: \"@x\"}\n  1\n]",
		`true // {or: [{type: "email", minLength: 1, regex: "a"}, {type: "boolean"}]}`,
	}).Draw(t, "defects")}
	sp.Docs = []string{"1", `"a@b.c"`, `{"a":1,"b":"s"}`}
	return sp
}

func TestMapOrders(t *testing.T) {
	run.SkipIfReplaying(t)
	defer run.Done(t, chk)
	rapid.Check(t, func(t *rapid.T) {
		var sp *hist.Spec
		if k := rapid.IntRange(0, 8).Draw(t, "overlap"); k == 8 {
			sp = defectsSpec(t)
			run.Label("family:several-defects-at-once")
		} else if k <= 1 {
			sp = overlapSpec(t)
			run.Label("family:overlap-biased")
		} else if k == 2 {
			sp = guessSpec(t)
			run.Label("family:literal-kind-guessing")
		} else {
			sp = hist.DrawSchemaSpec(t, "s", rapid.IntRange(0, 2).Draw(t, "family"))
			run.Label("family:generated")
		}
		reached := check(t, Case{Spec: sp})
		run.Eval(chk, reached > 0, fmt.Sprint(sp.Schema), fmt.Sprint(sp.Docs))
		run.LabelN("multi-entry-map-iterations", reached)
		if reached > 0 {
			run.Sample(chk, map[string]any{"schema": sp.Schema.Schema, "types": len(sp.Schema.Types), "docs": sp.Docs, "multi_entry_iterations": reached})
		}
	})
}

func TestReplay(t *testing.T) { run.TestReplay(t) }
