// Package num: numeral enumeration and generation shared by c10 and c10h.
package num

import (
	"math/big"
	"strings"

	"pgregory.net/rapid"

	"verif/ref"
)

// Enumerate returns every RFC 8259 numeral of 1..maxLen characters over the alphabet
// - 0 1 5 9 . e E +  (grammar-directed DFS, so no filtering of 9^maxLen strings is needed).
func Enumerate(maxLen int) []string {
	var out []string
	digits := []byte("0159")
	var exp func(p string, stage int)
	// stage: 0 start, 1 after '-', 2 after leading 0, 3 in int digits, 4 after '.', 5 in frac, 6 after e, 7 after e sign, 8 in exp digits
	exp = func(p string, stage int) {
		if len(p) > maxLen {
			return
		}
		if stage == 2 || stage == 3 || stage == 5 || stage == 8 {
			out = append(out, p)
		}
		if len(p) == maxLen {
			return
		}
		switch stage {
		case 0:
			exp(p+"-", 1)
			fallthrough
		case 1:
			exp(p+"0", 2)
			for _, d := range digits[1:] {
				exp(p+string(d), 3)
			}
		case 2, 3:
			if stage == 3 {
				for _, d := range digits {
					exp(p+string(d), 3)
				}
			}
			exp(p+".", 4)
			exp(p+"e", 6)
			exp(p+"E", 6)
		case 4, 5:
			for _, d := range digits {
				exp(p+string(d), 5)
			}
			if stage == 5 {
				exp(p+"e", 6)
				exp(p+"E", 6)
			}
		case 6:
			exp(p+"+", 7)
			exp(p+"-", 7)
			fallthrough
		case 7, 8:
			for _, d := range digits {
				exp(p+string(d), 8)
			}
		}
	}
	exp("", 0)
	return out
}

func HasExp(tok string) bool { return strings.ContainsAny(tok, "eE") }

// ZeroMantissaExp: the spelling of known finding C10-zero-mantissa-exponent: -?0[eE]...
func ZeroMantissaExp(tok string) bool {
	s := strings.TrimPrefix(tok, "-")
	return len(s) >= 2 && s[0] == '0' && (s[1] == 'e' || s[1] == 'E')
}

// Random draws a numeral with a mantissa of up to maxDigits digits and |exponent| <= maxExp.
func Random(t *rapid.T, maxDigits, maxExp int, allowExp bool, label string) string {
	var b strings.Builder
	if rapid.IntRange(0, 2).Draw(t, label+"Neg") == 0 {
		b.WriteByte('-')
	}
	intLen := rapid.IntRange(1, maxDigits).Draw(t, label+"IntLen")
	if rapid.IntRange(0, 3).Draw(t, label+"ZeroInt") == 0 {
		b.WriteByte('0')
	} else {
		b.WriteString(digs(t, intLen, true, label+"Int"))
	}
	if rapid.IntRange(0, 2).Draw(t, label+"HasFrac") > 0 {
		b.WriteByte('.')
		b.WriteString(digs(t, rapid.IntRange(1, maxDigits).Draw(t, label+"FracLen"), false, label+"Frac"))
	}
	if allowExp && rapid.IntRange(0, 2).Draw(t, label+"HasExp") == 0 {
		b.WriteString(rapid.SampledFrom([]string{"e", "E"}).Draw(t, label+"E"))
		b.WriteString(rapid.SampledFrom([]string{"", "+", "-"}).Draw(t, label+"ES"))
		e := rapid.IntRange(0, maxExp).Draw(t, label+"Exp")
		s := big.NewInt(int64(e)).String()
		if rapid.IntRange(0, 5).Draw(t, label+"ExpPad") == 0 {
			s = "0" + s
		}
		b.WriteString(s)
	}
	return b.String()
}

// SameLength draws a numeral with the sign and the integer-part length of tok (an exponent-free
// numeral) and fresh digits; the fraction is kept, dropped or redrawn.
func SameLength(t *rapid.T, tok string, label string) string {
	neg := strings.HasPrefix(tok, "-")
	body := strings.TrimPrefix(tok, "-")
	ip, fp := body, ""
	if i := strings.IndexByte(body, '.'); i >= 0 {
		ip, fp = body[:i], body[i+1:]
	}
	var b strings.Builder
	if neg {
		b.WriteByte('-')
	}
	if len(ip) == 1 {
		b.WriteByte(byte('0' + rapid.IntRange(0, 9).Draw(t, label+"One")))
	} else {
		b.WriteString(digs(t, len(ip), true, label+"Int"))
	}
	switch rapid.IntRange(0, 2).Draw(t, label+"Frac") {
	case 0:
		if fp != "" {
			b.WriteString("." + fp)
		}
	case 1:
		b.WriteString("." + digs(t, rapid.IntRange(1, 6).Draw(t, label+"FracLen"), false, label+"FracD"))
	}
	return b.String()
}

func digs(t *rapid.T, n int, noLeadZero bool, label string) string {
	var b strings.Builder
	for i := 0; i < n; i++ {
		lo := 0
		if i == 0 && noLeadZero {
			lo = 1
		}
		// biased to 0 and 9 (padding, carries)
		switch rapid.IntRange(0, 3).Draw(t, label+"B") {
		case 0:
			if lo == 0 {
				b.WriteByte('0')
				continue
			}
			b.WriteByte('9')
		case 1:
			b.WriteByte('9')
		default:
			b.WriteByte(byte('0' + rapid.IntRange(lo, 9).Draw(t, label+"D")))
		}
	}
	return b.String()
}

// Respell returns another numeral with the same value: shifted point with compensating
// exponent, padded zeros, e/E, explicit +, or a neighbour differing in the last digit / sign
// (kind reports which).
func Respell(t *rapid.T, tok string, allowExp bool, label string) (string, string) {
	d, ok := ref.ParseDecimal(tok)
	if !ok {
		return tok, "same"
	}
	choice := rapid.IntRange(0, 6).Draw(t, label+"Kind")
	if !allowExp && choice <= 1 {
		choice = 2
	}
	sign := ""
	if d.Neg {
		sign = "-"
	}
	switch choice {
	case 0: // mantissa e exp (shift by k)
		k := rapid.IntRange(-5, 5).Draw(t, label+"Shift")
		mant := d.Mant.String()
		if d.IsZero() {
			k = 0
		}
		if k > 0 {
			mant += strings.Repeat("0", k)
		}
		e := d.Exp10 - int64(max0(k))
		if k < 0 {
			// write mantissa with a point: m.mmm e (exp + len-1 ...)
			kk := -k
			if kk < len(mant) {
				mant = mant[:len(mant)-kk] + "." + mant[len(mant)-kk:]
				e = d.Exp10 + int64(kk)
			}
		}
		es := rapid.SampledFrom([]string{"e", "E"}).Draw(t, label+"E")
		sg := ""
		if e >= 0 && rapid.Bool().Draw(t, label+"Plus") {
			sg = "+"
		}
		// the exponent is any non-empty digit string: zeros may lead it, as many as one likes
		abs := new(big.Int).Abs(big.NewInt(e)).String()
		if e < 0 {
			sg = "-"
		}
		pad := strings.Repeat("0", rapid.SampledFrom([]int{0, 0, 0, 0, 1, 2, 5, 18, 19, 20, 21, 40}).Draw(t, label+"ExpZeros"))
		return sign + mant + es + sg + pad + abs, "equal:exponent-shift"
	case 1: // expansion + e0 / E+0 / e-0
		return d.Expansion() + rapid.SampledFrom([]string{"e0", "E+0", "e-0", "E00", "e-000", "E+0000000000000000000000"}).Draw(t, label+"E0"), "equal:e0"
	case 2: // trailing zeros in the fraction
		x := d.Expansion()
		z := strings.Repeat("0", rapid.IntRange(1, 4).Draw(t, label+"Pad"))
		if strings.Contains(x, ".") {
			return x + z, "equal:trailing-zeros"
		}
		return x + "." + z, "equal:dot-zeros" // NB: the disputed d.000 spelling for integers
	case 3: // normalised expansion
		return d.Expansion(), "equal:normalised"
	case 4: // neighbour: last digit +-1 at a deeper place
		x := d.Expansion()
		if !strings.Contains(x, ".") {
			x += "."
		}
		x += strings.Repeat("0", rapid.IntRange(0, 20).Draw(t, label+"Deep")) + "1"
		return x, "neighbour:away-from-zero"
	case 5: // sign flip
		x := d.Expansion()
		if d.IsZero() {
			return "-" + x, "equal:negative-zero"
		}
		if d.Neg {
			return x[1:], "neighbour:sign-flip"
		}
		return "-" + x, "neighbour:sign-flip"
	default: // neighbour towards zero: replace by value minus tiny (only rendered when non-zero)
		if d.IsZero() {
			return "-0.0", "equal:negative-zero"
		}
		// subtract 10^-(f+k)
		f := d.FractionDigits() + int64(rapid.IntRange(1, 15).Draw(t, label+"Tiny"))
		r := d.Rat()
		tiny := new(big.Rat).SetFrac(big.NewInt(1), new(big.Int).Exp(big.NewInt(10), big.NewInt(f), nil))
		if d.Neg {
			r.Add(r, tiny)
		} else {
			r.Sub(r, tiny)
		}
		return r.FloatString(int(f)), "neighbour:towards-zero"
	}
}

func max0(k int) int {
	if k > 0 {
		return k
	}
	return 0
}

// HugeExp splits a numeral whose exponent has more than 5 digits after its leading zeros, i.e. lies
// beyond +-100000: mantissa sign, whether the mantissa is zero, exponent sign. ok=false for every
// other numeral.
func HugeExp(tok string) (neg, zero, expNeg, ok bool) {
	i := strings.IndexAny(tok, "eE")
	if i < 0 {
		return
	}
	e := tok[i+1:]
	if e[0] == '+' || e[0] == '-' {
		expNeg = e[0] == '-'
		e = e[1:]
	}
	e = strings.TrimLeft(e, "0")
	if len(e) < 6 || (len(e) == 6 && e == "100000") {
		return false, false, false, false
	}
	m := tok[:i]
	neg = strings.HasPrefix(m, "-")
	zero = strings.Trim(m, "-0.") == ""
	return neg, zero, expNeg, true
}
