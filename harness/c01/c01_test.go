package c01

import (
	"encoding/json"
	"fmt"
	"testing"

	"pgregory.net/rapid"

	"verif/gen"
	"verif/lib"
	"verif/ref"
	"verif/run"
)

func TestMain(m *testing.M) { gen.Avoided = run.Avoided; run.Main(m, "C01") }

const chk = "shape"

// Case is self-contained: schema text + document text + option, plus the model so that the
// replay needs no generator.
type Case struct {
	Schema       string     `json:"schema"`
	Model        *ref.SNode `json:"model"`
	Doc          string     `json:"doc"`
	KeysOptional bool       `json:"keys_optional"`
	// History: documents validated on the same schema object before Doc (the verdict for Doc
	// must not depend on them)
	History []string `json:"history,omitempty"`
	// DocUse: what the Document object itself was used for before the judged Validate (lib.ValidateUsed)
	DocUse []string `json:"doc_use,omitempty"`
}

func init() {
	run.RegisterReplay(chk, func(t run.TB, raw json.RawMessage) {
		var c Case
		if err := json.Unmarshal(raw, &c); err != nil {
			t.Fatalf("bad case: %v", err)
		}
		check(t, c)
	})
}

type outcome struct {
	judged   bool
	accepted bool
	want     ref.ShapeResult
}

func check(t run.TB, c Case) outcome {
	doc, perr := ref.Parse([]byte(c.Doc))
	if perr != nil {
		t.Fatalf("harness bug: document is not JSON: %v", perr)
	}
	want := ref.Shape(c.Model, doc, c.KeysOptional)
	s, _ := lib.Build(lib.Spec{Schema: c.Schema, KeysOptional: c.KeysOptional})
	chkRes := lib.Check(s)
	for _, h := range c.History {
		if r := lib.Validate(s, []byte(h)); r.Panic != "" {
			run.Fail(t, chk, c, "panic while validating an earlier document: %v", r)
		}
	}
	val := lib.ValidateUsed(s, []byte(c.Doc), c.DocUse)
	if chkRes.Panic != "" || val.Panic != "" {
		run.Fail(t, chk, c, "panic: check=%v validate=%v", chkRes, val)
	}
	if !chkRes.OK {
		run.Fail(t, chk, c, "Check rejects a schema of the rule-free fragment: %v", chkRes)
	}
	if want.Unspecified != "" {
		run.Excluded("unspecified:" + want.Unspecified)
		return outcome{}
	}
	if val.OK != want.OK {
		if !val.OK && want.OK && nullableContainerNull(c.Model, doc) && run.MatchKnown("C01-nullable-container-rejects-null") {
			return outcome{}
		}
		after := ""
		if len(c.History) > 0 {
			after = fmt.Sprintf(" [after %d earlier Validate calls on the same schema object]", len(c.History))
		}
		if len(c.DocUse) > 0 {
			after += fmt.Sprintf(" [the Document object had been used before: %v]", c.DocUse)
		}
		run.Fail(t, chk, c, "Validate=%v but the example's shape says accept=%v (first difference at depth %d)%s", val, want.OK, want.DiffDepth, after)
	}
	return outcome{judged: true, accepted: val.OK, want: want}
}

// nullableContainerNull: narrow matcher of finding #19 – somewhere the document has null at a
// position whose example is an object or array (not "any") carrying nullable:true.
func nullableContainerNull(n *ref.SNode, doc *ref.Value) bool {
	if n.IsAny() {
		return false
	}
	if doc.Kind == ref.KNull {
		v, ok := n.BoolRule("nullable")
		return ok && v && (n.Kind == ref.SObj || n.Kind == ref.SArr)
	}
	switch n.Kind {
	case ref.SArr:
		if doc.Kind != ref.KArray || len(n.Items) == 0 {
			return false
		}
		for i, it := range doc.Items {
			j := i
			if j >= len(n.Items) {
				j = len(n.Items) - 1
			}
			if nullableContainerNull(n.Items[j], it) {
				return true
			}
		}
	case ref.SObj:
		if doc.Kind != ref.KObject {
			return false
		}
		for _, m := range doc.Members {
			for i := range n.Props {
				if n.Props[i].Key == m.Key && nullableContainerNull(n.Props[i].Val, m.Val) {
					return true
				}
			}
		}
	}
	return false
}

func nontrivial(c Case, o outcome, doc *ref.Value) bool {
	if !o.judged {
		return false
	}
	// root kinds agree
	rootSame := false
	switch c.Model.Kind {
	case ref.SObj:
		rootSame = doc.Kind == ref.KObject
	case ref.SArr:
		rootSame = doc.Kind == ref.KArray
	default:
		rootSame = doc.Kind != ref.KObject && doc.Kind != ref.KArray
	}
	if !rootSame {
		return false
	}
	if o.accepted {
		return gen.Depth(doc) >= 2
	}
	return o.want.DiffDepth >= 1
}

func TestShape(t *testing.T) {
	run.SkipIfReplaying(t)
	defer run.Done(t, chk)
	rapid.Check(t, func(t *rapid.T) {
		depth := rapid.IntRange(1, run.Scale(4, 5)).Draw(t, "depth")
		width := rapid.IntRange(1, run.Scale(3, 5)).Draw(t, "width")
		model := gen.ShapeSchema(t, gen.ShapeOpts{Depth: depth, Width: width}, "m")
		st := gen.DefaultStyle()
		st.MultiLine = rapid.IntRange(0, 5).Draw(t, "multi") == 0
		st.BlankInEmpty = rapid.SampledFrom([]int{0, 0, 1, 2}).Draw(t, "blankInEmpty")
		st.PropAfterArray = rapid.IntRange(0, 2).Draw(t, "propAfterArray") == 0
		schema := string(gen.PrintSchema(model, st))
		ndocs := rapid.IntRange(2, 6).Draw(t, "ndocs")
		earlier := map[bool][]string{}
		for d := 0; d < ndocs; d++ {
			opt := rapid.Bool().Draw(t, "opt")
			var doc *ref.Value
			flavour := rapid.IntRange(0, 9).Draw(t, "flavour")
			muts := ""
			switch {
			case flavour == 0:
				doc = gen.Value(t, gen.DocOpts{Depth: 3, Width: 3, Exp: true, StrLen: 3, KeyPool: gen.KeyPoolC01, DupKeys: true}, "rnd")
				run.Label("doc:random")
			case flavour == 1:
				if ex, ok := gen.ExampleJSON(model); ok {
					doc, _ = ref.Parse(ex)
				}
				run.Label("doc:example")
			}
			if doc == nil {
				doc = gen.ShapeInstance(t, model, opt, "inst")
				nm := rapid.IntRange(0, 3).Draw(t, "nmut")
				for k := 0; k < nm; k++ {
					var name string
					doc, name = gen.Mutate(t, doc, gen.KeyPoolC01, "mut")
					run.Label("mut:" + name)
					muts += name + ","
				}
				if nm == 0 {
					run.Label("doc:instance")
				}
			}
			text := gen.Print(doc, gen.RapidBlanks(t, "ws"))
			parsed, _ := ref.Parse(text)
			c := Case{Schema: schema, Model: model, Doc: string(text), KeysOptional: opt}
			o := check(t, c)
			run.Eval(chk, nontrivial(c, o, parsed), schema, string(text), fmt.Sprint(opt))
			if o.judged {
				if o.accepted {
					run.Label("accepted")
				} else {
					run.Label("rejected")
				}
				run.Sample(chk, map[string]any{"schema": schema, "doc": string(text), "keys_optional": opt, "accepted": o.accepted, "mutations": muts})
			}
			if o.judged {
				earlier[opt] = append(earlier[opt], string(text))
			}
			// order independence: reversed and rotated property order give the same verdict
			if o.judged && rapid.IntRange(0, 2).Draw(t, "perm") == 0 {
				for mode := 0; mode < 2; mode++ {
					pd := gen.ReorderMembers(doc, mode)
					pt := gen.Print(pd, nil)
					c2 := Case{Schema: schema, Model: model, Doc: string(pt), KeysOptional: opt}
					o2 := check(t, c2)
					if o2.judged && o2.accepted != o.accepted {
						run.Fail(t, chk, c2, "verdict depends on property order: %v vs %v for %s", o.accepted, o2.accepted, text)
					}
					run.Eval(chk, false)
					run.Label("order-permutation")
				}
			}
			// the option changes the verdict only by making unmarked keys optional: checked by
			// evaluating the same document under the other option as an independent case
			if o.judged && rapid.IntRange(0, 2).Draw(t, "flipopt") == 0 {
				c3 := Case{Schema: schema, Model: model, Doc: string(text), KeysOptional: !opt}
				o3 := check(t, c3)
				run.Eval(chk, nontrivial(c3, o3, parsed), schema, string(text), fmt.Sprint(!opt))
				run.Label("option-flip")
			}
		}
		// required keys one at a time: the instance without each single member of its objects
		if rapid.IntRange(0, 2).Draw(t, "dropFamily") == 0 {
			opt := rapid.Bool().Draw(t, "dropOpt")
			base := gen.ShapeInstance(t, model, opt, "dropBase")
			for _, dv := range gen.DropKeyVariants(base, 6) {
				text := gen.Print(dv, nil)
				c := Case{Schema: schema, Model: model, Doc: string(text), KeysOptional: opt}
				o := check(t, c)
				run.Eval(chk, nontrivial(c, o, dv), schema, string(text), fmt.Sprint(opt))
				run.Label("doc:instance-without-one-key")
				if o.judged {
					earlier[opt] = append(earlier[opt], string(text))
				}
			}
		}
		// history independence: every document again, on a schema object that has already validated
		// all documents of this case (accepted and rejected ones, in order)
		for _, opt := range []bool{false, true} {
			docs := earlier[opt]
			if len(docs) < 2 {
				continue
			}
			for _, d := range docs {
				check(t, Case{Schema: schema, Model: model, Doc: d, KeysOptional: opt, History: docs})
				run.Eval(chk, false)
				run.Label("after-earlier-validations")
			}
			// ... and on a Document object that was read, measured, checked or validated before
			var use []string
			for i, n := 0, rapid.IntRange(1, 3).Draw(t, "nuse"); i < n; i++ {
				u := rapid.SampledFrom([]string{"len", "check", "validate", "validate", "other", "next"}).Draw(t, "use")
				if u == "next" {
					u = fmt.Sprintf("next:%d", rapid.IntRange(1, 12).Draw(t, "nextK"))
				}
				use = append(use, u)
			}
			d := rapid.SampledFrom(docs).Draw(t, "usedDoc")
			check(t, Case{Schema: schema, Model: model, Doc: d, KeysOptional: opt, DocUse: use})
			run.Eval(chk, false)
			run.Label("used-document-object")
		}
	})
}

func TestReplay(t *testing.T) { run.TestReplay(t) }
