package c02

import (
	"encoding/json"
	"strings"
	"testing"

	"pgregory.net/rapid"

	"verif/gen"
	"verif/lib"
	"verif/ref"
	"verif/run"
)

func TestMain(m *testing.M) { gen.Avoided = run.Avoided; gen.LoneSurrogates = true; run.Main(m, "C02") }

const chk = "scalar-rules"

type Case struct {
	Schema string     `json:"schema"`
	Node   *ref.SNode `json:"node"`
	Wrap   string     `json:"wrap"` // "", "array", "object"
	Probe  string     `json:"probe"`
}

func init() {
	run.RegisterReplay(chk, func(t run.TB, raw json.RawMessage) {
		var c Case
		if err := json.Unmarshal(raw, &c); err != nil {
			t.Fatalf("bad case: %v", err)
		}
		check(t, c)
	})
}

func wrapDoc(wrap, probe string) string {
	switch wrap {
	case "array":
		return "[" + probe + "]"
	case "object":
		return `{"k":` + probe + "}"
	}
	return probe
}

// check returns judged, accepted
func check(t run.TB, c Case) (bool, bool) {
	pv, err := ref.Parse([]byte(c.Probe))
	if err != nil {
		t.Fatalf("harness bug: probe %q is not JSON", c.Probe)
	}
	want := ref.Scalar(c.Node, pv)
	s, _ := lib.Build(lib.Spec{Schema: c.Schema})
	if r := lib.Check(s); !r.OK {
		t.Fatalf("harness: schema of a replayed case no longer passes Check: %v", r)
	}
	got := lib.Validate(s, []byte(wrapDoc(c.Wrap, c.Probe)))
	if got.Panic != "" {
		run.Fail(t, chk, c, "Validate panicked: %s", got.Panic)
	}
	if want.Unspecified != "" {
		run.Excluded("unspecified:" + want.Unspecified)
		return false, false
	}
	if got.OK != want.Accept {
		if !got.OK && want.Accept && want.Why == "nullable:true admits null" && hasOtherRule(c.Node) && run.MatchKnown("C02-nullable-null-still-checked-by-other-rules") {
			return false, false
		}
		run.Fail(t, chk, c, "Validate=%v, rule definitions say %v", got, want)
	}
	return true, got.OK
}

func hasOtherRule(n *ref.SNode) bool {
	for _, r := range n.Rules {
		switch r.Name {
		case "nullable", "optional", "enum":
		default:
			return true
		}
	}
	return false
}

func nontrivialLabel(l string) bool {
	return strings.HasPrefix(l, "bound:") || strings.HasPrefix(l, "enum:kind-flip") || strings.HasPrefix(l, "enum:respelled") ||
		strings.HasPrefix(l, "const:") || strings.HasPrefix(l, "format:") || strings.HasPrefix(l, "regex:single-edit") || strings.HasPrefix(l, "regex:match-with-prefix")
}

func TestScalarRules(t *testing.T) {
	run.SkipIfReplaying(t)
	defer run.Done(t, chk)
	rapid.Check(t, func(t *rapid.T) {
		node, probes := gen.ScalarCase(t, "c")
		wrap := rapid.SampledFrom([]string{"", "", "array", "object"}).Draw(t, "wrap")
		root := node
		switch wrap {
		case "array":
			root = &ref.SNode{Kind: ref.SArr, Items: []*ref.SNode{node}}
		case "object":
			root = &ref.SNode{Kind: ref.SObj, Props: []ref.SProp{{Key: "k", KeyTok: `"k"`, Val: node}}}
		}
		schema := string(gen.PrintSchema(root, nil))
		s, _ := lib.Build(lib.Spec{Schema: schema})
		if r := lib.Check(s); !r.OK {
			run.Label("check-rejected-rule-set")
			run.Eval(chk, false)
			if r.Panic != "" {
				run.Fail(t, chk, Case{Schema: schema, Node: node, Wrap: wrap, Probe: "null"}, "Check panicked: %v", r)
			}
			run.Note("rule set rejected by Check (discarded): %s -> code %d", schema, r.Code)
			return
		}
		run.Label("check-accepted-rule-set")
		hasNullable := false
		if v, ok := node.BoolRule("nullable"); ok && v {
			hasNullable = true
		}
		for _, p := range probes {
			text := string(gen.PrintCompact(p.Val))
			c := Case{Schema: schema, Node: node, Wrap: wrap, Probe: text}
			judged, accepted := check(t, c)
			nt := judged && (nontrivialLabel(p.Label) || (p.Label == "null" && hasNullable && hasOtherRule(node)))
			run.Eval(chk, nt, schema, text)
			run.Label("probe:" + p.Label)
			if judged {
				if accepted {
					run.Label("accepted")
				} else {
					run.Label("rejected")
				}
				if nt {
					run.Sample(chk, map[string]any{"schema": schema, "probe": text, "accepted": accepted, "probe_class": p.Label})
				}
			}
		}
	})
}

func TestReplay(t *testing.T) { run.TestReplay(t) }
