// Package lex holds the event-stream oracle shared by the public (c06) and hook (c06h) halves.
package lex

import (
	"fmt"

	"verif/ref"
)

type Ev struct {
	Type  string `json:"type"`
	Begin int    `json:"begin"`
	End   int    `json:"end"`
}

func (e Ev) String() string { return fmt.Sprintf("%s[%d,%d]", e.Type, e.Begin, e.End) }

// Expected computes, from the document model alone (spans filled in by the printer), the event
// stream the C06 statement describes. Exact=false marks spans the statement does not fix
// (value-end / item-end: only "inside the input" and "begins where its partner began").
type Want struct {
	Ev
	ExactEnd bool
}

func Expected(v *ref.Value) []Want {
	var out []Want
	var rec func(v *ref.Value)
	rec = func(v *ref.Value) {
		switch v.Kind {
		case ref.KObject:
			out = append(out, Want{Ev{"object-begin", v.Begin, v.Begin}, false})
			for _, m := range v.Members {
				out = append(out, Want{Ev{"key-begin", m.KeyBegin, m.KeyBegin}, false})
				out = append(out, Want{Ev{"key-end", m.KeyBegin, m.KeyEnd}, true})
				out = append(out, Want{Ev{"value-begin", m.Val.Begin, m.Val.Begin}, false})
				rec(m.Val)
				out = append(out, Want{Ev{"value-end", m.Val.Begin, m.Val.End}, false})
			}
			out = append(out, Want{Ev{"object-end", v.Begin, v.End}, true})
		case ref.KArray:
			out = append(out, Want{Ev{"array-begin", v.Begin, v.Begin}, false})
			for _, it := range v.Items {
				out = append(out, Want{Ev{"item-begin", it.Begin, it.Begin}, false})
				rec(it)
				out = append(out, Want{Ev{"item-end", it.Begin, it.End}, false})
			}
			out = append(out, Want{Ev{"array-end", v.Begin, v.End}, true})
		default:
			out = append(out, Want{Ev{"literal-begin", v.Begin, v.Begin}, false})
			out = append(out, Want{Ev{"literal-end", v.Begin, v.End}, true})
		}
	}
	rec(v)
	return out
}

var partner = map[string]string{
	"literal-end": "literal-begin", "object-end": "object-begin", "array-end": "array-begin",
	"key-end": "key-begin", "value-end": "value-begin", "item-end": "item-begin",
}

func isOpening(t string) bool {
	switch t {
	case "literal-begin", "object-begin", "array-begin", "key-begin", "value-begin", "item-begin":
		return true
	}
	return false
}

// Compare checks got against the model-derived expectation. It returns "" when everything the
// statement fixes holds.
func Compare(got []Ev, want []Want, inputLen int) string {
	// (1) nesting and (2) spans inside the input
	var stack []Ev
	for i, e := range got {
		if e.Begin < 0 || e.End < e.Begin || e.End >= inputLen {
			return fmt.Sprintf("event %d %v: span not inside the input of %d bytes", i, e, inputLen)
		}
		if isOpening(e.Type) {
			stack = append(stack, e)
			continue
		}
		p, ok := partner[e.Type]
		if !ok {
			return fmt.Sprintf("event %d %v: unexpected event type for a JSON text", i, e)
		}
		if len(stack) == 0 || stack[len(stack)-1].Type != p {
			return fmt.Sprintf("event %d %v: not properly nested (open: %v)", i, e, stack)
		}
		if stack[len(stack)-1].Begin != e.Begin {
			return fmt.Sprintf("event %d %v: begins at %d but its partner %v began at %d", i, e, e.Begin, stack[len(stack)-1], stack[len(stack)-1].Begin)
		}
		stack = stack[:len(stack)-1]
	}
	if len(stack) != 0 {
		return fmt.Sprintf("stream ended with open events %v", stack)
	}
	// (3) type sequence and the spans the statement fixes
	if len(got) != len(want) {
		return fmt.Sprintf("got %d events, the model implies %d: got %v", len(got), len(want), got)
	}
	for i := range got {
		g, w := got[i], want[i]
		if g.Type != w.Type {
			return fmt.Sprintf("event %d is %v, the model implies %s", i, g, w.Type)
		}
		if g.Begin != w.Begin {
			return fmt.Sprintf("event %d %v: begin should be %d", i, g, w.Begin)
		}
		if w.ExactEnd && g.End != w.End {
			return fmt.Sprintf("event %d %v: span should be [%d,%d] (the source token / bracket pair)", i, g, w.Begin, w.End)
		}
	}
	return ""
}

// Rebuild reconstructs the JSON value from events alone: literal and key tokens are taken from
// the event spans of the input, structure from the nesting.
func Rebuild(got []Ev, input []byte) (*ref.Value, string) {
	pos := 0
	var rec func() (*ref.Value, string)
	next := func() (Ev, bool) {
		if pos >= len(got) {
			return Ev{}, false
		}
		e := got[pos]
		pos++
		return e, true
	}
	tok := func(e Ev) (string, bool) {
		if e.Begin < 0 || e.End >= len(input) || e.End < e.Begin {
			return "", false
		}
		return string(input[e.Begin : e.End+1]), true
	}
	rec = func() (*ref.Value, string) {
		e, ok := next()
		if !ok {
			return nil, "stream ended early"
		}
		switch e.Type {
		case "literal-begin":
			e2, ok := next()
			if !ok || e2.Type != "literal-end" {
				return nil, "literal-begin not followed by literal-end"
			}
			s, ok := tok(e2)
			if !ok {
				return nil, "literal span outside input"
			}
			v, err := ref.Parse([]byte(s))
			if err != nil || v.Kind == ref.KObject || v.Kind == ref.KArray {
				return nil, fmt.Sprintf("literal span %q is not one scalar token", s)
			}
			return &ref.Value{Kind: v.Kind, Tok: s, Str: v.Str}, ""
		case "object-begin":
			v := &ref.Value{Kind: ref.KObject}
			for {
				e2, ok := next()
				if !ok {
					return nil, "object not closed"
				}
				if e2.Type == "object-end" {
					return v, ""
				}
				if e2.Type != "key-begin" {
					return nil, "expected key-begin, got " + e2.String()
				}
				e3, ok := next()
				if !ok || e3.Type != "key-end" {
					return nil, "expected key-end"
				}
				ks, ok := tok(e3)
				if !ok {
					return nil, "key span outside input"
				}
				kv, err := ref.Parse([]byte(ks))
				if err != nil || kv.Kind != ref.KString {
					return nil, fmt.Sprintf("key span %q is not a string token", ks)
				}
				e4, ok := next()
				if !ok || e4.Type != "value-begin" {
					return nil, "expected value-begin"
				}
				val, msg := rec()
				if msg != "" {
					return nil, msg
				}
				e5, ok := next()
				if !ok || e5.Type != "value-end" {
					return nil, "expected value-end"
				}
				v.Members = append(v.Members, ref.Member{KeyTok: ks, Key: kv.Str, Val: val})
			}
		case "array-begin":
			v := &ref.Value{Kind: ref.KArray}
			for {
				e2, ok := next()
				if !ok {
					return nil, "array not closed"
				}
				if e2.Type == "array-end" {
					return v, ""
				}
				if e2.Type != "item-begin" {
					return nil, "expected item-begin, got " + e2.String()
				}
				val, msg := rec()
				if msg != "" {
					return nil, msg
				}
				e5, ok := next()
				if !ok || e5.Type != "item-end" {
					return nil, "expected item-end"
				}
				v.Items = append(v.Items, val)
			}
		}
		return nil, "unexpected event " + e.String()
	}
	v, msg := rec()
	if msg != "" {
		return nil, msg
	}
	if pos != len(got) {
		return nil, fmt.Sprintf("%d events after the top-level value", len(got)-pos)
	}
	return v, ""
}

// DropNewLines removes new-line events (the schema and enum scanners report them).
func DropNewLines(evs []Ev) []Ev {
	out := evs[:0:0]
	for _, e := range evs {
		if e.Type != "new-line" {
			out = append(out, e)
		}
	}
	return out
}

func Same(a, b []Ev) (int, bool) {
	for i := 0; i < len(a) && i < len(b); i++ {
		if a[i] != b[i] {
			return i, false
		}
	}
	if len(a) != len(b) {
		if len(a) < len(b) {
			return len(a), false
		}
		return len(b), false
	}
	return -1, true
}
