package hist

import (
	"fmt"
	"strings"

	"pgregory.net/rapid"

	"verif/gen"
	"verif/lib"
)

// DrawSpec draws one spec of the pool (valid and invalid ones).
func DrawSpec(t *rapid.T, label string) *Spec {
	switch k := rapid.IntRange(0, 13).Draw(t, label+"Kind"); {
	case k >= 12:
		// schema texts that end, or begin, in the middle of something: an annotation that closes on
		// the last line, texts that open with an annotation or a comment, broken ones - whatever a
		// reader keeps in mind at the end of one text must not meet the beginning of the next
		text := rapid.SampledFrom([]string{
			"1 /* n\n */", "1 /* {min: 0}\n*/", "{\n  \"a\": 1 /* {min: 0}\n  */\n}", "[\n  1, /* n\n  */ 2 // {min: 1}\n]",
			"// {min: 1}\n2", "/* {min: 1} */ 2", "// note\n{}", "# c\n1 // {min: 0}", "### b ###\n[] // {minItems: 0}",
			"1 // {min: 0 # c", "1 // {min: 0", "1 /* {min: 0}", "###", "1 ######", "1 ###", "@a |", "[1, // n", "{\"a\": 1 // {min: 0}",
			"1 // {enum: [1, 2]", "{ // {allOf: \"@a\"", "\"s\" // {or: [{type: \"string\"}, {type: \"integer\"",
		}).Draw(t, label+"OddText")
		return &Spec{Kind: "schema", Schema: lib.Spec{Schema: text}, Docs: []string{"1", "2", "{}", "\"s\""}}
	case k <= 4:
		return DrawSchemaSpec(t, label, k%3)
	case k == 5:
		return DrawSchemaSpec(t, label, 3)
	case k == 10:
		return DrawSchemaSpec(t, label, 4)
	case k == 11:
		return DrawSchemaSpec(t, label, 5)
	case k == 6:
		v := gen.Value(t, gen.DocOpts{Depth: 3, Width: 3, Exp: true, StrLen: 4}, label+"V")
		text := string(gen.Print(v, gen.RapidBlanks(t, label+"WS")))
		switch rapid.IntRange(0, 3).Draw(t, label+"Break") {
		case 0:
			if len(text) > 1 {
				text = text[:rapid.IntRange(0, len(text)-1).Draw(t, label+"Cut")] + rapid.SampledFrom([]string{"", "x", "}", ","}).Draw(t, label+"Tail")
			}
		case 1:
			// a complete value followed by foreign text (what AllowTrailingNonSpaceCharacters is for)
			text += rapid.SampledFrom([]string{" ", "\n", "\r\n\r\n", ""}).Draw(t, label+"Sep") + rapid.SampledFrom([]string{"GET /x", "Body", "x", "}", "TYPE @a"}).Draw(t, label+"Foreign")
		}
		return &Spec{Kind: "json", Text: text, Allow: rapid.Bool().Draw(t, label+"Allow")}
	case k == 7 || k == 8:
		return &Spec{Kind: "enum", Text: rapid.SampledFrom([]string{"[1, 2, \"a\"]", "[\n 1, // one\n \"a\" /* b */\n]", "[]", "[1, 1]", "[true, null, 1.5] x", "[1,", "42"}).Draw(t, label+"Enum")}
	}
	// (several specs of one pool may hold the same pattern under different file names and seeds)
	return &Spec{Kind: "regex", Text: rapid.SampledFrom([]string{"/^a+$/", "/[0-9]{2,3}/ tail", "/a\\/b/", "/x|y/", "abc", "/(", "/[a-z]{8}/", "/[a-z]{1}[0-9]?[A-Z]*(x|y|z)+/", "/\\Bfoo/",
		"/a\\bb/", "/a\\bb/ tail", "/[a-z]{16}/", "/[a-z]{16}/", "/a\\bb/"}).Draw(t, label+"Regex"),
		Name: rapid.SampledFrom([]string{"", "", "other.jst", "third"}).Draw(t, label+"RegexName"), Seed: rapid.SampledFrom([]int64{0, 0, 1, 2, 7}).Draw(t, label+"RegexSeed")}
}

// DrawTwinSpecs: two roots with the same text and the same shared type objects (@key, an alias used
// as key-shortcut type, and @item, an object with a {type: "@id"} rule) which define the names those
// types refer to (@ref, @id) differently: what a shared type means is decided by each root's own
// table of types, never by the root that happened to use the type object first.
func DrawTwinSpecs(t *rapid.T, label string) []*Spec {
	if rapid.IntRange(0, 2).Draw(t, label+"Inheriting") == 0 {
		return drawInheritingTwins(t, label)
	}
	root := rapid.SampledFrom([]string{"{\n  @key: 1, // {optional: true}\n  \"item\": @item // {optional: true}\n}", "{\n  \"item\": @item\n}", "{\n  @key: 1\n}"}).Draw(t, label+"Root")
	shared := []lib.Named{{Name: "@key", Text: "@ref"}, {Name: "@item", Text: "{\n  \"id\": 1 // {type: \"@id\"}\n}"}}
	defs := [][]lib.Named{
		{{Name: "@ref", Text: "\"abc\" // {minLength: 1}"}, {Name: "@id", Text: "5 // {min: 0}"}},
		{{Name: "@ref", Text: "12"}, {Name: "@id", Text: "\"s\""}},
		{{Name: "@ref", Text: "\"k\" // {regex: \"^k\"}"}, {Name: "@id", Text: "1 // {max: 0}"}},
	}
	idx := rapid.Permutation([]int{0, 1, 2}).Draw(t, label+"Defs")[:2]
	var out []*Spec
	for _, i := range idx {
		sp := &Spec{Kind: "schema", Group: label + "twins", ShareOnly: []string{"@key", "@item"}}
		sp.Schema = lib.Spec{Schema: root, Types: append(append([]lib.Named{}, shared...), defs[i]...)}
		sp.Docs = []string{`{"abc":1,"item":{"id":1}}`, `{"item":{"id":"x"}}`, `{"kk":1}`, `{}`, `{"item":{}}`}
		out = append(out, sp)
	}
	// one of the two roots may be created with KeysAreOptionalByDefault: the shared type objects keep
	// their own (strict) reading of unmarked keys whichever root uses them first
	if rapid.Bool().Draw(t, label+"Lenient") {
		out[rapid.IntRange(0, 1).Draw(t, label+"LenientWhich")].Schema.KeysOptional = true
	}
	return out
}

// drawInheritingTwins: two roots that share ONE type object which inherits (allOf) from a type
// each root defines for itself - what the shared object inherits is each root's own business; one
// of the roots may lack the parent altogether (its Check fails, the other root's does not).
func drawInheritingTwins(t *rapid.T, label string) []*Spec {
	root := rapid.SampledFrom([]string{"{\n  \"heir\": @heir\n}", "@heir", "[@heir]", "{\n  \"heir\": @heir, // {optional: true}\n  \"p\": @parent // {optional: true}\n}"}).Draw(t, label+"Root")
	shared := []lib.Named{{Name: "@heir", Text: rapid.SampledFrom([]string{"{ // {allOf: \"@parent\"}\n  \"own\": 2\n}", "{ // {allOf: [\"@parent\", \"@more\"]}\n  \"own\": 2 // {optional: true}\n}"}).Draw(t, label+"Heir")}}
	defs := [][]lib.Named{
		{{Name: "@parent", Text: "{\n  \"x\": 1\n}"}, {Name: "@more", Text: "{\n  \"m\": true // {optional: true}\n}"}},
		{{Name: "@parent", Text: "{\n  \"y\": \"s\"\n}"}, {Name: "@more", Text: "{\n  \"n\": null\n}"}},
		{{Name: "@parent", Text: "{\n  \"x\": \"str\", // {optional: true}\n  \"z\": 1.5\n}"}, {Name: "@more", Text: "{}"}},
		{{Name: "@more", Text: "{\n  \"m\": 1\n}"}}, // no @parent at all
	}
	idx := rapid.Permutation([]int{0, 1, 2, 3}).Draw(t, label+"Defs")[:2]
	var out []*Spec
	for _, i := range idx {
		sp := &Spec{Kind: "schema", Group: label + "heirs", ShareOnly: []string{"@heir"}}
		sp.Schema = lib.Spec{Schema: root, Types: append(append([]lib.Named{}, shared...), defs[i]...)}
		sp.Docs = []string{`{"heir":{"own":2,"x":1}}`, `{"own":2,"y":"s","n":null}`, `[{"own":2,"z":1.5}]`, `{"heir":{"own":2,"x":1,"m":true}}`, `{"own":2,"x":1}`, `{}`}
		out = append(out, sp)
	}
	return out
}

// DrawSchemaSpec: family 0 type graph, 1 ruled tree, 2 reference graph (recursion, missing types),
// 3 a root that inherits (allOf) from types which themselves refer to further types, 4 regex
// types, 5 types wired to each other, 6 a root that inherits from plain types.
func DrawSchemaSpec(t *rapid.T, label string, family int) *Spec {
	sp := drawSchemaSpec(t, label, family)
	// documents that are not JSON: valid ones cut short (mostly inside a literal) or with a byte spoilt
	if len(sp.Docs) > 0 && rapid.IntRange(0, 2).Draw(t, label+"Malformed") == 0 {
		for i, n := 0, rapid.IntRange(1, 2).Draw(t, label+"NMalformed"); i < n; i++ {
			d := rapid.SampledFrom(sp.Docs).Draw(t, label+"MalformedOf")
			if len(d) < 2 {
				continue
			}
			cut := rapid.IntRange(1, len(d)-1).Draw(t, label+"Cut")
			if rapid.Bool().Draw(t, label+"CutNearEnd") {
				cut = len(d) - rapid.IntRange(1, min(3, len(d)-1)).Draw(t, label+"CutFromEnd") // the schema may be violated before the text breaks
			}
			switch rapid.IntRange(0, 2).Draw(t, label+"MalformedKind") {
			case 0:
				sp.Docs = append(sp.Docs, d[:cut])
			case 1:
				sp.Docs = append(sp.Docs, d[:cut]+"!"+d[cut:])
			default:
				sp.Docs = append(sp.Docs, d[:cut]+"tru")
			}
		}
	}
	// a user comment after the last value of the root text (closed by the end of the text)
	if family <= 3 && rapid.IntRange(0, 3).Draw(t, label+"TrailingComment") == 0 {
		sp.Schema.Schema += rapid.SampledFrom([]string{" # the end", "\n# the end", "\n### the\nend ###", "  ###end###"}).Draw(t, label+"TrailingCommentText")
	}
	return sp
}

func drawSchemaSpec(t *rapid.T, label string, family int) *Spec {
	sp := &Spec{Kind: "schema"}
	switch family {
	case 0:
		gc := gen.GenGraph(t, gen.GraphOpts{MaxTypes: 4, Recursion: true}, label+"G")
		pg := gc.Print(nil)
		sp.Schema = lib.Spec{Schema: pg.Schema, KeysOptional: gc.G.KeysOptional}
		for _, ty := range pg.Types {
			sp.Schema.Types = append(sp.Schema.Types, lib.Named{Name: ty.Name, Text: ty.Text})
		}
		for i := 0; i < 3; i++ {
			d := gc.Instance(t, gc.G.Root, gc.G.KeysOptional, 3, fmt.Sprint(label, "I", i))
			if i > 0 {
				d, _ = gen.Mutate(t, d, []string{"a", "b", "kab", "zz"}, fmt.Sprint(label, "M", i))
			}
			sp.Docs = append(sp.Docs, string(gen.Print(d, nil)))
		}
	case 1:
		m := gen.RuledTree(t, 2, false, label+"M")
		if rapid.IntRange(0, 3).Draw(t, label+"Corrupt") == 0 {
			if bad, _, ok := gen.Corrupt(t, m, label+"C"); ok {
				m = bad
			}
		}
		sp.Schema = lib.Spec{Schema: string(gen.PrintSchema(m, nil))}
		if ex, ok := gen.ExampleJSON(m); ok {
			sp.Docs = append(sp.Docs, string(ex), "null", "{\"a\":1,\"zz\":2}")
		}
	case 3:
		parents := rapid.Permutation([]string{"@base", "@mix", "@deep"}).Draw(t, label+"Parents")[:rapid.IntRange(1, 3).Draw(t, label+"NParents")]
		allOf := `"` + parents[0] + `"`
		if len(parents) > 1 || rapid.Bool().Draw(t, label+"List") {
			allOf = "["
			for i, p := range parents {
				if i > 0 {
					allOf += ", "
				}
				allOf += `"` + p + `"`
			}
			allOf += "]"
		}
		root := "{ // {allOf: " + allOf + "}\n"
		switch rapid.IntRange(0, 2).Draw(t, label+"Own") {
		case 0:
			root += "  \"own\": @own\n"
		case 1:
			root += "  \"own\": @own, // {optional: true}\n  \"n\": 1\n"
		}
		root += "}"
		sp.Schema = lib.Spec{Schema: root, Types: []lib.Named{
			{Name: "@base", Text: "{\n  \"id\": @id,\n  \"tag\": @tag | @id // {optional: true}\n}"},
			{Name: "@mix", Text: "{\n  \"m\": @id // {optional: true}\n}"},
			{Name: "@deep", Text: "{ // {allOf: \"@leafobj\"}\n  \"d\": [@tag]\n}"},
			{Name: "@leafobj", Text: "{\n  \"lo\": 1.5\n}"},
			{Name: "@id", Text: "1 // {min: 0}"}, {Name: "@tag", Text: "\"t\" // {minLength: 1}"}, {Name: "@own", Text: "\"x\""},
		}}
		if rapid.IntRange(0, 4).Draw(t, label+"DropType") == 0 {
			sp.Schema.Types = sp.Schema.Types[:rapid.IntRange(3, 6).Draw(t, label+"NTypes")]
		}
		sp.Docs = append(sp.Docs, `{"id":1,"own":"x","lo":1.5,"d":["t"],"n":1}`, `{"id":1,"tag":"t","m":2,"own":"x"}`, `{"own":"x"}`, `{"id":-1,"n":1,"lo":2.5,"d":[]}`)
	case 6:
		// a root that inherits (allOf) from plain types - no TYPE uses allOf: the types may be
		// shared with other roots
		parents := rapid.Permutation([]string{"@base", "@mix"}).Draw(t, label+"Parents")[:rapid.IntRange(1, 2).Draw(t, label+"NParents")]
		allOf := `"` + parents[0] + `"`
		if len(parents) > 1 || rapid.Bool().Draw(t, label+"List") {
			allOf = `["` + strings.Join(parents, `", "`) + `"]`
		}
		root := "{ // {allOf: " + allOf + "}\n"
		switch rapid.IntRange(0, 2).Draw(t, label+"Own") {
		case 0:
			root += "  \"own\": @own\n"
		case 1:
			root += "  \"own\": @own, // {optional: true}\n  \"n\": 1\n"
		}
		root += "}"
		sp.Schema = lib.Spec{Schema: root, Types: []lib.Named{
			{Name: "@base", Text: "{\n  \"id\": @id,\n  \"tag\": @tag | @id, // {optional: true}\n  \"nested\": { // {optional: true}\n    \"deep\": @id\n  }\n}"},
			{Name: "@mix", Text: "{\n  \"m\": @id // {optional: true}\n}"},
			{Name: "@id", Text: "1 // {min: 0}"}, {Name: "@tag", Text: "\"t\" // {minLength: 1}"}, {Name: "@own", Text: "\"x\""},
		}}
		sp.Docs = append(sp.Docs, `{"id":1,"own":"x","n":1}`, `{"id":1,"tag":"t","m":2,"own":"x","nested":{"deep":3}}`, `{"own":"x"}`, `{"id":-1,"n":1}`)
	case 4:
		// regex types: the example of the type is generated when it is added and becomes part of the schema
		sp.Schema = lib.Spec{Schema: "{\n  \"code\": @rx,\n  \"tags\": [@word], // {optional: true}\n  @word: 1 // {optional: true}\n}", Types: []lib.Named{
			{Name: "@rx", Text: rapid.SampledFrom([]string{"/[a-z]{8}/", "/[a-z]{1}[0-9]?[A-Z]*(x|y|z)+/", "/^[0-9]{2,5}$/"}).Draw(t, label+"Rx"), Regex: true},
			{Name: "@word", Text: rapid.SampledFrom([]string{"/^[a-z]{3,6}$/", "/[A-Z][a-z]+/"}).Draw(t, label+"Word"), Regex: true},
		}}
		sp.Docs = append(sp.Docs, `{"code":"abcdefgh"}`, `{"code":"a1Xz","tags":["abc"],"abcd":1}`, `{"code":12}`, `{}`)
	case 5:
		// types that know each other (every type object has the other types added to itself), with
		// anonymous types from "or" rule sets two levels below the root
		sp.Schema = lib.Spec{TypesKnowTypes: true, Schema: rapid.SampledFrom([]string{"@t", "{\n  \"r\": @t,\n  \"i\": @x // {optional: true}\n}", "@t | @x"}).Draw(t, label+"Root"), Types: []lib.Named{
			{Name: "@t", Text: "{\n  \"k\": @x,\n  \"u\": @user // {optional: true}\n}"},
			{Name: "@x", Text: "1 // {or: [{type: \"integer\"}, {type: \"string\"}]}"},
			{Name: "@user", Text: "{\n  \"name\": \"n\", // {or: [{type: \"string\", minLength: 1}, {type: \"null\"}]}\n  \"it\": @x // {optional: true}\n}"},
		}}
		if rapid.Bool().Draw(t, label+"Rev") {
			sp.Schema.Types[0], sp.Schema.Types[2] = sp.Schema.Types[2], sp.Schema.Types[0]
		}
		if rapid.Bool().Draw(t, label+"InnerOnly") {
			// the root is given @t only: it gets to know @x and @user (and the anonymous types of
			// their "or" rule sets) through @t, to which they were added
			x := lib.Named{Name: "@x", Text: "1 // {or: [{type: \"integer\"}, {type: \"string\"}]}"}
			user := lib.Named{Name: "@user", Text: "{\n  \"name\": \"n\", // {or: [{type: \"string\", minLength: 1}, {type: \"null\"}]}\n  \"it\": @x // {optional: true}\n}", Inner: []lib.Named{x}}
			sp.Schema = lib.Spec{Schema: rapid.SampledFrom([]string{"@t", "{\n  \"r\": @t\n}", "[@t]"}).Draw(t, label+"InnerRoot"),
				Types: []lib.Named{{Name: "@t", Text: "{\n  \"k\": @x,\n  \"u\": @user // {optional: true}\n}", Inner: []lib.Named{x, user}}}}
			sp.Docs = []string{`{"k":1}`, `{"k":"s","u":{"name":null,"it":2}}`, `{"r":{"k":1}}`, `[{"k":1}]`, `{"k":true}`}
			if rapid.Bool().Draw(t, label+"InnerLate") {
				// the same wiring, made after @t has been added to the root
				sp.Schema.Types[0].InnerLate = true
				sp.Schema.Types[0].Inner[1].InnerLate = rapid.Bool().Draw(t, label+"InnerLate2")
			}
		}
		sp.Docs = append(sp.Docs, `{"k":1}`, `{"k":"s","u":{"name":null}}`, `{"r":{"k":1},"i":"x"}`, `1`, `{"k":true}`)
	default:
		gc := gen.GenRefGraph(t, label+"R")
		pg := gc.Print(nil)
		sp.Schema = lib.Spec{Schema: pg.Schema}
		for _, ty := range pg.Types {
			sp.Schema.Types = append(sp.Schema.Types, lib.Named{Name: ty.Name, Text: ty.Text})
		}
		sp.Docs = append(sp.Docs, `{"p0":{"p0":1}}`, `{}`, `1`)
	}
	return sp
}
