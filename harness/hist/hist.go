// Package hist: canonical results of public operations, shared by C11 (histories, map orders)
// and C12 (concurrency).
package hist

import (
	"encoding/json"
	"errors"
	"fmt"
	"io"

	jschema "github.com/jsightapi/jsight-schema-go-library"
	libjson "github.com/jsightapi/jsight-schema-go-library/formats/json"
	js "github.com/jsightapi/jsight-schema-go-library/notations/jschema"
	libregex "github.com/jsightapi/jsight-schema-go-library/notations/regex"
	"github.com/jsightapi/jsight-schema-go-library/rules/enum"

	"verif/lib"
)

// Spec of one object of the pool.
type Spec struct {
	Kind   string   `json:"kind"` // schema | json | enum | regex
	Schema lib.Spec `json:"schema,omitempty"`
	Text   string   `json:"text,omitempty"`
	Allow  bool     `json:"allow_trailing,omitempty"`
	Docs   []string `json:"docs,omitempty"` // documents validated against a schema spec
	// Group / ShareOnly: schema specs of one group may take type objects from each other's objects -
	// only the types named in ShareOnly; the other types (which the shared ones refer to) are each
	// root's own and may be defined differently
	Group     string   `json:"share_group,omitempty"`
	ShareOnly []string `json:"share_only,omitempty"`
	// Name / Seed (regex specs): the file name of the object ("@r" when empty) and the seed of its
	// example generator (the default one when 0)
	Name string `json:"name,omitempty"`
	Seed int64  `json:"seed,omitempty"`
}

// Obj is a live object built from a spec.
type Obj struct {
	Spec   *Spec
	S      *js.Schema
	D      jschema.Document
	E      *enum.Enum
	R      *libregex.Schema
	AddRes string
	Types  map[string]jschema.Schema // the type objects added to a schema object
	// KeptDocs: one Document object per document of the spec, reused by every "ValidateKept" operation
	KeptDocs map[int]jschema.Document
	// KeptRead: what was read from a kept Document object when it was read for the first time
	KeptRead map[int]string
}

func Build(sp *Spec) *Obj { return BuildSharing(sp, nil) }

// BuildSharing builds a new object; a schema object reuses the type objects of from (an object
// of the same spec) instead of creating its own.
func BuildSharing(sp *Spec, from *Obj) *Obj {
	o := &Obj{Spec: sp}
	switch sp.Kind {
	case "schema":
		var add lib.Res
		var shared map[string]jschema.Schema
		if from != nil {
			shared = from.Types
			if len(sp.ShareOnly) > 0 {
				shared = map[string]jschema.Schema{}
				for _, n := range sp.ShareOnly {
					if o, ok := from.Types[n]; ok {
						shared[n] = o
					}
				}
			}
		}
		o.S, add, o.Types = lib.BuildSharing(sp.Schema, shared)
		o.AddRes = canonRes(add)
	case "json":
		if sp.Allow {
			o.D = libjson.New("doc", sp.Text, libjson.AllowTrailingNonSpaceCharacters())
		} else {
			o.D = libjson.New("doc", sp.Text)
		}
	case "enum":
		o.E = enum.New("@e", sp.Text)
	case "regex":
		name := sp.Name
		if name == "" {
			name = "@r"
		}
		if sp.Seed != 0 {
			o.R = libregex.New(name, sp.Text, libregex.WithGeneratorSeed(sp.Seed))
		} else {
			o.R = libregex.New(name, sp.Text)
		}
	}
	return o
}

// canonRes: verdict, code, position and message.
func canonRes(r lib.Res) string {
	if r.Panic != "" {
		return "PANIC:" + r.Panic
	}
	if r.OK {
		return "ok"
	}
	if r.Lib {
		return fmt.Sprintf("err(code=%d,pos=%d,haspos=%v,file=%s,msg=%s)", r.Code, r.Pos, r.HasPos, r.File, r.Msg)
	}
	return fmt.Sprintf("err(non-library,%s,code=%d)", r.Type, r.Code)
}

// Stream reads a json object to its end (or first error) after an optional first call ("Check" or
// "Len") and renders the events.
func Stream(o *Obj, first string) (out string) {
	defer func() {
		if r := recover(); r != nil {
			out += fmt.Sprintf("PANIC:%v", r)
		}
	}()
	switch first {
	case "Check":
		_ = o.D.Check()
	case "Len":
		_, _ = o.D.Len()
	}
	for i := 0; i < 100000; i++ {
		l, err := o.D.NextLexeme()
		if err != nil {
			if errors.Is(err, io.EOF) {
				return out + "EOF"
			}
			return out + canonRes(lib.Canon(err))
		}
		out += fmt.Sprintf("%s[%d,%d] ", l.Type().String(), l.Begin(), l.End())
	}
	return out + "..."
}

// OpsSequential: Ops plus the operations that reuse one Document object (documents are not meant
// for concurrent use, so the concurrency check does not take these).
func OpsSequential(sp *Spec) []string {
	ops := Ops(sp)
	if sp.Kind == "schema" {
		for i := range sp.Docs {
			ops = append(ops, fmt.Sprintf("ValidateKept:%d", i), fmt.Sprintf("CheckKept:%d", i), fmt.Sprintf("ReadKept:%d", i))
		}
	}
	return ops
}

// Ops available per kind.
func Ops(sp *Spec) []string {
	switch sp.Kind {
	case "schema":
		ops := []string{"Check", "Len", "Example", "GetAST", "UsedUserTypes"}
		for i := range sp.Docs {
			ops = append(ops, fmt.Sprintf("Validate:%d", i))
		}
		for i, ty := range sp.Schema.Types {
			if ty.Regex {
				// a regex type object is a schema, too: its example is asked for directly
				ops = append(ops, fmt.Sprintf("TypeExample:%d", i))
			}
		}
		if sp.Schema.TypesKnowTypes {
			// the added types are schemas of their own: they are checked, too (concurrently with the
			// root they were added to, in the concurrency check)
			for i := range sp.Schema.Types {
				ops = append(ops, fmt.Sprintf("TypeCheck:%d", i))
			}
		}
		return ops
	case "json":
		return []string{"Check", "Len", "NextLexeme:3", "NextLexeme:100", "Drain:2", "Drain:1000"}
	case "enum":
		return []string{"Check", "Len", "Values", "GetAST"}
	}
	return []string{"Check", "Len", "Pattern", "Example", "GetAST"}
}

// scribbleAST writes into every part of a tree the caller was given.
func scribbleAST(n *jschema.ASTNode) {
	n.Comment, n.Value = "scribbled", "scribbled"
	if n.Rules != nil {
		n.Rules.Set("x-scribbled", jschema.RuleASTNode{TokenType: "string", Value: "scribbled"})
		_ = n.Rules.Each(func(k string, v jschema.RuleASTNode) error {
			if v.Properties != nil {
				v.Properties.Set("x-scribbled", jschema.RuleASTNode{Value: "scribbled"})
			}
			for i := range v.Items {
				v.Items[i].Value = "scribbled"
			}
			return nil
		})
	}
	for i := range n.Children {
		scribbleAST(&n.Children[i])
	}
	if len(n.Children) > 0 {
		n.Children[0], n.Children[len(n.Children)-1] = n.Children[len(n.Children)-1], n.Children[0]
	}
}

// Retained is a value handed to the caller together with a snapshot taken when it was returned.
type Retained struct {
	What     string
	Live     func() string // re-renders the retained original
	Snapshot string
}

// Do executes op on o and returns the canonical result plus any retained values.
func Do(o *Obj, op string) (res string, kept []Retained) {
	defer func() {
		if r := recover(); r != nil {
			res = fmt.Sprintf("PANIC:%v", r)
		}
	}()
	keepBytes := func(what string, b []byte) {
		snap := string(b)
		kept = append(kept, Retained{What: what, Live: func() string { return string(b) }, Snapshot: snap})
	}
	switch o.Spec.Kind {
	case "schema":
		s := o.S
		switch {
		case op == "Check":
			return o.AddRes + "|" + canonRes(lib.Check(s)), nil
		case op == "Len":
			l, r := lib.Len(s)
			return fmt.Sprintf("%d|%s", l, canonRes(r)), nil
		case op == "Example":
			var b []byte
			r := lib.Safe(func() error { var err error; b, err = s.Example(); return err })
			if b != nil {
				keepBytes("Example bytes", b)
			}
			return fmt.Sprintf("%s|%s", b, canonRes(r)), kept
		case op == "GetAST":
			n, r := lib.AST(s)
			j, _ := json.Marshal(n)
			if r.OK {
				// a second tree is asked for and written over (what a caller who decorates or prunes
				// the tree does): the first one, other trees and later answers must not notice
				if n2, r2 := lib.AST(s); r2.OK {
					scribbleAST(&n2)
				}
				nn := n
				kept = append(kept, Retained{What: "AST", Live: func() string { b, _ := json.Marshal(nn); return string(b) }, Snapshot: string(j)})
			}
			return fmt.Sprintf("%s|%s", j, canonRes(r)), kept
		case op == "UsedUserTypes":
			u, r := lib.Used(s)
			if u != nil {
				uu := u
				kept = append(kept, Retained{What: "UsedUserTypes slice", Live: func() string { return fmt.Sprint(uu) }, Snapshot: fmt.Sprint(u)})
			}
			return fmt.Sprintf("%v|%s", u, canonRes(r)), kept
		case len(op) > 12 && op[:12] == "TypeExample:":
			var i int
			fmt.Sscanf(op, "TypeExample:%d", &i)
			ty := o.Types[o.Spec.Schema.Types[i].Name]
			if ty == nil {
				return "no such type", nil
			}
			var b []byte
			r := lib.Safe(func() error { var err error; b, err = ty.Example(); return err })
			return fmt.Sprintf("%q|%s", b, canonRes(r)), nil
		case len(op) > 10 && op[:10] == "TypeCheck:":
			var i int
			fmt.Sscanf(op, "TypeCheck:%d", &i)
			ty, ok := o.Types[o.Spec.Schema.Types[i].Name].(*js.Schema)
			if !ok {
				return "not a schema", nil
			}
			return canonRes(lib.Check(ty)), nil
		case len(op) > 10 && op[:10] == "CheckKept:":
			// Check of the kept Document object (the one ValidateKept validates)
			var i int
			fmt.Sscanf(op, "CheckKept:%d", &i)
			if o.KeptDocs == nil {
				o.KeptDocs = map[int]jschema.Document{}
			}
			if o.KeptDocs[i] == nil {
				o.KeptDocs[i] = libjson.New("doc", o.Spec.Docs[i])
			}
			return canonRes(lib.Safe(o.KeptDocs[i].Check)), nil
		case len(op) > 9 && op[:9] == "ReadKept:":
			// the kept Document object is the caller's: validating it (any number of times) reads a
			// copy, so whoever reads it for the first time gets all of its events
			var i int
			fmt.Sscanf(op, "ReadKept:%d", &i)
			if o.KeptDocs == nil {
				o.KeptDocs = map[int]jschema.Document{}
			}
			if o.KeptDocs[i] == nil {
				o.KeptDocs[i] = libjson.New("doc", o.Spec.Docs[i])
			}
			if o.KeptRead == nil {
				o.KeptRead = map[int]string{}
			}
			if _, done := o.KeptRead[i]; !done {
				o.KeptRead[i] = Stream(&Obj{D: o.KeptDocs[i]}, "")
			}
			return o.KeptRead[i], nil
		case len(op) > 13 && op[:13] == "ValidateKept:":
			// the same Document object every time (it has been validated, by this and maybe by
			// other schema objects, before): the verdict is that of a fresh document
			var i int
			fmt.Sscanf(op, "ValidateKept:%d", &i)
			if o.KeptDocs == nil {
				o.KeptDocs = map[int]jschema.Document{}
			}
			if o.KeptDocs[i] == nil {
				o.KeptDocs[i] = libjson.New("doc", o.Spec.Docs[i])
			}
			d := o.KeptDocs[i]
			return canonRes(lib.Safe(func() error { return s.Validate(d) })), nil
		default:
			var i int
			fmt.Sscanf(op, "Validate:%d", &i)
			return canonRes(lib.Validate(s, []byte(o.Spec.Docs[i]))), nil
		}
	case "json":
		d := o.D
		switch op {
		case "Check":
			return canonRes(lib.Safe(d.Check)), nil
		case "Len":
			var l uint
			r := lib.Safe(func() error { var err error; l, err = d.Len(); return err })
			return fmt.Sprintf("%d|%s", l, canonRes(r)), nil
		case "Drain:2", "Drain:1000":
			// advance the live object's own cursor (as Schema.Validate does with a caller's document);
			// Check and Len of the same object must not depend on where the cursor stands
			var k int
			fmt.Sscanf(op, "Drain:%d", &k)
			for i := 0; i < k; i++ {
				if _, err := d.NextLexeme(); err != nil {
					break
				}
			}
			return "drained", nil
		default:
			var k int
			fmt.Sscanf(op, "NextLexeme:%d", &k)
			// the lexeme stream of a document object is a cursor: compare a fresh cursor each time
			fresh := Build(o.Spec).D
			out := ""
			for i := 0; i < k; i++ {
				l, err := fresh.NextLexeme()
				if err != nil {
					if errors.Is(err, io.EOF) {
						out += "EOF"
					} else {
						out += canonRes(lib.Canon(err))
					}
					break
				}
				out += fmt.Sprintf("%s[%d,%d] ", l.Type().String(), l.Begin(), l.End())
			}
			return out, nil
		}
	case "enum":
		e := o.E
		switch op {
		case "Check":
			return canonRes(lib.Safe(e.Check)), nil
		case "Len":
			var l uint
			r := lib.Safe(func() error { var err error; l, err = e.Len(); return err })
			return fmt.Sprintf("%d|%s", l, canonRes(r)), nil
		case "Values":
			var vs []enum.Value
			r := lib.Safe(func() error { var err error; vs, err = e.Values(); return err })
			s := ""
			for _, v := range vs {
				s += fmt.Sprintf("(%s,%s,%q)", v.Value, v.Type, v.Comment)
			}
			return s + "|" + canonRes(r), nil
		default:
			var n jschema.ASTNode
			r := lib.Safe(func() error { var err error; n, err = e.GetAST(); return err })
			j, _ := json.Marshal(n)
			return string(j) + "|" + canonRes(r), nil
		}
	default:
		g := o.R
		own := o.Spec.Name
		if own == "" {
			own = "@r"
		}
		canonRes := func(r lib.Res) string {
			c := canonRes(r)
			if r.Lib && r.File != "" && r.File != own {
				c += " FOREIGN-FILE: the error names the file " + r.File + ", the object was made of the file " + own
			}
			return c
		}
		switch op {
		case "Check":
			return canonRes(lib.Safe(g.Check)), nil
		case "Len":
			var l uint
			r := lib.Safe(func() error { var err error; l, err = g.Len(); return err })
			return fmt.Sprintf("%d|%s", l, canonRes(r)), nil
		case "Pattern":
			var p string
			r := lib.Safe(func() error { var err error; p, err = g.Pattern(); return err })
			return p + "|" + canonRes(r), nil
		case "Example":
			// every call returns what the first call on a fresh object returns
			var b []byte
			r := lib.Safe(func() error { var err error; b, err = g.Example(); return err })
			if b != nil {
				keepBytes("regex Example bytes", b)
			}
			return fmt.Sprintf("%q|%s", b, canonRes(r)), kept
		default:
			var n jschema.ASTNode
			r := lib.Safe(func() error { var err error; n, err = g.GetAST(); return err })
			j, _ := json.Marshal(n)
			return string(j) + "|" + canonRes(r), nil
		}
	}
}
